import RsddModel.Spec.Cnf
import RsddModel.Model.Bdd
/-!
# Model: top-down CNF → decision-DNNF compilation (`src/builder/decision_nnf/*.rs`)

Mirrors, line by line,

* `DecisionNNFBuilder::{conjoin_implied, topdown_h, compile_cnf_topdown, cond_helper}` and
  `TopDownBuilder::{var, condition}` of `builder.rs` (as repaired by F2 and F8; the pinned,
  defective versions are kept as `condHelperOrig` and `compileTopdownOrig`);
* `StandardDecisionNNFBuilder::get_or_insert` (`standard.rs`): only a *complemented high edge*
  is normalised, a false high edge is not;
* `SemanticDecisionNNFBuilder::get_or_insert` (`semantic.rs`): look the semantic hash up,
  then the negated hash, otherwise store the node under its hash (equality by hash).

The SAT solver is abstract (`Solver`): exactly the API of `SATSolver` in `repr/unit_prop.rs`
(`new, decide, pop, is_sat, is_set, cur_hash, difference_iter`), threaded functionally.  The
cache key type `κ` is a field (the Rust uses `u128`, i.e. `κ = Nat`; the reference solver
`NaiveSolver` at the end of the file uses the residual formula itself).

Core Lean only; everything here is executable.
-/
namespace TopDown
open Spec Bdd

/-- `DecisionResult` of `repr/unit_prop.rs` -/
inductive DecideResult where
  | sat | unsat | unknown
deriving DecidableEq, Repr, Inhabited

/-- the API of `SATSolver`, as a state-passing interface.

* `new cnf numVars`   = `SATSolver::new(cnf)` (`none` = initially UNSAT);
* `decide s l`        = `sat.decide(l)`; when the result is `unsat` NO state is pushed;
* `pop s`             = `sat.pop()`;
* `isSat/isSet/curHash` read the top state;
* `difference s`      = `sat.difference_iter()`: literals of the top model that are not in
  the model below it (false literals ascending by label, then true literals ascending). -/
structure Solver where
  σ : Type
  κ : Type
  keyEq : DecidableEq κ
  new : Cnf → Nat → Option σ
  decide : σ → Lit → DecideResult × σ
  pop : σ → σ
  isSat : σ → Bool
  isSet : σ → Nat → Bool
  curHash : σ → κ
  difference : σ → List Lit

instance (S : Solver) : DecidableEq S.κ := S.keyEq

/-- a node store: `getOrInsert st var low high` = `builder.get_or_insert(BddNode::new(var, low, high))` -/
structure NodeStore where
  τ : Type
  empty : τ
  getOrInsert : τ → Nat → Ptr → Ptr → Ptr × τ

/-! ## the standard (structural) store -/

/-- `StandardDecisionNNFBuilder::get_or_insert`: if the high edge is complemented, store
`(var, ¬low, ¬high)` and return a complemented pointer; otherwise a regular pointer.
(The unique table is structural, so pointer identity is structural equality: C02.) -/
def dnnfNode (v : Nat) (lo hi : Ptr) : Ptr :=
  if hi.isNeg then .node true v lo.neg hi.neg else .node false v lo hi

def standardStore : NodeStore where
  τ := Unit
  empty := ()
  getOrInsert := fun _ v lo hi => (dnnfNode v lo hi, ())

/-! ## the semantic store -/

/-- `SemanticDecisionNNFBuilder::get_or_insert`.  The state lists the stored nodes with the
table key they are stored under, oldest first.  `semHash` is the semantic hash of a node (a
field element, supplied from outside, applied to the *regular* pointer to the requested
node), `negH` is `FiniteField::negate` (`h ↦ P - h + 1`), `key` is the 64-bit `FxHasher`
digest of a field value, which is what the table (`get_by_hash`, `get_or_insert_by_hash` with
equality-by-hash) compares.  Lookup by `key h` → the stored node, regular; lookup by
`key (negH h)` → the stored node, complemented; otherwise the requested node is stored as it
is (no complement normalisation) under `key h` and returned regular.  (`H` is the type of
field values, `Nat` for the Rust; it is a parameter only so that an idealised collision-free
hash can be exhibited.) -/
def getOrInsertSemantic {H : Type} [DecidableEq H] (semHash : Ptr → H) (negH key : H → H)
    (st : List (H × Ptr)) (v : Nat) (lo hi : Ptr) : Ptr × List (H × Ptr) :=
  let n := Ptr.node false v lo hi
  let h := semHash n
  match st.find? (fun e => e.1 == key h) with
  | some e => (e.2, st)
  | none =>
    match st.find? (fun e => e.1 == key (negH h)) with
    | some e => (e.2.neg, st)
    | none => (n, st ++ [(key h, n)])

def semanticStore {H : Type} [DecidableEq H] (semHash : Ptr → H) (negH : H → H) (key : H → H := id) :
    NodeStore where
  τ := List (H × Ptr)
  empty := []
  getOrInsert := getOrInsertSemantic semHash negH key

/-! ## `conjoin_implied` -/

section
variable (NS : NodeStore)

/-- the loop of `conjoin_implied` (also the root loop of `compile_cnf_topdown`): for each
literal in turn put a node `(label, ⊥, sub)` / `(label, sub, ⊥)` on top -/
def implyChain : NS.τ → List Lit → Ptr → Ptr × NS.τ
  | t, [], sub => (sub, t)
  | t, l :: ls, sub =>
    let (r, t') := if l.pol then NS.getOrInsert t l.var .fls sub else NS.getOrInsert t l.var sub .fls
    implyChain t' ls r

/-- `conjoin_implied(literals, nnf)` -/
def conjoinImplied (t : NS.τ) (lits : List Lit) (nnf : Ptr) : Ptr × NS.τ :=
  if nnf.isFalse then (.fls, t) else implyChain NS t lits nnf

end

/-! ## `topdown_h` -/

/-- the component cache `FxHashMap<u128, BddPtr>`: `insert` = cons, `get` = first match -/
abbrev Cache (κ : Type) := List (κ × Ptr)

def Cache.get {κ : Type} [DecidableEq κ] (c : Cache κ) (k : κ) : Option Ptr :=
  match c.find? (fun e => e.1 == k) with
  | some e => some e.2
  | none => none

section
variable (S : Solver) (NS : NodeStore)

/-- what `topdown_h` returns, plus the three pieces of mutable state it threads -/
abbrev HRes := Ptr × S.σ × Cache S.κ × NS.τ

/-- one of the two symmetric `match sat.decide(..)` blocks of `topdown_h`;
`recur` is the recursive call `self.topdown_h(cnf, sat, level + 1, cache)` -/
def branch (recur : S.σ → Cache S.κ → NS.τ → HRes S NS)
    (s : S.σ) (cache : Cache S.κ) (t : NS.τ) (l : Lit) : HRes S NS :=
  match S.decide s l with
  | (.unsat, s1) => (.fls, s1, cache, t)
  | (.sat, s1) =>
    let newAssgn := (S.difference s1).filter (fun x => x.var != l.var)
    let (r, t1) := conjoinImplied NS t newAssgn .tru
    (r, S.pop s1, cache, t1)
  | (.unknown, s1) =>
    let (sub, s2, cache1, t1) := recur s1 cache t
    let newAssgn := (S.difference s2).filter (fun x => x.var != l.var)
    let (r, t2) := conjoinImplied NS t1 newAssgn sub
    (r, S.pop s2, cache1, t2)

/-- the part of `topdown_h` after the cache miss: both `decide` blocks, the reduction test
`high_bdd == low_bdd`, the node, and `cache.insert(hashed, r)` -/
def decideNode (recur : S.σ → Cache S.κ → NS.τ → HRes S NS) (curV : Nat) (hashed : S.κ)
    (s : S.σ) (cache : Cache S.κ) (t : NS.τ) : HRes S NS :=
  let (hi, s1, cache1, t1) := branch S NS recur s cache t ⟨curV, true⟩
  let (lo, s2, cache2, t2) := branch S NS recur s1 cache1 t1 ⟨curV, false⟩
  let (r, t3) := if hi = lo then (hi, t2) else NS.getOrInsert t2 curV lo hi
  (r, s2, (hashed, r) :: cache2, t3)

/-- `topdown_h(cnf, sat, level, cache)`.  `rem` is `num_vars - level` (the recursion is
structural in it; `level ≥ num_vars` is `rem = 0`), `varAt` is `order.var_at_level`. -/
def topdownH (varAt : Nat → Nat) : (rem level : Nat) → S.σ → Cache S.κ → NS.τ → HRes S NS
  | 0, _, s, cache, t => (.tru, s, cache, t)
  | rem + 1, level, s, cache, t =>
    if S.isSat s then (.tru, s, cache, t) else
    let curV := varAt level
    if S.isSet s curV then topdownH varAt rem (level + 1) s cache t else
    let hashed := S.curHash s
    match Cache.get cache hashed with
    | some v => (v, s, cache, t)
    | none =>
      decideNode S NS (fun s c t => topdownH varAt rem (level + 1) s c t) curV hashed s cache t

/-- `compile_cnf_topdown(cnf)` as repaired (F8): the false constant is returned before the
root chain of initially implied literals is built -/
def compileTopdown (varAt : Nat → Nat) (cnf : Cnf) (numVars : Nat) (t : NS.τ) : Ptr × NS.τ :=
  match S.new cnf numVars with
  | none => (.fls, t)
  | some s =>
    let (r, s1, _, t1) := topdownH S NS varAt numVars 0 s [] t
    if r.isFalse then (.fls, t1) else implyChain NS t1 (S.difference s1) r

/-- the pinned `compile_cnf_topdown`: no `is_false` test before the root chain -/
def compileTopdownOrig (varAt : Nat → Nat) (cnf : Cnf) (numVars : Nat) (t : NS.τ) : Ptr × NS.τ :=
  match S.new cnf numVars with
  | none => (.fls, t)
  | some s =>
    let (r, s1, _, t1) := topdownH S NS varAt numVars 0 s [] t
    implyChain NS t1 (S.difference s1) r

end

/-! ## conditioning -/

section
variable (NS : NodeStore)

/-- `if bdd.is_neg() { r.neg() } else { r }` -/
def negIf (c : Bool) (r : Ptr) : Ptr := if c then r.neg else r

/-- `cond_helper(bdd, lbl, value)` as repaired (F2): recursion on the raw children.  The
scratch memo of the Rust is read but never written (the `set_scratch` line is commented
out), so there is no memo here. -/
def condHelper (x : Nat) (b : Bool) : Ptr → NS.τ → Ptr × NS.τ
  | .tru, t => (.tru, t)
  | .fls, t => (.fls, t)
  | .node c v lo hi, t =>
    if v = x then (negIf c (if b then hi else lo), t)
    else
      let (l, t1) := condHelper x b lo t
      let (h, t2) := condHelper x b hi t1
      if l = h then (negIf c l, t2)
      else if l ≠ lo ∨ h ≠ hi then
        let (r, t3) := NS.getOrInsert t2 v l h
        (negIf c r, t3)
      else (.node c v lo hi, t2)

/-- the pinned `cond_helper`: `low()/high()` (complement pushed into the children) and then
the result is negated again.  The pointer handled is `negIf flip p`; structural in `p`. -/
def condOrigAux (x : Nat) (b : Bool) : Ptr → Bool → NS.τ → Ptr × NS.τ
  | .tru, flip, t => (negIf flip .tru, t)
  | .fls, flip, t => (negIf flip .fls, t)
  | .node c v lo hi, flip, t =>
    let c' := xor c flip
    if v = x then (negIf c' (if b then negIf c' hi else negIf c' lo), t)
    else
      let (l, t1) := condOrigAux x b lo c' t
      let (h, t2) := condOrigAux x b hi c' t1
      if l = h then (negIf c' l, t2)
      else if l ≠ negIf c' lo ∨ h ≠ negIf c' hi then
        let (r, t3) := NS.getOrInsert t2 v l h
        (negIf c' r, t3)
      else (.node c' v lo hi, t2)

def condHelperOrig (x : Nat) (b : Bool) (p : Ptr) (t : NS.τ) : Ptr × NS.τ :=
  condOrigAux NS x b p false t

/-- `TopDownBuilder::var(lbl, polarity)` -/
def mkVar (t : NS.τ) (x : Nat) (pol : Bool) : Ptr × NS.τ :=
  let (r, t1) := NS.getOrInsert t x .fls .tru
  (if pol then r else r.neg, t1)

/-- `TopDownBuilder::condition(bdd, lbl, value)` (`clear_scratch` has nothing to clear) -/
def condition (t : NS.τ) (p : Ptr) (x : Nat) (b : Bool) : Ptr × NS.τ := condHelper NS x b p t

def conditionOrig (t : NS.τ) (p : Ptr) (x : Nat) (b : Bool) : Ptr × NS.τ := condHelperOrig NS x b p t

end

/-! ## a naive reference solver

Partial models are association lists of assigned literals (most recent first).  Unit
propagation scans the clause list for the first unit clause, assigns it, and repeats
(`propFuel` rounds, enough for a fixpoint); then a
conflict is reported if some clause has all literals false.  The cache key is the residual
formula itself, so the hash clause holds by construction. -/

abbrev NModel := List Lit

def NModel.get (m : NModel) (v : Nat) : Option Bool :=
  match m.find? (fun l => l.var == v) with
  | some l => some l.pol
  | none => none

/-- the partial model an association list denotes -/
def NModel.toP (m : NModel) : PModel := fun v => m.get v

/-- the literal to propagate if `c` is unit under `m`: no true literal, and all unassigned
literals are one and the same -/
def unitOf (m : NModel) (c : Clause) : Option Lit :=
  if c.any (litTrue m.toP) then none else
  match c.filter (litUnset m.toP) with
  | [] => none
  | u :: rest => if rest.all (fun l => decide (l = u)) then some u else none

def findUnit (m : NModel) : Cnf → Option Lit
  | [] => none
  | c :: cs => match unitOf m c with
    | some u => some u
    | none => findUnit m cs

def propagate (cnf : Cnf) : Nat → NModel → NModel
  | 0, m => m
  | fuel + 1, m => match findUnit m cnf with
    | some u => propagate cnf fuel (u :: m)
    | none => m

def hasConflict (cnf : Cnf) (m : NModel) : Bool := cnf.any (clauseFalsified m.toP)

/-- all variable occurrences of a CNF; one more round than this is enough for a fixpoint -/
def cnfVarList (cnf : Cnf) : List Nat := cnf.flatMap (fun c => c.map (·.var))

def propFuel (cnf : Cnf) : Nat := (cnfVarList cnf).length + 1

structure NaiveState where
  cnf : Cnf
  numVars : Nat
  /-- the state stack, top first -/
  stack : List NModel
deriving Repr

def NaiveState.top (s : NaiveState) : NModel := s.stack.headD []
def NaiveState.prev (s : NaiveState) : NModel := (s.stack.drop 1).headD []

def naiveNew (cnf : Cnf) (numVars : Nat) : Option NaiveState :=
  let m := propagate cnf (propFuel cnf) []
  if hasConflict cnf m then none else some ⟨cnf, numVars, [m, []]⟩

def naiveIsSat (s : NaiveState) : Bool := s.cnf.all (fun c => c.any (litTrue s.top.toP))

def naiveDecide (s : NaiveState) (l : Lit) : DecideResult × NaiveState :=
  match s.top.get l.var with
  | some b =>
    if b = l.pol then
      let s' : NaiveState := { s with stack := s.top :: s.stack }
      (if naiveIsSat s' then .sat else .unknown, s')
    else (.unsat, s)
  | none =>
    let m := propagate s.cnf (propFuel s.cnf) (l :: s.top)
    if hasConflict s.cnf m then (.unsat, s)
    else
      let s' : NaiveState := { s with stack := m :: s.stack }
      (if naiveIsSat s' then .sat else .unknown, s')

/-- `PartialModel::difference`: false literals ascending, then true literals ascending -/
def naiveDifference (s : NaiveState) : List Lit :=
  let bound := s.top.foldl (fun n l => max n (l.var + 1)) s.numVars
  let new (b : Bool) := (List.range bound).filter
    (fun v => s.top.get v == some b && s.prev.get v != some b)
  (new false).map (fun v => ⟨v, false⟩) ++ (new true).map (fun v => ⟨v, true⟩)

def NaiveSolver : Solver where
  σ := NaiveState
  κ := Cnf
  keyEq := inferInstance
  new := naiveNew
  decide := naiveDecide
  pop := fun s => { s with stack := s.stack.drop 1 }
  isSat := naiveIsSat
  isSet := fun s v => (s.top.get v).isSome
  curHash := fun s => residual s.cnf s.top.toP
  difference := naiveDifference

/-- compile with the naive solver, the standard store and the identity order -/
def naiveCompile (cnf : Cnf) : Ptr :=
  (compileTopdown NaiveSolver standardStore id cnf (cnfNumVars cnf) ()).1

def naiveCompileOrig (cnf : Cnf) : Ptr :=
  (compileTopdownOrig NaiveSolver standardStore id cnf (cnfNumVars cnf) ()).1

end TopDown
