import RsddModel.Model.Scratch
import RsddModel.Model.BddBuilder
/-!
# Model: the ROBDD builder at the level of the unique table (`src/builder/bdd/robdd.rs`)

`Model/BddBuilder.lean` reads a `BddPtr` as the tree it unfolds to.  Here a `BddPtr` is what it is
in the Rust: a tagged *reference* (`Scratch.Ref`: `PtrTrue | PtrFalse | Reg(idx) | Compl(idx)`) into
the unique table (`Scratch.Store`, newest node first; `Scratch.getOrInsert` is
`RobddBuilder::get_or_insert`: complement normalisation to a regular high edge, then find-or-append).
Every comparison below is a comparison of references (`DecidableEq Ref`), never of trees:

* `IteS.new`: `Ite::new` of `src/builder/cache/ite.rs` over references, the order closure `o` of
  `ite_helper` reading the top variables through the store (`ordS`);
* `iteS`: `ite_helper`; the apply cache is keyed by triples of references (`CacheS`), the
  cofactors are read from the store (`condEssentialS`, i.e. `low_raw`/`high_raw` and `neg`), the
  reduction test `t == f` is reference equality, a new node goes through `getOrInsert`;
* `andS`, `orS`, `xorS`, `iffS`, `negS`, `varS`, `andLstS`, `orLstS`;
* `condS`: `condition`, i.e. `cond_with_alloc` with a fresh `HashMap<BddPtr, BddPtr>` keyed by
  references (`Scratch.condAlloc`, the store-level model already used for C10); `condModelS`,
  `existsS`, `composeS`;
* the operation language `stepS`/`runS` over a pool of references: all the `Op`s of
  `Model/BddBuilder.lean`, with the same rejections as `Bdd.step`.

A reference whose node does not exist ("dangling") is read as a constant, consistently with
`Scratch.unfold`; no operation creates one.  Everything is executable.
-/
namespace BddStore
open Bdd Scratch Spec

/-! ## reading the store -/

/-- the node stored at index `i` (the head of `n :: rest` has index `rest.length`) -/
def nodeAt : Store → Nat → Option Node
  | [], _ => none
  | n :: rest, i => if i = rest.length then some n else nodeAt rest i

/-- `BddPtr::var` (`PartialVariableOrder::var`): the top variable, read through the store -/
def varOf (s : Store) (r : Ref) : Option Nat :=
  match r.idx? with
  | none => none
  | some i => (nodeAt s i).map (·.var)

end BddStore

namespace Scratch.Ref
/-- `BddPtr::is_true` -/
def isTrue : Ref → Bool | .tru => true | _ => false
/-- `BddPtr::is_false` -/
def isFalse : Ref → Bool | .fls => true | _ => false
end Scratch.Ref

namespace BddStore
open Bdd Scratch Spec

/-! ## `Ite::new` over references -/

inductive IteS where
  | choice (f g h : Ref)
  | complChoice (f g h : Ref)
  | const (p : Ref)
deriving DecidableEq, Repr

/-- stage 1 of `Ite::new`: introduce constants (`==` is pointer equality) -/
def introConstS (f g h : Ref) : Ref × Ref × Ref :=
  if f = h then (f, g, Ref.fls)
  else if f = h.neg then (f, g, Ref.tru)
  else if f = g.neg then (f, Ref.fls, h)
  else (f, g, h)

/-- stage 2: terminal cases -/
def terminalS? (f g h : Ref) : Option Ref :=
  if f.isTrue then some g
  else if f.isFalse then some h
  else if g.isTrue && h.isFalse then some f
  else if g.isFalse && h.isTrue then some f.neg
  else if h = g then some g
  else none

/-- stage 3: put the top-most node first -/
def reorderS (ord : Ref → Ref → Bool) (f g h : Ref) : Ref × Ref × Ref :=
  if g.isTrue && ord h f then (h, g, f)
  else if h.isFalse && ord g f then (g, f, h)
  else if h.isTrue && ord g f then (g.neg, f.neg, h)
  else if g.isFalse && ord h f then (h.neg, g, f.neg)
  else if g = h.neg && ord g f then (g, f, f.neg)
  else (f, g, h)

/-- stage 4: standardise negation -/
def standardiseS (f g h : Ref) : IteS :=
  if f.isNeg && !h.isNeg then .choice f.neg h g
  else if !f.isNeg && g.isNeg then .complChoice f g.neg h.neg
  else if f.isNeg && h.isNeg then .complChoice f.neg h.neg g.neg
  else .choice f g h

/-- `Ite::new` at `T = BddPtr` -/
def IteS.new (ord : Ref → Ref → Bool) (f g h : Ref) : IteS :=
  let (f, g, h) := introConstS f g h
  match terminalS? f g h with
  | some r => .const r
  | none =>
    let (f, g, h) := reorderS ord f g h
    standardiseS f g h

/-- the order closure `o` of `ite_helper`: constants first, then by the level of `node.var` -/
def ordS (lvl : Nat → Nat) (s : Store) (a b : Ref) : Bool :=
  match varOf s a, varOf s b with
  | none, _ => true
  | _, none => false
  | some va, some vb => lvl va < lvl vb

/-- `VarOrder::first` -/
def firstS (lvl : Nat → Nat) (s : Store) (a b : Ref) : Ref :=
  match varOf s a, varOf s b with
  | none, _ => b
  | _, none => a
  | some va, some vb => if lvl va < lvl vb then a else b

/-- `VarOrder::first_essential` (`none` = the panic on three constants) -/
def firstEssentialS (lvl : Nat → Nat) (s : Store) (a b c : Ref) : Option Nat :=
  varOf s (firstS lvl s (firstS lvl s a b) c)

/-- `RobddBuilder::condition_essential`: `high_raw`/`low_raw` of the node, negated for a
complemented pointer -/
def condEssentialS (s : Store) (f : Ref) (x : Nat) (v : Bool) : Ref :=
  match f.idx? with
  | none => f
  | some i =>
    match nodeAt s i with
    | none => f
    | some n =>
      if n.var ≠ x then f else
        let r := if v then n.hi else n.lo
        if f.isNeg then r.neg else r

/-! ## the apply cache, keyed by references -/

/-- the C16 contract (`Bdd.CacheImpl`) for a table from triples of references to references -/
structure CacheS where
  σ : Type
  empty : σ
  get : σ → (Ref × Ref × Ref) → Option Ref
  insert : σ → (Ref × Ref × Ref) → Ref → σ
  lawful : ∀ s k v k' v', get (insert s k v) k' = some v' → (k' = k ∧ v' = v) ∨ get s k' = some v'
  empty_get : ∀ k, get empty k = none

/-- `IteTable::get` of both adapters -/
def cacheGetS (C : CacheS) (c : C.σ) : IteS → Option Ref
  | .choice f g h => C.get c (f, g, h)
  | .complChoice f g h => (C.get c (f, g, h)).map Ref.neg
  | .const p => some p

/-- `IteTable::insert` of both adapters -/
def cacheInsertS (C : CacheS) (c : C.σ) (i : IteS) (r : Ref) : C.σ :=
  match i with
  | .choice f g h => C.insert c (f, g, h) r
  | .complChoice f g h => C.insert c (f, g, h) r.neg
  | .const _ => c

/-- `AllIteTable` over references: association list, newest binding first -/
def ListCacheS.get : List ((Ref × Ref × Ref) × Ref) → (Ref × Ref × Ref) → Option Ref
  | [], _ => none
  | (k', v) :: rest, k => if k = k' then some v else ListCacheS.get rest k

def ListCacheS : CacheS where
  σ := List ((Ref × Ref × Ref) × Ref)
  empty := []
  get := ListCacheS.get
  insert := fun s k v => (k, v) :: s
  lawful := by
    intro s k v k' v' h
    simp only [ListCacheS.get] at h
    split at h
    · left; rename_i hk; exact ⟨hk, by simpa using h.symm⟩
    · right; exact h
  empty_get := by intro k; rfl

/-- the cache that stores nothing (every lookup misses) -/
def NoCacheS : CacheS where
  σ := Unit
  empty := ()
  get := fun _ _ => none
  insert := fun _ _ _ => ()
  lawful := by intro s k v k' v' h; cases h
  empty_get := by intro k; rfl

/-! ## nodes -/

/-- `get_or_insert(BddNode::new(x, lo, hi))` -/
def mkNodeS (s : Store) (x : Nat) (lo hi : Ref) : Store × Ref := getOrInsert s ⟨x, lo, hi⟩

/-- the tail of `ite_helper` and of `cond_with_alloc`: `if lo == hi { lo } else { get_or_insert }`,
the test being pointer equality -/
def mkReducedS (s : Store) (x : Nat) (lo hi : Ref) : Store × Ref :=
  if lo = hi then (s, lo) else mkNodeS s x lo hi

/-- `negate` -/
def negS (r : Ref) : Ref := r.neg

/-- `var` -/
def varS (s : Store) (x : Nat) (pol : Bool) : Store × Ref :=
  let a := mkNodeS s x .fls .tru
  (a.1, if pol then a.2 else a.2.neg)

/-! ## `ite_helper` -/

/-- `RobddBuilder::ite_helper`, with fuel; the state is the unique table and the apply cache -/
def iteS (C : CacheS) (lvl : Nat → Nat) :
    Nat → Store × C.σ → Ref → Ref → Ref → Option ((Store × C.σ) × Ref)
  | 0, _, _, _, _ => none
  | fuel + 1, st, f, g, h =>
    match IteS.new (ordS lvl st.1) f g h with
    | .const r => some (st, r)
    | key =>
      match cacheGetS C st.2 key with
      | some v => some (st, v)
      | none =>
        match firstEssentialS lvl st.1 f g h with
        | none => none
        | some x =>
          match iteS C lvl fuel st (condEssentialS st.1 f x true) (condEssentialS st.1 g x true)
              (condEssentialS st.1 h x true) with
          | none => none
          | some (st1, t) =>
            match iteS C lvl fuel st1 (condEssentialS st.1 f x false) (condEssentialS st.1 g x false)
                (condEssentialS st.1 h x false) with
            | none => none
            | some (st2, e) =>
              if t = e then some (st2, t)
              else
                let a := mkNodeS st2.1 x e t
                some ((a.1, cacheInsertS C st2.2 key a.2), a.2)

/-! ## the derived operations and the operation language -/

section ops
variable (C : CacheS) (lvl : Nat → Nat) (fuel : Nat)

def andS (st : Store × C.σ) (f g : Ref) := iteS C lvl fuel st f g .fls
def iffS (st : Store × C.σ) (f g : Ref) := iteS C lvl fuel st f g g.neg
def xorS (st : Store × C.σ) (f g : Ref) := iteS C lvl fuel st f g.neg g
/-- default `or` of `BottomUpBuilder`: De Morgan through `and` -/
def orS (st : Store × C.σ) (f g : Ref) : Option ((Store × C.σ) × Ref) :=
  match andS C lvl fuel st f.neg g.neg with
  | some (st', r) => some (st', r.neg)
  | none => none

def andLstS (st : Store × C.σ) (acc : Ref) : List Ref → Option ((Store × C.σ) × Ref)
  | [] => some (st, acc)
  | p :: ps =>
    match andS C lvl fuel st acc p with
    | none => none
    | some (st', r) => andLstS st' r ps

def orLstS (st : Store × C.σ) (acc : Ref) : List Ref → Option ((Store × C.σ) × Ref)
  | [] => some (st, acc)
  | p :: ps =>
    match orS C lvl fuel st acc p with
    | none => none
    | some (st', r) => orLstS st' r ps
end ops

/-! ## conditioning -/

/-- `VarOrder::lt` -/
def ltOf (lvl : Nat → Nat) (a b : Nat) : Bool := decide (lvl a < lvl b)

/-- `BottomUpBuilder::condition` for BDDs: `cond_with_alloc` with a fresh memo (the scratch
clean-up of `condition` is the subject of C10) -/
def condS (lvl : Nat → Nat) (s : Store) (r : Ref) (x : Nat) (b : Bool) : Store × Ref :=
  let a := condAlloc (ltOf lvl) x b s r (s, [])
  (a.2.1, a.1)

/-- `cond_model_h` -/
def condModelS (lvl : Nat → Nat) (s : Store) (p : Ref) : List (Nat × Bool) → Store × Ref
  | [] => (s, p)
  | (x, b) :: rest =>
    let a := condS lvl s p x b
    condModelS lvl a.1 a.2 rest

section ops2
variable (C : CacheS) (lvl : Nat → Nat) (fuel : Nat)

/-- `exists` -/
def existsS (st : Store × C.σ) (f : Ref) (x : Nat) : Option ((Store × C.σ) × Ref) :=
  let v1 := condS lvl st.1 f x true
  let v2 := condS lvl v1.1 f x false
  orS C lvl fuel (v2.1, st.2) v1.2 v2.2

/-- default `compose` of `BottomUpBuilder` -/
def composeS (st : Store × C.σ) (f : Ref) (x : Nat) (g : Ref) : Option ((Store × C.σ) × Ref) :=
  let v := varS st.1 x true
  match iffS C lvl fuel (v.1, st.2) v.2 g with
  | none => none
  | some (st1, i) =>
    match andS C lvl fuel st1 i f with
    | none => none
    | some (st2, a) => existsS C lvl fuel st2 a x
end ops2

/-- builder state: unique table, apply cache, number of variables, the pointers handed out -/
structure StS (C : CacheS) where
  store : Store
  cache : C.σ
  numVars : Nat
  pool : List Ref

def StS.init (C : CacheS) (n : Nat) : StS C := ⟨[], C.empty, n, []⟩

def getAllS (pool : List Ref) : List Nat → Option (List Ref)
  | [] => some []
  | i :: is =>
    match pool[i]?, getAllS pool is with
    | some p, some ps => some (p :: ps)
    | _, _ => none

/-- result of a call that went through `ite` -/
def StS.push {C : CacheS} (st : StS C) (a : (Store × C.σ) × Ref) : StS C :=
  { st with store := a.1.1, cache := a.1.2, pool := st.pool ++ [a.2] }

/-- one builder call on the store-level state; same `Op` language and same rejections as
`Bdd.step` -/
def stepS (C : CacheS) (lvl : Nat → Nat) (fuel : Nat) (st : StS C) : Op → Option (StS C)
  | .const b => some { st with pool := st.pool ++ [if b then .tru else .fls] }
  | .var x pol =>
    if x < st.numVars then
      let a := varS st.store x pol
      some { st with store := a.1, pool := st.pool ++ [a.2] }
    else none
  | .newVar pol =>
    let a := varS st.store st.numVars pol
    some { st with store := a.1, numVars := st.numVars + 1, pool := st.pool ++ [a.2] }
  | .neg i => (st.pool[i]?).map fun p => { st with pool := st.pool ++ [negS p] }
  | .and i j =>
    match st.pool[i]?, st.pool[j]? with
    | some p, some q => (andS C lvl fuel (st.store, st.cache) p q).map st.push
    | _, _ => none
  | .or i j =>
    match st.pool[i]?, st.pool[j]? with
    | some p, some q => (orS C lvl fuel (st.store, st.cache) p q).map st.push
    | _, _ => none
  | .xor i j =>
    match st.pool[i]?, st.pool[j]? with
    | some p, some q => (xorS C lvl fuel (st.store, st.cache) p q).map st.push
    | _, _ => none
  | .iff i j =>
    match st.pool[i]?, st.pool[j]? with
    | some p, some q => (iffS C lvl fuel (st.store, st.cache) p q).map st.push
    | _, _ => none
  | .ite i j k =>
    match st.pool[i]?, st.pool[j]?, st.pool[k]? with
    | some p, some q, some r0 => (iteS C lvl fuel (st.store, st.cache) p q r0).map st.push
    | _, _, _ => none
  | .andLst is =>
    match getAllS st.pool is with
    | some ps => (andLstS C lvl fuel (st.store, st.cache) .tru ps).map st.push
    | none => none
  | .orLst is =>
    match getAllS st.pool is with
    | some ps => (orLstS C lvl fuel (st.store, st.cache) .fls ps).map st.push
    | none => none
  | .cond i x b =>
    if x < st.numVars then (st.pool[i]?).map fun p =>
      let a := condS lvl st.store p x b
      { st with store := a.1, pool := st.pool ++ [a.2] }
    else none
  | .condModel i m =>
    if m.all (fun (x, _) => x < st.numVars) then (st.pool[i]?).map fun p =>
      let a := condModelS lvl st.store p m
      { st with store := a.1, pool := st.pool ++ [a.2] }
    else none
  | .exist i x =>
    if x < st.numVars then
      match st.pool[i]? with
      | some p => (existsS C lvl fuel (st.store, st.cache) p x).map st.push
      | none => none
    else none
  | .compose i x j =>
    if x < st.numVars then
      match st.pool[i]?, st.pool[j]? with
      | some p, some q => (composeS C lvl fuel (st.store, st.cache) p x q).map st.push
      | _, _ => none
    else none

def runS (C : CacheS) (lvl : Nat → Nat) (fuel : Nat) (st : StS C) : List Op → Option (StS C)
  | [] => some st
  | op :: ops =>
    match stepS C lvl fuel st op with
    | none => none
    | some st' => runS C lvl fuel st' ops

end BddStore
