import RsddModel.Model.Serialize
import RsddModel.Model.BddCompile
import RsddModel.Model.BddWmc
/-!
# Model: the command-line tools (`bin/*.rs`) as compositions

`weighted_model_count` (single-count mode): s-expression text → `LogicalSExpr` → indexed
`LogicalExpr` (lexicographic numbering) → BDD under the configured order → smoothing over all
variables → count.  `bottomup_formula_to_bdd`: the same up to the BDD, then the JSON serialiser.
`bottomup_cnf_to_bdd`: DIMACS → CNF → order → dtree → plan → BDD → JSON.
-/
namespace Cli
open Spec Bdd

/-- the two models of `LogicalExpr` (serialisation side / compilation side) are the same type -/
def toCompileExpr : Ser.LogicalExpr → Compile.LogicalExpr
  | .lit v p => .lit v p
  | .not e => .not (toCompileExpr e)
  | .and l r => .and (toCompileExpr l) (toCompileExpr r)
  | .or l r => .or (toCompileExpr l) (toCompileExpr r)
  | .iff l r => .iff (toCompileExpr l) (toCompileExpr r)
  | .xor l r => .xor (toCompileExpr l) (toCompileExpr r)
  | .ite g t e => .ite (toCompileExpr g) (toCompileExpr t) (toCompileExpr e)

/-- `single_wmc`: compile, smooth over `numVars`, count -/
def singleWmc {α : Type} (C : CacheImpl) (lvl varAt : Nat → Nat) (fuel : Nat) (S : SROps α)
    (w : Weights α) (numVars : Nat) (e : Ser.LogicalExpr) : Option α :=
  (Compile.compileExpr (Bdd.ops C lvl fuel) C.empty (toCompileExpr e)).map fun (_, d) =>
    wmc S w (smooth lvl varAt d numVars)

/-- `bottomup_formula_to_bdd`: compile and serialise -/
def formulaToBdd (C : CacheImpl) (lvl : Nat → Nat) (fuel : Nat) (e : Ser.LogicalExpr) : Option Ser.BddTable :=
  (Compile.compileExpr (Bdd.ops C lvl fuel) C.empty (toCompileExpr e)).map fun (_, d) => Ser.serBdd d

end Cli
