import RsddModel.Model.Scratch
/-!
# Model: the scratch cell of SDD nodes and the memoised SDD queries (property C10, SDD side)

Mirrors `src/repr/sdd.rs` (`SddPtr::fold`, `count_nodes`, `clear_scratch`, `scratch`,
`set_scratch`), `src/repr/sdd/sdd_or.rs` (`SddOr.scratch`, `SddOr::clear_scratch`,
`SddNodeIter`) and `src/repr/sdd/binary_sdd.rs` (`BinarySDD.scratch`,
`BinarySDD::clear_scratch`).

Differences from the BDD side that matter here:
* a node is a list of `(prime, sub)` elements; `SddPtr::BDD`/`ComplBDD` point to a
  `BinarySDD {label, low, high}` whose `node_iter` yields `(Var(label,true), high)` then
  `(Var(label,false), low)`;
* under a complemented pointer only the *subs* are negated (`and.sub().neg()`), primes are
  traversed as they are;
* both `clear_scratch`es are **unconditional**: they empty the node's cell and recurse into every
  child whatever the cell held (no short-circuit; the walk is over the unfolded tree);
* `count_h` returns its count (`1 + count_h(low) + 1 + count_h(high)`, resp. one per element)
  instead of bumping a counter.

The store discipline is that of `Model/Scratch.lean`: newest node first, the head of
`n :: rest` has index `rest.length`, children are resolved in `rest`.  The cell type and the
`probeFold`/`storeFold` pair logic are shared with the BDD model (the Rust code is the same text).
-/
namespace ScratchSdd
open Scratch

/-- `SddPtr`; `reg`/`compl` stand for `Reg`/`Compl` (an `SddOr`) and for `BDD`/`ComplBDD`
(a `BinarySDD`), the node kind being a property of the node -/
inductive SRef where
  | tru | fls
  | var (v : Nat) (b : Bool)
  | reg (i : Nat)
  | compl (i : Nat)
deriving DecidableEq, Repr, Inhabited

namespace SRef
def neg : SRef → SRef
  | tru => fls | fls => tru | var v b => var v (!b) | reg i => compl i | compl i => reg i
/-- `matches!(self, Compl(_) | ComplBDD(_))` -/
def isNeg : SRef → Bool
  | compl _ => true | _ => false
def idx? : SRef → Option Nat
  | reg i | compl i => some i | _ => none
end SRef

inductive SNode where
  | bdd (label : Nat) (lo hi : SRef)
  | or (elems : List (SRef × SRef))
deriving Repr, Inhabited

/-- `SddNodeIter`: the `(prime, sub)` pairs in iteration order -/
def SNode.elems : SNode → List (SRef × SRef)
  | .bdd l lo hi => [(.var l true, hi), (.var l false, lo)]
  | .or es => es

/-- children in the order `clear_scratch` visits them (`low, high`; `prime, sub` per element) -/
def SNode.kids : SNode → List SRef
  | .bdd _ lo hi => [lo, hi]
  | .or es => es.flatMap fun e => [e.1, e.2]

/-- children in the order `count_h` visits them (`low, high`; `sub, prime` per element) -/
def SNode.kidsCount : SNode → List SRef
  | .bdd _ lo hi => [lo, hi]
  | .or es => es.flatMap fun e => [e.2, e.1]

abbrev SStore := List SNode

def reachesS : SStore → SRef → Nat → Bool
  | [], _, _ => false
  | n :: rest, r, j =>
    match r.idx? with
    | none => false
    | some i =>
      if i = rest.length then j == i || n.kids.any (fun k => reachesS rest k j)
      else reachesS rest r j

/-- what `bottomup_pass_h` asks of the closure `f`:
`f(True)`, `f(False)`, `f(Lit(v,b))`, `f(And(·,·))`, `f(Or(·,·,∅))` -/
structure SAlg (V : Type) where
  tru : V
  fls : V
  lit : Nat → Bool → V
  and : V → V → V
  or : V → V → V

def SAlg.leaf {V : Type} (A : SAlg V) : SRef → V
  | .tru | .compl _ => A.tru
  | .fls | .reg _ => A.fls
  | .var v b => A.lit v b

/-- the closure of `unsmoothed_wmc` -/
def wmcSAlg {α : Type} (S : SROps α) (w : Spec.Weights α) : SAlg α where
  tru := S.one
  fls := S.zero
  lit := fun v b => if b then (w v).2 else (w v).1
  and := S.mul
  or := S.add

/-- the `for and in ptr.node_iter()` loop of `bottomup_helper`, with `rv` the recursive call -/
def valElems {V : Type} (A : SAlg V) (rv : SRef → V) (neg : Bool) : List (SRef × SRef) → V → V
  | [], acc => acc
  | e :: es, acc =>
    valElems A rv neg es (A.or acc (A.and (rv e.1) (rv (if neg then e.2.neg else e.2))))

/-- the un-memoised fold: the same recursion with no scratch (the fold of the unfolded tree) -/
def valS {V : Type} (A : SAlg V) : SStore → SRef → V
  | [], r => A.leaf r
  | n :: rest, r =>
    match r.idx? with
    | none => A.leaf r
    | some i =>
      if i = rest.length then valElems A (valS A rest) r.isNeg n.elems A.fls
      else valS A rest r

section cells
variable {Tag : Type} [DecidableEq Tag] {U : Tag → Type}

/-- the loop of `bottomup_helper`, threading the scratch through the recursive calls -/
def foldElems {V : Type} (A : SAlg V) (rc : SRef → Scr U → V × Scr U) (neg : Bool) :
    List (SRef × SRef) → V → Scr U → V × Scr U
  | [], acc, σ => (acc, σ)
  | e :: es, acc, σ =>
    let a := rc e.1 σ
    let b := rc (if neg then e.2.neg else e.2) a.2
    foldElems A rc neg es (A.or acc (A.and a.1 b.1)) b.2

/-- `bottomup_pass_h` of `SddPtr::fold` -/
def foldDagS (t : Tag) (A : SAlg (U t)) : SStore → SRef → Scr U → U t × Scr U
  | [], r, σ => (A.leaf r, σ)
  | n :: rest, r, σ =>
    match r.idx? with
    | none => (A.leaf r, σ)
    | some i =>
      if i = rest.length then
        match probeFold r.isNeg ((σ i).asPair t) with
        | .hit v => (v, σ)
        | .miss cached =>
          let a := foldElems A (foldDagS t A rest) r.isNeg n.elems A.fls σ
          let p := storeFold r.isNeg a.1 cached
          (a.1, a.2.set i (.pair t p.1 p.2))
      else foldDagS t A rest r σ

/-- `SddOr::clear_scratch` / `BinarySDD::clear_scratch`: unconditional -/
def clearS : SStore → SRef → Scr U → Scr U
  | [], _, σ => σ
  | n :: rest, r, σ =>
    match r.idx? with
    | none => σ
    | some i =>
      if i = rest.length then n.kids.foldl (fun σ k => clearS rest k σ) (σ.set i .empty)
      else clearS rest r σ

/-- `SddPtr::fold` -/
def foldS (t : Tag) (A : SAlg (U t)) (s : SStore) (r : SRef) (σ : Scr U) : U t × Scr U :=
  let a := foldDagS t A s r σ
  (a.1, clearS s r a.2)

/-- `count_h` of `SddPtr::count_nodes` -/
def countHS : SStore → SRef → Scr U → Nat × Scr U
  | [], _, σ => (0, σ)
  | n :: rest, r, σ =>
    match r.idx? with
    | none => (0, σ)
    | some i =>
      if i = rest.length then
        match (σ i).asCount with
        | some _ => (0, σ)
        | none =>
          match n with
          | .bdd _ lo hi =>
            let a := countHS rest lo (σ.set i (.count 0))
            let b := countHS rest hi a.2
            (1 + a.1 + 1 + b.1, b.2)
          | .or es =>
            es.foldl (fun (acc : Nat × Scr U) e =>
              let a := countHS rest e.2 acc.2
              let b := countHS rest e.1 a.2
              (acc.1 + a.1 + b.1 + 1, b.2)) (0, σ.set i (.count 0))
      else countHS rest r σ

/-- `SddPtr::count_nodes` -/
def countNodesS (s : SStore) (r : SRef) (σ : Scr U) : Nat × Scr U :=
  let a := countHS s r σ
  (a.1, clearS s r a.2)

/-- the public read-only calls on SDDs -/
inductive QueryS (U : Tag → Type) where
  | fold (t : Tag) (A : SAlg (U t))
  | countNodes

def runQueryS (s : SStore) (σ : Scr U) (r : SRef) : QueryS U → Answer U × Scr U
  | .fold t A => let a := foldS t A s r σ; (.val t a.1, a.2)
  | .countNodes => let a := countNodesS s r σ; (.num a.1, a.2)

def runQueriesS (s : SStore) : Scr U → List (SRef × QueryS U) → List (Answer U) × Scr U
  | σ, [] => ([], σ)
  | σ, (r, q) :: qs =>
    let a := runQueryS s σ r q
    let b := runQueriesS s a.2 qs
    (a.1 :: b.1, b.2)

end cells

/-- what `count_nodes` returns on clean cells: one per element of every distinct reachable node -/
def SNode.weight : SNode → Nat
  | .bdd .. => 2
  | .or es => es.length

/-- the weight of the node with index `j` -/
def weightAt : SStore → Nat → Nat
  | [], _ => 0
  | n :: rest, j => if j = rest.length then n.weight else weightAt rest j

def countSpecS (s : SStore) (r : SRef) : Nat :=
  ((List.range s.length).map fun j => if reachesS s r j then weightAt s j else 0).sum

end ScratchSdd
