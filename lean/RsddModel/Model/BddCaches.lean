import RsddModel.Model.BddBuilder
/-!
# Model: a concrete lawful apply cache (`AllIteTable`)

`AllCache` keeps every `(key, value)` pair ever inserted in an association list, newest first;
`get` returns the newest value under the key.  This is the behaviour of `AllIteTable`
(`src/builder/cache/all_app.rs`: a `HashMap` from the standard triple to the result, insert
overwrites).  It is used by the non-vacuity examples and by the executable driver.
-/
namespace Bdd

abbrev Key := Ptr × Ptr × Ptr

def AllCache.get : List (Key × Ptr) → Key → Option Ptr
  | [], _ => none
  | (k', v) :: rest, k => if k' = k then some v else AllCache.get rest k

def AllCache.insert (s : List (Key × Ptr)) (k : Key) (v : Ptr) : List (Key × Ptr) := (k, v) :: s

theorem AllCache.lawful (s : List (Key × Ptr)) (k : Key) (v : Ptr) (k' : Key) (v' : Ptr)
    (h : AllCache.get (AllCache.insert s k v) k' = some v') :
    (k' = k ∧ v' = v) ∨ AllCache.get s k' = some v' := by
  simp only [AllCache.insert, AllCache.get] at h
  split at h
  · rename_i e; cases h; exact Or.inl ⟨e.symm, rfl⟩
  · exact Or.inr h

/-- the list-backed cache that never forgets -/
def AllCache : CacheImpl where
  σ := List (Key × Ptr)
  empty := []
  get := AllCache.get
  insert := AllCache.insert
  lawful := AllCache.lawful
  empty_get := fun _ => rfl

end Bdd
