import RsddModel.Spec.Cnf
/-!
# Model: variable orders (`src/repr/var_order.rs`) and the order heuristics of `src/repr/cnf.rs`

* `VarOrder` is the pair of vectors `(var_to_pos, pos_to_var)`.  Reads that the Rust performs
  with a panicking index (`v[i]`) are modelled with `getD · 0`; writes with `List.set` (a no-op
  out of bounds).  Inputs on which the Rust panics are outside every theorem's hypotheses.
* `UnGraph` models `petgraph 0.5` `Graph<VarLabel, (), Undirected>` as far as `cnf.rs` uses it:
  `nodes` is the node-weight vector (the position is the `NodeIndex`), `edges` is the list of
  `(source, target)` index pairs NEWEST FIRST (petgraph prepends a new edge to both adjacency
  lists; removing an edge is a swap-remove on the edge vector, which renumbers edge indices but
  does not reorder the adjacency lists).  `remove_node v` deletes the edges of `v`, swap-removes
  the node vector (the LAST node takes index `v`) and renames that index in the remaining edges.
  `neighbors_undirected v` = targets of the outgoing list, then sources of the incoming list
  skipping self loops (so a self loop is reported once).
* `minFillOrder` is `Cnf::min_fill_order`; `Iterator::min_by` returns the FIRST minimum.
* `forceOrder` is `Cnf::force_order`, generic in the key type (`ForceOps`), instantiated with Lean's
  `Float` (IEEE double).  `slice::sort_by` is a stable sort; the comparator
  `partial_cmp(..).unwrap()` panics on NaN, which cannot occur for the sorted keys (a variable's
  key is `0.0` or an average of centres of gravity of NON-EMPTY clauses).  The `loop` has no
  bound in the Rust; the model takes a fuel and returns `none` when it runs out (the Rust
  diverges when the CNF has no clause: `average_span` is `0/0 = NaN` and `NaN - NaN < 1.0` is
  false forever).
  NOTE (mirrored, not repaired): the Rust passes its final `lbl_to_pos` vector to `VarOrder::new`,
  which expects a position→label list; the returned order is therefore the INVERSE of the
  permutation FORCE computed.  It is still a permutation, which is all C14 claims.
-/
namespace Orders
open Spec

/-! ## VarOrder -/

structure VarOrder where
  varToPos : List Nat
  posToVar : List Nat
deriving Repr, DecidableEq, Inhabited

/-- the loop of `VarOrder::new`: `v[order[i]] = i` for `i = start, start+1, …` -/
def newLoop : List Nat → Nat → List Nat → List Nat
  | [], _, v => v
  | x :: xs, i, v => newLoop xs (i + 1) (v.set x i)

/-- `VarOrder::new(order)` -/
def VarOrder.new (order : List Nat) : VarOrder :=
  { varToPos := newLoop order 0 (List.replicate order.length 0), posToVar := order }

/-- `VarOrder::linear_order(n)` -/
def VarOrder.linear (n : Nat) : VarOrder := VarOrder.new (List.range n)

def VarOrder.numVars (o : VarOrder) : Nat := o.varToPos.length

/-- `get(var)`: position of a variable -/
def VarOrder.get (o : VarOrder) (v : Nat) : Nat := o.varToPos.getD v 0

/-- `var_at_level(pos)` -/
def VarOrder.varAtLevel (o : VarOrder) (pos : Nat) : Nat := o.posToVar.getD pos 0

/-- `lt(a, b)` -/
def VarOrder.lt (o : VarOrder) (a b : Nat) : Bool := decide (o.get a < o.get b)

/-- `lte(a, b)` -/
def VarOrder.lte (o : VarOrder) (a b : Nat) : Bool := decide (o.get a ≤ o.get b)

/-- `new_last()`: the extended order and the fresh label -/
def VarOrder.newLast (o : VarOrder) : VarOrder × Nat :=
  let pos := o.posToVar.length
  ({ varToPos := o.varToPos ++ [pos], posToVar := o.posToVar ++ [pos] }, pos)

/-- `k` successive `new_last()` calls -/
def VarOrder.newLastN (o : VarOrder) : Nat → VarOrder
  | 0 => o
  | k + 1 => (o.newLastN k).newLast.1

/-- `in_order_iter()` -/
def VarOrder.inOrder (o : VarOrder) : List Nat := o.posToVar

/-! ## petgraph `UnGraph<VarLabel, ()>` -/

structure UnGraph where
  nodes : List Nat
  edges : List (Nat × Nat)
deriving Repr, DecidableEq, Inhabited

namespace UnGraph

def nodeCount (g : UnGraph) : Nat := g.nodes.length

/-- `add_node` -/
def addNode (g : UnGraph) (w : Nat) : UnGraph := { g with nodes := g.nodes ++ [w] }

/-- `find_edge(a, b).is_some()` / `contains_edge(a, b)` on an undirected graph -/
def hasEdge (g : UnGraph) (a b : Nat) : Bool :=
  g.edges.any fun e => (e.1 == a && e.2 == b) || (e.1 == b && e.2 == a)

/-- `add_edge(a, b, ())` -/
def addEdge (g : UnGraph) (a b : Nat) : UnGraph := { g with edges := (a, b) :: g.edges }

/-- `neighbors_undirected(v).collect()` -/
def neighbors (g : UnGraph) (v : Nat) : List Nat :=
  (g.edges.filter fun e => e.1 == v).map (·.2) ++
  (g.edges.filter fun e => e.2 == v && e.1 != v).map (·.1)

/-- `remove_node(v)` (swap-remove) -/
def removeNode (g : UnGraph) (v : Nat) : UnGraph :=
  if v < g.nodes.length then
    let last := g.nodes.length - 1
    let es := g.edges.filter fun e => e.1 != v && e.2 != v
    let ren := fun x => if x == last then v else x
    { nodes := (g.nodes.set v (g.nodes.getD last 0)).take last
      edges := es.map fun e => (ren e.1, ren e.2) }
  else g

end UnGraph

/-- the inner `for j in i..c.len()` of `interaction_graph` for a fixed first endpoint `a`:
`rest` is `c[i..]` -/
def igInner (a : Nat) : List Lit → UnGraph → UnGraph
  | [], g => g
  | l :: rest, g =>
    let b := l.var
    igInner a rest (if g.hasEdge a b then g else g.addEdge a b)

/-- the outer `for i in 0..c.len()`: `c[i..]` is passed down -/
def igClause : List Lit → UnGraph → UnGraph
  | [], g => g
  | l :: rest, g => igClause rest (igInner l.var (l :: rest) g)

/-- `Cnf::interaction_graph` (`numVars` is the CNF's `num_vars` field) -/
def interactionGraph (cs : Cnf) (numVars : Nat) : UnGraph :=
  cs.foldl (fun g c => igClause c g) { nodes := List.range numVars, edges := [] }

/-- number of pairs `(n1 < n2)` of positions of `ns` whose entries are not joined by an edge -/
def countMissing (g : UnGraph) : List Nat → Nat
  | [] => 0
  | a :: rest => (rest.filter fun b => !g.hasEdge a b).length + countMissing g rest

/-- `num_fill(g, v)` -/
def numFill (g : UnGraph) (v : Nat) : Nat := countMissing g (g.neighbors v)

/-- the inner loop of `eliminate_node` for a fixed `n1` -/
def fillInner (a : Nat) : List Nat → UnGraph → UnGraph
  | [], g => g
  | b :: rest, g => fillInner a rest (if g.hasEdge a b then g else g.addEdge a b)

def fillAll : List Nat → UnGraph → UnGraph
  | [], g => g
  | a :: rest, g => fillAll rest (fillInner a rest g)

/-- `eliminate_node(g, v)` -/
def eliminateNode (g : UnGraph) (v : Nat) : UnGraph :=
  (fillAll (g.neighbors v) g).removeNode v

/-- index of the FIRST minimum of a list (`Iterator::min_by`); `0` for the empty list -/
def firstMinIdxAux : List Nat → Nat → Nat → Nat → Nat
  | [], _, best, _ => best
  | x :: xs, i, best, bestVal =>
    if x < bestVal then firstMinIdxAux xs (i + 1) i x else firstMinIdxAux xs (i + 1) best bestVal

def firstMinIdx : List Nat → Nat
  | [] => 0
  | x :: xs => firstMinIdxAux xs 1 0 x

/-- the node picked by `min_fill_order` -/
def minFillPick (g : UnGraph) : Nat :=
  firstMinIdx ((List.range g.nodes.length).map (numFill g))

/-- the `while ig.node_count() > 0` loop, generic in the choice function and in the
edge-rewriting part of the elimination (`pre`), so that the permutation property can be proved
for ANY tie-breaking and ANY fill-in. -/
def elimLoop (pick : UnGraph → Nat) (pre : UnGraph → Nat → UnGraph) :
    Nat → UnGraph → List Nat → List Nat
  | 0, _, ord => ord
  | fuel + 1, g, ord =>
    if g.nodes.length = 0 then ord else
    let idx := pick g
    elimLoop pick pre fuel ((pre g idx).removeNode idx) (ord ++ [g.nodes.getD idx 0])

/-- the elimination sequence `ord` of `min_fill_order` -/
def minFillSeq (cs : Cnf) (numVars : Nat) : List Nat :=
  let g := interactionGraph cs numVars
  elimLoop minFillPick (fun g v => fillAll (g.neighbors v) g) g.nodes.length g []

/-- `Cnf::min_fill_order` -/
def minFillOrder (cs : Cnf) (numVars : Nat) : VarOrder := VarOrder.new (minFillSeq cs numVars)

/-- `Cnf::linear_order` -/
def linearOrder (numVars : Nat) : VarOrder := VarOrder.linear numVars

/-! ## FORCE -/

/-- the arithmetic `force_order` needs, abstracted from `f64` -/
structure ForceOps (K : Type) where
  ofNat : Nat → K
  zero : K
  one : K
  add : K → K → K
  sub : K → K → K
  div : K → K → K
  lt : K → K → Bool
  /-- `a.partial_cmp(b) != Greater`, used by the stable sort -/
  le : K → K → Bool

def floatOps : ForceOps Float :=
  { ofNat := Float.ofNat, zero := 0.0, one := 1.0, add := (· + ·), sub := (· - ·), div := (· / ·)
    lt := fun a b => decide (a < b), le := fun a b => decide (a ≤ b) }

/-- stable insertion: `x` goes before the first `y` with `le x y` -/
def insertBy {α : Type} (le : α → α → Bool) (x : α) : List α → List α
  | [] => [x]
  | y :: ys => if le x y then x :: y :: ys else y :: insertBy le x ys

/-- a stable sort (any stable sort gives the result of `slice::sort_by` for a total preorder) -/
def stableSort {α : Type} (le : α → α → Bool) : List α → List α
  | [] => []
  | x :: xs => insertBy le x (stableSort le xs)

/-- `average_span`'s integer part: sum over clauses of `max_pos - min_pos` (for an empty clause
the Rust computes `0 - len`, a `usize` underflow: panic in debug builds; modelled as `0`) -/
def spanTotal (cs : Cnf) (lblToPos : List Nat) : Nat :=
  cs.foldl (fun total c =>
    let mn := c.foldl (fun m l => min (lblToPos.getD l.var 0) m) lblToPos.length
    let mx := c.foldl (fun m l => max (lblToPos.getD l.var 0) m) 0
    total + (mx - mn)) 0

variable {K : Type}

def averageSpan (ops : ForceOps K) (cs : Cnf) (lblToPos : List Nat) : K :=
  ops.div (ops.ofNat (spanTotal cs lblToPos)) (ops.ofNat cs.length)

def centerOfGravity (ops : ForceOps K) (c : Clause) (lblToPos : List Nat) : K :=
  ops.div (ops.ofNat (c.foldl (fun acc l => lblToPos.getD l.var 0 + acc) 0)) (ops.ofNat c.length)

/-- the `update` vector: running total and count per variable -/
def forceUpdate (ops : ForceOps K) (cs : Cnf) (cog : List K) (numVars : Nat) : List (K × Nat) :=
  (cs.zip cog).foldl (fun upd (c, g) =>
    c.foldl (fun upd l =>
      let (tot, cnt) := upd.getD l.var (ops.zero, 0)
      upd.set l.var (ops.add tot g, cnt + 1)) upd) (List.replicate numVars (ops.zero, 0))

/-- the keys that are sorted: `avg_cog` -/
def avgCog (ops : ForceOps K) (cs : Cnf) (lblToPos : List Nat) (numVars : Nat) : List K :=
  let cog := cs.map fun c => centerOfGravity ops c lblToPos
  (forceUpdate ops cs cog numVars).map fun (tot, cnt) =>
    if cnt = 0 then ops.zero else ops.div tot (ops.ofNat cnt)

/-- sort `(key, label)` pairs by key (stable) and return the labels: `pos_to_lbl` -/
def sortedLabels (le : K → K → Bool) (keys : List K) : List Nat :=
  (stableSort (fun a b => le a.1 b.1) (keys.zip (List.range keys.length))).map (·.2)

/-- `for (idx, lbl) in pos_to_lbl.enumerate() { lbl_to_pos[lbl] = idx }` -/
def positionsFrom (posToLbl : List Nat) (lblToPos : List Nat) : List Nat :=
  newLoop posToLbl 0 lblToPos

/-- one iteration of the `loop` body up to the new `lbl_to_pos` -/
def forceStep (ops : ForceOps K) (cs : Cnf) (numVars : Nat) (lblToPos : List Nat) : List Nat :=
  positionsFrom (sortedLabels ops.le (avgCog ops cs lblToPos numVars)) lblToPos

/-- the `loop`; `none` when the fuel runs out -/
def forceLoop (ops : ForceOps K) (cs : Cnf) (numVars : Nat) :
    Nat → List Nat → K → Option (List Nat)
  | 0, _, _ => none
  | fuel + 1, lblToPos, curSpan =>
    let prevSpan := curSpan
    let lblToPos' := forceStep ops cs numVars lblToPos
    let curSpan' := averageSpan ops cs lblToPos'
    if ops.lt (ops.sub prevSpan curSpan') ops.one then some lblToPos'
    else forceLoop ops cs numVars fuel lblToPos' curSpan'

/-- the final `lbl_to_pos` of `force_order` -/
def forceSeq (ops : ForceOps K) (cs : Cnf) (numVars fuel : Nat) : Option (List Nat) :=
  let l0 := List.range numVars
  forceLoop ops cs numVars fuel l0 (averageSpan ops cs l0)

/-- `Cnf::force_order` (the final `lbl_to_pos` is handed to `VarOrder::new` as is) -/
def forceOrder (ops : ForceOps K) (cs : Cnf) (numVars fuel : Nat) : Option VarOrder :=
  (forceSeq ops cs numVars fuel).map VarOrder.new

/-- the executable instance: every non-final iteration lowers the average span (which starts
below `numVars`) by at least `1`, so `numVars + 2` iterations are enough unless NaN occurs -/
def forceOrderFloat (cs : Cnf) (numVars : Nat) : Option VarOrder :=
  forceOrder floatOps cs numVars (numVars + 2)

/-! ## `Cnf::new` normalisation (for callers that start from raw clauses) -/

/-- `clause.sort_by_key(label); clause.dedup()` -/
def normClause (c : Clause) : Clause :=
  (stableSort (fun (a b : Lit) => decide (a.var ≤ b.var)) c).eraseReps

def cnfNew (cs : List Clause) : Cnf := cs.map normClause

/-! ## report for the differential test -/

structure OrderReport where
  /-- `num_vars` of the CNF -/
  numVars : Nat
  /-- `(var_to_pos, pos_to_var)` of `linear_order` -/
  linear : List Nat × List Nat
  /-- of `min_fill_order` -/
  minFill : List Nat × List Nat
  /-- of `force_order`; `none` if the model's fuel ran out (the Rust diverges) -/
  force : Option (List Nat × List Nat)
  /-- of `linear_order` followed by two `new_last()` -/
  extended : List Nat × List Nat
deriving Repr

def VarOrder.pair (o : VarOrder) : List Nat × List Nat := (o.varToPos, o.posToVar)

/-- all orders the library produces for the CNF `cs` (clauses as stored by `Cnf::new`) -/
def orderReport (cs : Cnf) : OrderReport :=
  let n := cnfNumVars cs
  { numVars := n
    linear := (linearOrder n).pair
    minFill := (minFillOrder cs n).pair
    force := (forceOrderFloat cs n).map VarOrder.pair
    extended := ((linearOrder n).newLastN 2).pair }

def natsToString (l : List Nat) : String := ",".intercalate (l.map toString)

/-- one line: `n=<numVars> lin=<pos_to_var> mf=<pos_to_var> mfv=<var_to_pos> force=<pos_to_var|DIVERGES>
forcev=<var_to_pos> ext=<pos_to_var>` -/
def OrderReport.render (r : OrderReport) : String :=
  s!"n={r.numVars} lin={natsToString r.linear.2} mf={natsToString r.minFill.2} " ++
  s!"mfv={natsToString r.minFill.1} " ++
  (match r.force with
   | some f => s!"force={natsToString f.2} forcev={natsToString f.1} "
   | none => "force=DIVERGES forcev=DIVERGES ") ++
  s!"ext={natsToString r.extended.2}"

end Orders
