import RsddModel.Model.BddWmc
import RsddModel.Model.Semirings
/-!
# Model: marginal MAP, maximum expected utility and the generic branch and bound

Mirrors, function for function, `src/repr/bdd.rs` lines ~440-875:

* `bddFold`          — `BddPtr::bdd_fold` / `bdd_fold_h` on the *tree*: the complement bit of a pointer
  is pushed into both children (`self.low()`, `self.high()`), `PtrTrue ↦ high_v`,
  `PtrFalse ↦ low_v`, a node is `f(var, fold(low), fold(high))`.  (The memo kept in the scratch
  cells is a different property; on the tree the fold is what the memoised one computes.)
* `PM`               — `PartialModel` of `src/repr/model.rs` (`from_litvec`, `set`, `get`,
  `assignment_iter`: false literals ascending, then true literals ascending).
* `marginalMapEval`, `marginalMapH`, `marginalMap` — `marginal_map_eval`, `marginal_map_h`, `marginal_map`
  over `RealSemiring` (`f64` read as `Rat`, `f64::max` as `max`).
* `euUb`, `meuH`, `meu` — `eu_ub`, `meu_h`, `meu` over `ExpectedUtility` (`Sem.EU`).
* `bbUb`, `bbH`, `bb` — `bb_ub`, `bb_h`, `bb`, generic over a `BBSemiring`, here a record `BBOps`
  (`zero one add mul join choose le beq`); `realBB`, `euBB` are the two shipped instances.

Bit sets (`BitSet` of variable indices) are lists of labels used only through `contains`.
`PartialModel::set` on a label `≥ num_vars` cannot happen in the three entry points (the label
would already have made `from_litvec` index out of bounds), so `PM.set` is `List.set`.

Core Lean only (linked into the driver executable).
-/
namespace Optim
open Bdd Spec Sem

/-! ## `bdd_fold` -/

/-- `bdd_fold(f, low_v, high_v)` on the tree; the `Bool` is "an odd number of complement edges
above", i.e. whether the Rust pointer reached here is the negation of the stored sub-tree. -/
def bddFold {T : Type} (f : Nat → T → T → T) (lowV highV : T) : Ptr → Bool → T
  | .tru, n => if n then lowV else highV
  | .fls, n => if n then highV else lowV
  | .node c v lo hi, n =>
    f v (bddFold f lowV highV lo (xor n c)) (bddFold f lowV highV hi (xor n c))

/-! ## `PartialModel` -/

/-- entry `i` is `Some(true)` / `Some(false)` / `None` for variable `i`
(`true_assignments` / `false_assignments` as one vector; `set` keeps the two sets disjoint) -/
structure PM where
  vals : List (Option Bool)
deriving DecidableEq, Repr, Inhabited

/-- `PartialModel::new(num_vars)` -/
def PM.new (numVars : Nat) : PM := ⟨List.replicate numVars none⟩

/-- `PartialModel::get` -/
def PM.get (m : PM) (x : Nat) : Option Bool := m.vals.getD x none

/-- `PartialModel::set` -/
def PM.set (m : PM) (x : Nat) (b : Bool) : PM := ⟨m.vals.set x (some b)⟩

/-- `PartialModel::from_litvec(lits, num_vars)`: later literals overwrite earlier ones -/
def PM.fromLitvec (lits : List (Nat × Bool)) (numVars : Nat) : PM :=
  lits.foldl (fun m l => m.set l.1 l.2) (PM.new numVars)

/-- labels `i, i+1, …` whose entry is `Some(pol)`, ascending -/
def litsOf (pol : Bool) : Nat → List (Option Bool) → List (Nat × Bool)
  | _, [] => []
  | i, o :: rest => if o = some pol then (i, pol) :: litsOf pol (i + 1) rest else litsOf pol (i + 1) rest

/-- `PartialModel::assignment_iter`: `false_iter.chain(true_iter)`, each ascending -/
def PM.assignmentIter (m : PM) : List (Nat × Bool) := litsOf false 0 m.vals ++ litsOf true 0 m.vals

/-- the true labels / false labels (what the harness prints) -/
def PM.trues (m : PM) : List Nat := (litsOf true 0 m.vals).map (·.1)
def PM.falses (m : PM) : List Nat := (litsOf false 0 m.vals).map (·.1)

/-! ## marginal MAP (`RealSemiring`) -/

/-- `marginal_map_eval`: fold (assigned variables pass through, unassigned `map_vars` take the
larger weighted branch, the others the weighted sum), then `v = v * weight` for every assigned
literal in `assignment_iter` order. -/
def marginalMapEval (p : Ptr) (m : PM) (mapVars : List Nat) (w : Weights Rat) : Rat :=
  let v := bddFold (fun x low high =>
      match m.get x with
      | none =>
        if mapVars.contains x then max ((w x).1 * low) ((w x).2 * high)
        else (w x).1 * low + (w x).2 * high
      | some true => high
      | some false => low) 0 1 p false
  m.assignmentIter.foldl (fun v lit => if lit.2 then v * (w lit.1).2 else v * (w lit.1).1) v

/-- `marginal_map_h(cur_lb, cur_best, margvars, wmc, cur_assgn)`; the two-element `for` loop over
`order` is written out. -/
def marginalMapH (p : Ptr) (w : Weights Rat) : Rat → PM → List Nat → PM → Rat × PM
  | curLb, curBest, [], curAssgn =>
    let possibleBest := marginalMapEval p curAssgn [] w
    if possibleBest > curLb then (possibleBest, curAssgn) else (curLb, curBest)
  | curLb, curBest, x :: rest, curAssgn =>
    let trueModel := curAssgn.set x true
    let falseModel := curAssgn.set x false
    let trueUb := marginalMapEval p trueModel rest w
    let falseUb := marginalMapEval p falseModel rest w
    -- branch on the greater upper bound first (ties: false first)
    let o := if trueUb > falseUb then (trueUb, trueModel, falseUb, falseModel)
             else (falseUb, falseModel, trueUb, trueModel)
    let s1 := if o.1 > curLb then marginalMapH p w curLb curBest rest o.2.1 else (curLb, curBest)
    if o.2.2.1 > s1.1 then marginalMapH p w s1.1 s1.2 rest o.2.2.2 else s1

/-- `marginal_map(vars, num_vars, wmc)` -/
def marginalMap (p : Ptr) (vars : List Nat) (numVars : Nat) (w : Weights Rat) : Rat × PM :=
  let curAssgn := PM.fromLitvec (vars.map fun x => (x, true)) numVars
  let lowerBound := marginalMapEval p curAssgn [] w
  marginalMapH p w lowerBound curAssgn vars (PM.fromLitvec [] numVars)

/-! ## maximum expected utility (`ExpectedUtility`) -/

/-- `eu_ub`: unassigned decision variables take the component-wise maximum of the two children
(no weights), the others the weighted sum; nothing is multiplied in afterwards. -/
def euUb (p : Ptr) (m : PM) (decisionVars : List Nat) (w : Weights EU) : EU :=
  bddFold (fun x low high =>
      match m.get x with
      | none =>
        if decisionVars.contains x then ⟨max low.p high.p, max low.u high.u⟩
        else euAdd (euMul (w x).1 low) (euMul (w x).2 high)
      | some true => high
      | some false => low) euZero euOne p false

/-- `meu_h`: `marginal_map_h` with every comparison on the utility component -/
def meuH (p : Ptr) (w : Weights EU) : EU → PM → List Nat → PM → EU × PM
  | curLb, curBest, [], curAssgn =>
    let possibleBest := euUb p curAssgn [] w
    if possibleBest.u > curLb.u then (possibleBest, curAssgn) else (curLb, curBest)
  | curLb, curBest, x :: rest, curAssgn =>
    let trueModel := curAssgn.set x true
    let falseModel := curAssgn.set x false
    let trueUb := euUb p trueModel rest w
    let falseUb := euUb p falseModel rest w
    let o := if trueUb.u > falseUb.u then (trueUb, trueModel, falseUb, falseModel)
             else (falseUb, falseModel, trueUb, trueModel)
    let s1 := if o.1.u > curLb.u then meuH p w curLb curBest rest o.2.1 else (curLb, curBest)
    if o.2.2.1.u > s1.1.u then meuH p w s1.1 s1.2 rest o.2.2.2 else s1

/-- `meu(decision_vars, num_vars, wmc)` -/
def meu (p : Ptr) (decisionVars : List Nat) (numVars : Nat) (w : Weights EU) : EU × PM :=
  let curAssgn := PM.fromLitvec (decisionVars.map fun x => (x, true)) numVars
  let lowerBound := euUb p curAssgn [] w
  meuH p w lowerBound curAssgn decisionVars (PM.fromLitvec [] numVars)

/-! ## generic branch and bound (`BBSemiring`) -/

/-- `BBSemiring`: a `Semiring` that is a `JoinSemilattice` (hence `PartialOrd`, hence
`PartialEq`) with a `choose`.  `le` is `PartialOrd::le`, `beq` is `==`. -/
structure BBOps (α : Type) extends SROps α where
  join : α → α → α
  choose : α → α → α
  le : α → α → Bool
  beq : α → α → Bool

/-- `RealSemiring`: `join = choose = f64::max`, derived `PartialOrd`/`PartialEq` on the value -/
def realBB : BBOps Rat :=
  { realOps with join := realJoin, choose := realChoose,
                 le := fun a b => decide (a ≤ b), beq := fun a b => decide (a = b) }

/-- `PartialOrd::le` from `partial_cmp`: `matches!(partial_cmp, Some(Less | Equal))` -/
def euLe (a b : EU) : Bool :=
  match euPartialCmp a b with
  | some .lt => true
  | some .eq => true
  | _ => false

/-- `ExpectedUtility`: component-wise `join`, `choose` on the utility, derived `PartialEq` -/
def euBB : BBOps EU :=
  { euOps with join := euJoin, choose := euChoose, le := euLe, beq := fun a b => decide (a = b) }

variable {α : Type}

/-- `bb_ub`: `acc = one * weights of the assigned literals` (in `assignment_iter` order), the
fold joins the two *weighted* children at unassigned join variables, result `acc * v`. -/
def bbUb (B : BBOps α) (p : Ptr) (m : PM) (joinVars : List Nat) (w : Weights α) : α :=
  let acc := m.assignmentIter.foldl
    (fun acc lit => if lit.2 then B.mul acc (w lit.1).2 else B.mul acc (w lit.1).1) B.one
  let v := bddFold (fun x low high =>
      match m.get x with
      | none =>
        if joinVars.contains x then B.join (B.mul (w x).1 low) (B.mul (w x).2 high)
        else B.add (B.mul (w x).1 low) (B.mul (w x).2 high)
      | some true => high
      | some false => low) B.zero B.one p false
  B.mul acc v

/-- one iteration of the `for (upper_bound, partialmodel) in order` loop of `bb_h`;
`st = (best_lb, best_model)`, `recF` is the recursive call on `end` -/
def bbStep (B : BBOps α) (recF : α → PM → PM → α × PM) (curLb : α) (curBest : PM)
    (st : α × PM) (ub : α) (pm : PM) : α × PM :=
  if !(B.le ub curLb) then
    let r := recF st.1 st.2 pm
    let newLb := B.choose curLb r.1
    if B.beq newLb r.1 then r else (curLb, curBest)
  else st

/-- `bb_h(cur_lb, cur_best, join_vars, wmc, cur_assgn)` -/
def bbH (B : BBOps α) (p : Ptr) (w : Weights α) : α → PM → List Nat → PM → α × PM
  | curLb, curBest, [], curAssgn =>
    let possibleBest := bbUb B p curAssgn [] w
    let best := B.choose curLb possibleBest
    if B.beq curLb best then (curLb, curBest) else (possibleBest, curAssgn)
  | curLb, curBest, x :: rest, curAssgn =>
    let trueModel := curAssgn.set x true
    let falseModel := curAssgn.set x false
    let trueUb := bbUb B p trueModel rest w
    let falseUb := bbUb B p falseModel rest w
    -- `if true_ub == choose(true_ub, false_ub)` true first, else false first
    let o := if B.beq trueUb (B.choose trueUb falseUb) then (trueUb, trueModel, falseUb, falseModel)
             else (falseUb, falseModel, trueUb, trueModel)
    let recF := fun lb best pm => bbH B p w lb best rest pm
    let s1 := bbStep B recF curLb curBest (curLb, curBest) o.1 o.2.1
    bbStep B recF curLb curBest s1 o.2.2.1 o.2.2.2

/-- `bb(join_vars, num_vars, wmc)` -/
def bb (B : BBOps α) (p : Ptr) (joinVars : List Nat) (numVars : Nat) (w : Weights α) : α × PM :=
  let curAssgn := PM.fromLitvec (joinVars.map fun x => (x, true)) numVars
  let lowerBound := bbUb B p curAssgn [] w
  bbH B p w lowerBound curAssgn joinVars (PM.fromLitvec [] numVars)

end Optim
