import RsddModel.Model.Bdd
/-!
# Model: the ROBDD builder (`src/builder/bdd/robdd.rs`, `src/builder/bdd/builder.rs`,
`src/builder/mod.rs`)

* the variable order is a level map `lvl : Nat → Nat` (`VarOrder::var_to_pos`); a builder
  created with an order on `n` variables and extended by `new_last` has `lvl v = v` for
  `v ≥ n`, so run-time extension does not change the level map, only `numVars`;
* the apply cache is an abstract implementation with the contract of C16 (`CacheImpl`);
* `get_or_insert` is `mkNode` (normalisation of the high edge), node identity is structure;
* the recursive `ite` takes fuel and returns `Option` (partial correctness);
* `cond_with_alloc` is structural recursion with its per-call memo as an association list.
-/
namespace Bdd
open Spec

/-- abstract apply cache with the C16 contract: a `get` returns nothing or the value most
recently inserted under exactly that key -/
structure CacheImpl where
  σ : Type
  empty : σ
  get : σ → (Ptr × Ptr × Ptr) → Option Ptr
  insert : σ → (Ptr × Ptr × Ptr) → Ptr → σ
  lawful : ∀ s k v k' v', get (insert s k v) k' = some v' → (k' = k ∧ v' = v) ∨ get s k' = some v'
  empty_get : ∀ k, get empty k = none

def Ptr.top? : Ptr → Option Nat
  | .node _ v _ _ => some v
  | _ => none

/-- the order closure `o` of `ite_helper`: constants come first, then by level -/
def ordP (lvl : Nat → Nat) (a b : Ptr) : Bool :=
  match a, b with
  | .tru, _ | .fls, _ => true
  | _, .tru | _, .fls => false
  | .node _ va _ _, .node _ vb _ _ => lvl va < lvl vb

/-- `VarOrder::first` -/
def first (lvl : Nat → Nat) (a b : Ptr) : Ptr :=
  match a.top?, b.top? with
  | none, _ => b
  | _, none => a
  | some va, some vb => if lvl va < lvl vb then a else b

/-- `VarOrder::first_essential` (`none` = the panic on three constants) -/
def firstEssential (lvl : Nat → Nat) (a b c : Ptr) : Option Nat :=
  (first lvl (first lvl a b) c).top?

/-- `RobddBuilder::condition_essential` -/
def condEssential (f : Ptr) (x : Nat) (v : Bool) : Ptr :=
  match f with
  | .node c y lo hi => if y ≠ x then f else
      let r := if v then hi else lo
      if c then r.neg else r
  | _ => f

/-- `RobddBuilder::get_or_insert`: normalise so that the high edge is regular and not false -/
def mkNode (x : Nat) (lo hi : Ptr) : Ptr :=
  if hi.isNeg || hi.isFalse then .node true x lo.neg hi.neg else .node false x lo hi

/-- `IteTable::get` of both adapters (`all_app.rs`, `lru_app.rs`) -/
def cacheGet (C : CacheImpl) (s : C.σ) : Ite → Option Ptr
  | .choice f g h => C.get s (f, g, h)
  | .complChoice f g h => (C.get s (f, g, h)).map Ptr.neg
  | .const p => some p

/-- `IteTable::insert` of both adapters -/
def cacheInsert (C : CacheImpl) (s : C.σ) (i : Ite) (r : Ptr) : C.σ :=
  match i with
  | .choice f g h => C.insert s (f, g, h) r
  | .complChoice f g h => C.insert s (f, g, h) r.neg
  | .const _ => s

/-- `RobddBuilder::ite_helper` -/
def ite (C : CacheImpl) (lvl : Nat → Nat) : Nat → C.σ → Ptr → Ptr → Ptr → Option (C.σ × Ptr)
  | 0, _, _, _, _ => none
  | fuel + 1, s, f, g, h =>
    match Ite.new (ordP lvl) f g h with
    | .const r => some (s, r)
    | key =>
      match cacheGet C s key with
      | some v => some (s, v)
      | none =>
        match firstEssential lvl f g h with
        | none => none
        | some x =>
          match ite C lvl fuel s (condEssential f x true) (condEssential g x true) (condEssential h x true) with
          | none => none
          | some (s1, t) =>
            match ite C lvl fuel s1 (condEssential f x false) (condEssential g x false) (condEssential h x false) with
            | none => none
            | some (s2, e) =>
              if t = e then some (s2, t)
              else
                let r := mkNode x e t
                some (cacheInsert C s2 key r, r)

/-! ## conditioning (`cond_with_alloc`) -/

abbrev Memo := List (Ptr × Ptr)

def Memo.get (m : Memo) (k : Ptr) : Option Ptr :=
  match m with
  | [] => none
  | (k', v) :: rest => if k' = k then some v else Memo.get rest k

/-- `RobddBuilder::cond_with_alloc`; the memo is keyed on the signed pointer and stores the
result for the regular polarity -/
def condWithAlloc (lvl : Nat → Nat) (x : Nat) (value : Bool) : Ptr → Memo → Memo × Ptr
  | .tru, m => (m, .tru)
  | .fls, m => (m, .fls)
  | .node c y lo hi, m =>
    let bdd := Ptr.node c y lo hi
    if lvl x < lvl y then (m, bdd)
    else if y = x then
      let r := if value then hi else lo
      (m, if c then r.neg else r)
    else
      match Memo.get m bdd with
      | some v => (m, if c then v.neg else v)
      | none =>
        let (m1, l) := condWithAlloc lvl x value lo m
        let (m2, h) := condWithAlloc lvl x value hi m1
        if l = h then (m2, if c then l.neg else l)
        else
          let res :=
            if l ≠ lo ∨ h ≠ hi then
              let r := mkNode y l h
              if c then r.neg else r
            else bdd
          ((bdd, if c then res.neg else res) :: m2, res)

/-- memo-free reading of `cond_with_alloc` -/
def condPure (lvl : Nat → Nat) (x : Nat) (value : Bool) : Ptr → Ptr
  | .tru => .tru
  | .fls => .fls
  | .node c y lo hi =>
    let bdd := Ptr.node c y lo hi
    if lvl x < lvl y then bdd
    else if y = x then
      let r := if value then hi else lo
      if c then r.neg else r
    else
      let l := condPure lvl x value lo
      let h := condPure lvl x value hi
      if l = h then (if c then l.neg else l)
      else if l ≠ lo ∨ h ≠ hi then
        let r := mkNode y l h
        if c then r.neg else r
      else bdd

/-- `BottomUpBuilder::condition` for BDDs (fresh memo per call) -/
def condition (lvl : Nat → Nat) (p : Ptr) (x : Nat) (value : Bool) : Ptr :=
  (condWithAlloc lvl x value p []).2

/-- `cond_model_h`: condition on the literals of a partial model in `assignment_iter` order -/
def condModel (lvl : Nat → Nat) (p : Ptr) : List (Nat × Bool) → Ptr
  | [] => p
  | (x, b) :: rest => condModel lvl (condition lvl p x b) rest

/-! ## the derived operations and the operation language -/

/-- `var` -/
def mkVar (x : Nat) (pol : Bool) : Ptr :=
  let r := mkNode x .fls .tru
  if pol then r else r.neg

section ops
variable (C : CacheImpl) (lvl : Nat → Nat) (fuel : Nat)

def bAnd (s : C.σ) (f g : Ptr) := ite C lvl fuel s f g .fls
def bIff (s : C.σ) (f g : Ptr) := ite C lvl fuel s f g g.neg
def bXor (s : C.σ) (f g : Ptr) := ite C lvl fuel s f g.neg g
/-- default `or` of `BottomUpBuilder`: De Morgan through `and` -/
def bOr (s : C.σ) (f g : Ptr) : Option (C.σ × Ptr) :=
  match bAnd C lvl fuel s f.neg g.neg with
  | some (s', r) => some (s', r.neg)
  | none => none
def bExists (s : C.σ) (f : Ptr) (x : Nat) : Option (C.σ × Ptr) :=
  bOr C lvl fuel s (condition lvl f x true) (condition lvl f x false)
def bCompose (s : C.σ) (f : Ptr) (x : Nat) (g : Ptr) : Option (C.σ × Ptr) :=
  match bIff C lvl fuel s (mkVar x true) g with
  | none => none
  | some (s1, i) =>
    match bAnd C lvl fuel s1 i f with
    | none => none
    | some (s2, a) => bExists C lvl fuel s2 a x

def bAndLst (s : C.σ) (acc : Ptr) : List Ptr → Option (C.σ × Ptr)
  | [] => some (s, acc)
  | p :: ps =>
    match bAnd C lvl fuel s acc p with
    | none => none
    | some (s', r) => bAndLst s' r ps

def bOrLst (s : C.σ) (acc : Ptr) : List Ptr → Option (C.σ × Ptr)
  | [] => some (s, acc)
  | p :: ps =>
    match bOr C lvl fuel s acc p with
    | none => none
    | some (s', r) => bOrLst s' r ps
end ops

/-- the operation language of C01; arguments are pool indices -/
inductive Op where
  | const (b : Bool)
  | var (x : Nat) (pol : Bool)
  | newVar (pol : Bool)
  | neg (i : Nat)
  | and (i j : Nat) | or (i j : Nat) | xor (i j : Nat) | iff (i j : Nat)
  | ite (i j k : Nat)
  | cond (i x : Nat) (b : Bool)
  | condModel (i : Nat) (m : List (Nat × Bool))
  | exist (i x : Nat)
  | compose (i x j : Nat)
  | andLst (is : List Nat) | orLst (is : List Nat)
deriving Repr

structure St (C : CacheImpl) where
  cache : C.σ
  numVars : Nat
  pool : List Ptr

def St.init (C : CacheImpl) (n : Nat) : St C := ⟨C.empty, n, []⟩

def getAll (pool : List Ptr) : List Nat → Option (List Ptr)
  | [] => some []
  | i :: is =>
    match pool[i]?, getAll pool is with
    | some p, some ps => some (p :: ps)
    | _, _ => none

/-- one builder call; `none` = the call is rejected (index out of range, label outside the
order: the Rust panics) or fuel ran out -/
def step (C : CacheImpl) (lvl : Nat → Nat) (fuel : Nat) (st : St C) : Op → Option (St C)
  | .const b => some { st with pool := st.pool ++ [if b then .tru else .fls] }
  | .var x pol => if x < st.numVars then some { st with pool := st.pool ++ [mkVar x pol] } else none
  | .newVar pol => some { st with numVars := st.numVars + 1, pool := st.pool ++ [mkVar st.numVars pol] }
  | .neg i => (st.pool[i]?).map fun p => { st with pool := st.pool ++ [p.neg] }
  | .and i j =>
    match st.pool[i]?, st.pool[j]? with
    | some p, some q => (bAnd C lvl fuel st.cache p q).map fun (s, r) => { st with cache := s, pool := st.pool ++ [r] }
    | _, _ => none
  | .or i j =>
    match st.pool[i]?, st.pool[j]? with
    | some p, some q => (bOr C lvl fuel st.cache p q).map fun (s, r) => { st with cache := s, pool := st.pool ++ [r] }
    | _, _ => none
  | .xor i j =>
    match st.pool[i]?, st.pool[j]? with
    | some p, some q => (bXor C lvl fuel st.cache p q).map fun (s, r) => { st with cache := s, pool := st.pool ++ [r] }
    | _, _ => none
  | .iff i j =>
    match st.pool[i]?, st.pool[j]? with
    | some p, some q => (bIff C lvl fuel st.cache p q).map fun (s, r) => { st with cache := s, pool := st.pool ++ [r] }
    | _, _ => none
  | .ite i j k =>
    match st.pool[i]?, st.pool[j]?, st.pool[k]? with
    | some p, some q, some r0 => (ite C lvl fuel st.cache p q r0).map fun (s, r) => { st with cache := s, pool := st.pool ++ [r] }
    | _, _, _ => none
  | .cond i x b =>
    if x < st.numVars then (st.pool[i]?).map fun p => { st with pool := st.pool ++ [condition lvl p x b] } else none
  | .condModel i m =>
    if m.all (fun (x, _) => x < st.numVars) then
      (st.pool[i]?).map fun p => { st with pool := st.pool ++ [condModel lvl p m] } else none
  | .exist i x =>
    if x < st.numVars then
      match st.pool[i]? with
      | some p => (bExists C lvl fuel st.cache p x).map fun (s, r) => { st with cache := s, pool := st.pool ++ [r] }
      | none => none
    else none
  | .compose i x j =>
    if x < st.numVars then
      match st.pool[i]?, st.pool[j]? with
      | some p, some q => (bCompose C lvl fuel st.cache p x q).map fun (s, r) => { st with cache := s, pool := st.pool ++ [r] }
      | _, _ => none
    else none
  | .andLst is =>
    match getAll st.pool is with
    | some ps => (bAndLst C lvl fuel st.cache .tru ps).map fun (s, r) => { st with cache := s, pool := st.pool ++ [r] }
    | none => none
  | .orLst is =>
    match getAll st.pool is with
    | some ps => (bOrLst C lvl fuel st.cache .fls ps).map fun (s, r) => { st with cache := s, pool := st.pool ++ [r] }
    | none => none

def run (C : CacheImpl) (lvl : Nat → Nat) (fuel : Nat) (st : St C) : List Op → Option (St C)
  | [] => some st
  | op :: ops =>
    match step C lvl fuel st op with
    | none => none
    | some st' => run C lvl fuel st' ops

/-! ## the specification of the operation language (pool of Boolean functions) -/

def getAllFn (pool : List BoolFn) : List Nat → Option (List BoolFn)
  | [] => some []
  | i :: is =>
    match pool[i]?, getAllFn pool is with
    | some p, some ps => some (p :: ps)
    | _, _ => none

/-- what each operation *means*: `numVars` and the pool of denoted functions -/
def specStep (st : Nat × List BoolFn) : Op → Option (Nat × List BoolFn)
  | .const b => some (st.1, st.2 ++ [if b then fTrue else fFalse])
  | .var x pol => if x < st.1 then some (st.1, st.2 ++ [fVar x pol]) else none
  | .newVar pol => some (st.1 + 1, st.2 ++ [fVar st.1 pol])
  | .neg i => (st.2[i]?).map fun f => (st.1, st.2 ++ [fNot f])
  | .and i j => match st.2[i]?, st.2[j]? with
    | some f, some g => some (st.1, st.2 ++ [fAnd f g]) | _, _ => none
  | .or i j => match st.2[i]?, st.2[j]? with
    | some f, some g => some (st.1, st.2 ++ [fOr f g]) | _, _ => none
  | .xor i j => match st.2[i]?, st.2[j]? with
    | some f, some g => some (st.1, st.2 ++ [fXor f g]) | _, _ => none
  | .iff i j => match st.2[i]?, st.2[j]? with
    | some f, some g => some (st.1, st.2 ++ [fIff f g]) | _, _ => none
  | .ite i j k => match st.2[i]?, st.2[j]?, st.2[k]? with
    | some f, some g, some h => some (st.1, st.2 ++ [fIte f g h]) | _, _, _ => none
  | .cond i x b => if x < st.1 then (st.2[i]?).map fun f => (st.1, st.2 ++ [fCond f x b]) else none
  | .condModel i m =>
    if m.all (fun (x, _) => x < st.1) then (st.2[i]?).map fun f => (st.1, st.2 ++ [fCondList f m]) else none
  | .exist i x => if x < st.1 then (st.2[i]?).map fun f => (st.1, st.2 ++ [fExists f x]) else none
  | .compose i x j => if x < st.1 then
      match st.2[i]?, st.2[j]? with
      | some f, some g => some (st.1, st.2 ++ [fCompose f x g]) | _, _ => none
    else none
  | .andLst is => (getAllFn st.2 is).map fun fs => (st.1, st.2 ++ [fs.foldl fAnd fTrue])
  | .orLst is => (getAllFn st.2 is).map fun fs => (st.1, st.2 ++ [fs.foldl fOr fFalse])

def specRun (st : Nat × List BoolFn) : List Op → Option (Nat × List BoolFn)
  | [] => some st
  | op :: ops =>
    match specStep st op with
    | none => none
    | some st' => specRun st' ops

end Bdd
