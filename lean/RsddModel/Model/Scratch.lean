import RsddModel.Model.BddWmc
import RsddModel.Model.Semirings
/-!
# Model: the per-node scratch cell and the memoised diagram queries (property C10)

Mirrors, with the control flow of the Rust kept,

* `src/repr/bdd.rs`: `BddNode.data : RefCell<Option<Box<dyn Any>>>`, `scratch::<T>()`,
  `set_scratch`, `is_scratch_cleared`, `clear_scratch` (recurses into the children only if the
  node's own cell is occupied), `DDNNFPtr::fold` for `BddPtr` (`bottomup_pass_h`, the
  `(Option<T>, Option<T>)` pair holding the complemented and the regular pass of one node),
  `count_nodes` (`usize` marker), `bdd_fold`/`bdd_fold_h`, `cached_semantic_hash` (the separate,
  never cleared `semantic_hash` field);
* `src/builder/bdd/builder.rs` `condition` (`r.clear_scratch(); bdd.clear_scratch()`),
  `src/builder/bdd/robdd.rs` `cond_with_alloc`, `get_or_insert`, `smooth_helper`;
* `src/builder/decision_nnf/builder.rs` `cond_helper` (reads `scratch::<BddPtr>()`, the write is
  commented out) and `condition`.

A diagram is a *store* of nodes addressed by index.  The store is a list with the newest node
first: the node at the head of `n :: rest` has index `rest.length`, and its children are
resolved in `rest`, so children indices are strictly smaller than the node's own index by
construction and every traversal is a structural recursion on the list.  Allocation is `cons`
(append-only; old indices keep their meaning).  A reference whose node does not exist
("dangling") is read as a constant by every function below, consistently.

`Box<dyn Any>` is modelled by a tagged cell: `Tag` names the Rust type `T` of a traversal's
result, `U t` is that type.  `scratch::<(Option<T>,Option<T>)>()` on a cell holding another
type returns `None` (`Cell.asPair`), while `is_scratch_cleared()` is false (`Cell.isSome`).
-/
namespace Scratch
open Bdd Spec

/-! ## references, nodes, stores -/

/-- `BddPtr` with the node pointer replaced by the node's index -/
inductive Ref where
  | tru | fls
  | reg (i : Nat)
  | compl (i : Nat)
deriving DecidableEq, Repr, Inhabited

namespace Ref
/-- `BddPtr::neg` -/
def neg : Ref → Ref
  | tru => fls | fls => tru | reg i => compl i | compl i => reg i
/-- `BddPtr::is_neg` -/
def isNeg : Ref → Bool
  | compl _ => true | _ => false
def idx? : Ref → Option Nat
  | reg i | compl i => some i | _ => none
/-- what a constant denotes (and the conventional reading of a dangling reference) -/
def leafPtr : Ref → Ptr
  | tru | compl _ => .tru
  | fls | reg _ => .fls
end Ref

/-- `BddNode` without its two interior-mutable fields -/
structure Node where
  var : Nat
  lo : Ref
  hi : Ref
deriving DecidableEq, Repr, Inhabited

/-- newest node first; the head of `n :: rest` has index `rest.length` -/
abbrev Store := List Node

/-- build a store from the nodes in index order (index 0 first) -/
def Store.ofList (l : List Node) : Store := l.reverse

def Store.get? (s : Store) (i : Nat) : Option Node :=
  if i < s.length then s[s.length - 1 - i]? else none

/-- the tree a reference denotes (`Bdd.Ptr` carries the complement bit on every edge) -/
def unfold : Store → Ref → Ptr
  | [], r => r.leafPtr
  | n :: rest, r =>
    match r.idx? with
    | none => r.leafPtr
    | some i =>
      if i = rest.length then .node r.isNeg n.var (unfold rest n.lo) (unfold rest n.hi)
      else unfold rest r

/-- `j` is the index of a node reachable from `r` -/
def reaches : Store → Ref → Nat → Bool
  | [], _, _ => false
  | n :: rest, r, j =>
    match r.idx? with
    | none => false
    | some i =>
      if i = rest.length then j == i || reaches rest n.lo j || reaches rest n.hi j
      else reaches rest r j

/-- number of distinct nodes reachable from `r` -/
def reachCount (s : Store) (r : Ref) : Nat := ((List.range s.length).filter (reaches s r)).length

/-! ## the scratch cell -/

section cells
variable {Tag : Type} [DecidableEq Tag]

/-- `Option<Box<dyn Any>>`: `pair t` is a `(Option<T>, Option<T>)` with `T = U t`
(first component: complemented pass, second: regular pass), `count` a `usize`,
`ptr` a `BddPtr`. -/
inductive Cell (U : Tag → Type) where
  | empty
  | pair (t : Tag) (c r : Option (U t))
  | count (n : Nat)
  | ptr (p : Ref)

variable {U : Tag → Type}

/-- `!is_scratch_cleared()`, i.e. `data.is_some()` -/
def Cell.isSome : Cell U → Bool
  | .empty => false
  | _ => true

/-- `scratch::<(Option<T>, Option<T>)>()` with `T = U t`: a pair of another `T` is a different
Rust type, the downcast fails -/
def Cell.asPair (t : Tag) : Cell U → Option (Option (U t) × Option (U t))
  | .pair t' c r => if h : t' = t then some (h ▸ c, h ▸ r) else none
  | _ => none

/-- `scratch::<usize>()` -/
def Cell.asCount : Cell U → Option Nat
  | .count n => some n
  | _ => none

/-- `scratch::<BddPtr>()` -/
def Cell.asPtr : Cell U → Option Ref
  | .ptr p => some p
  | _ => none

/-- one cell per node index (nodes allocated later start empty) -/
abbrev Scr (U : Tag → Type) := Nat → Cell U

/-- `set_scratch` -/
def Scr.set (σ : Scr U) (i : Nat) (c : Cell U) : Scr U := fun j => if j = i then c else σ j

/-- every cell empty: the state of a freshly built diagram -/
def Scr.clear : Scr U := fun _ => .empty

/-- occupancy of the first `n` cells, for inspection -/
def Scr.occupied (σ : Scr U) (n : Nat) : List Bool := (List.range n).map fun i => (σ i).isSome

/-! ## the fold algebra -/

/-- `DDNNF<T>` of `src/repr/ddnnf.rs` (the `VarSet` of an `Or` made by a BDD is `{top}`) -/
inductive DDNNF (V : Type) where
  | or (l r : V) (top : Nat)
  | and (l r : V)
  | lit (v : Nat) (b : Bool)
  | tru | fls

/-- what `bottomup_pass_h` needs from the closure `f` -/
structure Alg (V : Type) where
  tru : V
  fls : V
  node : Nat → V → V → V

/-- the calls `bottomup_helper` makes to `f`: `Or(And(Lit(top,false), low), And(Lit(top,true), high))` -/
def Alg.ofF {V : Type} (f : DDNNF V → V) : Alg V where
  tru := f .tru
  fls := f .fls
  node := fun x l h => f (.or (f (.and (f (.lit x false)) l)) (f (.and (f (.lit x true)) h)) x)

def Alg.leaf {V : Type} (A : Alg V) : Ref → V
  | .tru | .compl _ => A.tru
  | .fls | .reg _ => A.fls

/-- the closure of `unsmoothed_wmc` -/
def wmcF {α : Type} (S : SROps α) (w : Weights α) : DDNNF α → α
  | .or l r _ => S.add l r
  | .and l r => S.mul l r
  | .tru => S.one
  | .fls => S.zero
  | .lit v b => if b then (w v).2 else (w v).1

def wmcAlg {α : Type} (S : SROps α) (w : Weights α) : Alg α := Alg.ofF (wmcF S w)

/-- `DDNNFPtr::evaluate` -/
def evalAlg (inst : Assign) : Alg Bool := wmcAlg Bdd.boolOps (fun v => (!(inst v), inst v))

/-- `bdd_fold(f, low_v, high_v)`: true leaf ↦ `high_v`, false leaf ↦ `low_v` -/
def bddAlg {V : Type} (f : Nat → V → V → V) (lowV highV : V) : Alg V := ⟨highV, lowV, f⟩

/-- the un-memoised fold on the tree; `n` = "an odd number of complement edges above" -/
def treeFold {V : Type} (A : Alg V) : Ptr → Bool → V
  | .tru, n => if n then A.fls else A.tru
  | .fls, n => if n then A.tru else A.fls
  | .node c v lo hi, n =>
    let n' := xor n c
    A.node v (treeFold A lo n') (treeFold A hi n')

/-! ## `DDNNFPtr::fold` for `BddPtr` -/

/-- outcome of inspecting the cached pair -/
inductive Probe (V : Type) where
  | hit (v : V)
  | miss (cached : Option V)

/-- the `match ptr.scratch::<DDNNFCache<T>>()` of `bottomup_pass_h`, arm by arm -/
def probeFold {V : Type} (neg : Bool) : Option (Option V × Option V) → Probe V
  | some (some l, some h) => .hit (if neg then l else h)
  | some (some v, none) => if neg then .hit v else .miss (some v)
  | some (none, some v) => if !neg then .hit v else .miss (some v)
  | some (none, none) => .miss none
  | none => .miss none

/-- what `bottomup_helper(cached)` stores -/
def storeFold {V : Type} (neg : Bool) (v : V) (cached : Option V) : Option V × Option V :=
  if neg then (some v, cached) else (cached, some v)

/-- `bottomup_pass_h` at result type `U t`, threading the scratch state -/
def foldDag (t : Tag) (A : Alg (U t)) : Store → Ref → Scr U → U t × Scr U
  | [], r, σ => (A.leaf r, σ)
  | n :: rest, r, σ =>
    match r.idx? with
    | none => (A.leaf r, σ)
    | some i =>
      if i = rest.length then
        match probeFold r.isNeg ((σ i).asPair t) with
        | .hit v => (v, σ)
        | .miss cached =>
          let l := if r.isNeg then n.lo.neg else n.lo
          let h := if r.isNeg then n.hi.neg else n.hi
          let a := foldDag t A rest l σ
          let b := foldDag t A rest h a.2
          let v := A.node n.var a.1 b.1
          let p := storeFold r.isNeg v cached
          (v, b.2.set i (.pair t p.1 p.2))
      else foldDag t A rest r σ

/-- `clear_scratch`: a node whose own cell is empty is not entered -/
def clearScratch : Store → Ref → Scr U → Scr U
  | [], _, σ => σ
  | n :: rest, r, σ =>
    match r.idx? with
    | none => σ
    | some i =>
      if i = rest.length then
        if (σ i).isSome then
          clearScratch rest n.hi (clearScratch rest n.lo (σ.set i .empty))
        else σ
      else clearScratch rest r σ

/-- `DDNNFPtr::fold`: the pass, then `self.clear_scratch()` -/
def fold (t : Tag) (A : Alg (U t)) (s : Store) (r : Ref) (σ : Scr U) : U t × Scr U :=
  let a := foldDag t A s r σ
  (a.1, clearScratch s r a.2)

/-! ## `bdd_fold` -/

/-- the `match self.scratch::<(Option<T>, Option<T>)>()` of `bdd_fold_h`: a hit, or the two
previous components -/
def probeBdd {V : Type} (neg : Bool) : Option (Option V × Option V) → V ⊕ (Option V × Option V)
  | some (some v, ph) => if neg then .inl v else
      match ph with
      | some v' => .inl v'
      | none => .inr (some v, none)
  | some (none, some v) => if !neg then .inl v else .inr (none, some v)
  | some (none, none) => .inr (none, none)
  | none => .inr (none, none)

/-- `bdd_fold_h` -/
def bddFoldDag (t : Tag) (f : Nat → U t → U t → U t) (lowV highV : U t) :
    Store → Ref → Scr U → U t × Scr U
  | [], r, σ => ((bddAlg f lowV highV).leaf r, σ)
  | n :: rest, r, σ =>
    match r.idx? with
    | none => ((bddAlg f lowV highV).leaf r, σ)
    | some i =>
      if i = rest.length then
        match probeBdd r.isNeg ((σ i).asPair t) with
        | .inl v => (v, σ)
        | .inr (prevLow, prevHigh) =>
          -- `self.low()`, `self.high()`: complement pushed to the children
          let l := if r.isNeg then n.lo.neg else n.lo
          let h := if r.isNeg then n.hi.neg else n.hi
          let a := bddFoldDag t f lowV highV rest l σ
          let b := bddFoldDag t f lowV highV rest h a.2
          let res := f n.var a.1 b.1
          (res, b.2.set i (if r.isNeg then .pair t (some res) prevHigh else .pair t prevLow (some res)))
      else bddFoldDag t f lowV highV rest r σ

/-- `bdd_fold` -/
def bddFold (t : Tag) (f : Nat → U t → U t → U t) (lowV highV : U t) (s : Store) (r : Ref)
    (σ : Scr U) : U t × Scr U :=
  let a := bddFoldDag t f lowV highV s r σ
  (a.1, clearScratch s r a.2)

/-- The optimisation queries (`marginal_map`, `meu`, `bb`) are adaptive sequences of `bdd_fold`
passes over one root: each pass's closure and what happens next depend on earlier results. -/
inductive OptProg (V : Type) where
  | done (v : V)
  | pass (f : Nat → V → V → V) (lowV highV : V) (k : V → OptProg V)

def runOpt (t : Tag) (s : Store) (r : Ref) : OptProg (U t) → Scr U → U t × Scr U
  | .done v, σ => (v, σ)
  | .pass f lo hi k, σ =>
    let a := bddFold t f lo hi s r σ
    runOpt t s r (k a.1) a.2

/-- the same program with every pass evaluated on the tree -/
def optSpec {V : Type} (p : Ptr) : OptProg V → V
  | .done v => v
  | .pass f lo hi k => optSpec p (k (treeFold (bddAlg f lo hi) p false))

/-! ## `count_nodes` -/

/-- `count_h`: children through `low_raw`/`high_raw`, marker `0usize` -/
def countH : Store → Ref → Scr U × Nat → Scr U × Nat
  | [], _, st => st
  | n :: rest, r, st =>
    match r.idx? with
    | none => st
    | some i =>
      if i = rest.length then
        match (st.1 i).asCount with
        | some _ => st
        | none => countH rest n.hi (countH rest n.lo (st.1.set i (.count 0), st.2 + 1))
      else countH rest r st

/-- `count_nodes` -/
def countNodes (s : Store) (r : Ref) (σ : Scr U) : Nat × Scr U :=
  let st := countH s r (σ, 0)
  (st.2, clearScratch s r st.1)

end cells

/-! ## allocation: `get_or_insert`, conditioning, smoothing -/

/-- index of an existing node equal to `n` (`BddNode`'s `Eq` ignores the scratch fields) -/
def findNode : Store → Node → Option Nat
  | [], _ => none
  | m :: rest, n => if m = n then some rest.length else findNode rest n

/-- the unique table: find or append -/
def insertRaw (s : Store) (n : Node) : Store × Nat :=
  match findNode s n with
  | some i => (s, i)
  | none => (n :: s, s.length)

/-- `RobddBuilder::get_or_insert`: normalise (high edge regular and not false), then the table -/
def getOrInsert (s : Store) (n : Node) : Store × Ref :=
  if n.hi.isNeg || n.hi == .fls then
    let a := insertRaw s ⟨n.var, n.lo.neg, n.hi.neg⟩
    (a.1, .compl a.2)
  else
    let a := insertRaw s n
    (a.1, .reg a.2)

/-- `StandardDecisionNNFBuilder::get_or_insert` (only `high.is_neg()` is tested) -/
def getOrInsertDnnf (s : Store) (n : Node) : Store × Ref :=
  if n.hi.isNeg then
    let a := insertRaw s ⟨n.var, n.lo.neg, n.hi.neg⟩
    (a.1, .compl a.2)
  else
    let a := insertRaw s n
    (a.1, .reg a.2)

/-- the local `HashMap<BddPtr, BddPtr>` of `cond_with_alloc` -/
abbrev CondCache := List (Ref × Ref)
def CondCache.get (c : CondCache) (r : Ref) : Option Ref := (c.find? (·.1 == r)).map (·.2)

/-- `RobddBuilder::cond_with_alloc`.  The first argument is the part of the store the input is
read from (structural recursion); the threaded pair is the growing store and the local cache.
No scratch cell is read or written. -/
def condAlloc (lt : Nat → Nat → Bool) (x : Nat) (b : Bool) :
    Store → Ref → Store × CondCache → Ref × (Store × CondCache)
  | [], r, st => (r, st)
  | n :: rest, r, st =>
    match r.idx? with
    | none => (r, st)
    | some i =>
      if i = rest.length then
        if lt x n.var then (r, st)
        else if n.var = x then
          let c := if b then n.hi else n.lo
          (if r.isNeg then c.neg else c, st)
        else
          match st.2.get r with
          | some v => (if r.isNeg then v.neg else v, st)
          | none =>
            let l := condAlloc lt x b rest n.lo st
            let h := condAlloc lt x b rest n.hi l.2
            if l.1 = h.1 then (if r.isNeg then l.1.neg else l.1, h.2)
            else
              let res : Ref × Store :=
                if l.1 ≠ n.lo ∨ h.1 ≠ n.hi then
                  let a := getOrInsert h.2.1 ⟨n.var, l.1, h.1⟩
                  (if r.isNeg then a.2.neg else a.2, a.1)
                else (r, h.2.1)
              (res.1, (res.2, (r, if r.isNeg then res.1.neg else res.1) :: h.2.2))
      else condAlloc lt x b rest r st

section cells2
variable {Tag : Type} [DecidableEq Tag] {U : Tag → Type}

/-- `BottomUpBuilder::condition` for BDD builders:
`let r = cond_helper(..); r.clear_scratch(); bdd.clear_scratch(); r` -/
def condition (lt : Nat → Nat → Bool) (x : Nat) (b : Bool) (s : Store) (r : Ref) (σ : Scr U) :
    Ref × Store × Scr U :=
  let a := condAlloc lt x b s r (s, [])
  let s' := a.2.1
  (a.1, s', clearScratch s' r (clearScratch s' a.1 σ))

/-- `DecisionNNFBuilder::cond_helper`: the cache probe reads `scratch::<BddPtr>()`; the write
(`set_scratch`) is commented out in the Rust, so nothing is ever stored. -/
def dnnfCondH (x : Nat) (b : Bool) (σ : Scr U) : Store → Ref → Store → Ref × Store
  | [], r, cur => (r, cur)
  | n :: rest, r, cur =>
    match r.idx? with
    | none => (r, cur)
    | some i =>
      if i = rest.length then
        if n.var = x then
          let c := if b then n.hi else n.lo
          (if r.isNeg then c.neg else c, cur)
        else
          match (σ i).asPtr with
          | some v => (if r.isNeg then v.neg else v, cur)
          | none =>
            let l := dnnfCondH x b σ rest n.lo cur
            let h := dnnfCondH x b σ rest n.hi l.2
            if l.1 = h.1 then (if r.isNeg then l.1.neg else l.1, h.2)
            else if l.1 ≠ n.lo ∨ h.1 ≠ n.hi then
              let a := getOrInsertDnnf h.2 ⟨n.var, l.1, h.1⟩
              (if r.isNeg then a.2.neg else a.2, a.1)
            else (r, h.2)
      else dnnfCondH x b σ rest r cur

/-- `TopDownBuilder::condition`: `let r = cond_helper(..); bdd.clear_scratch(); r` -/
def dnnfCondition (x : Nat) (b : Bool) (s : Store) (r : Ref) (σ : Scr U) : Ref × Store × Scr U :=
  let a := dnnfCondH x b σ s r s
  (a.1, a.2, clearScratch a.2 r σ)

end cells2

/-- `RobddBuilder::smooth_helper(bdd, current, total)` with fuel `total - current`;
touches no scratch cell -/
def smoothH (lvl varAt : Nat → Nat) : Nat → Nat → Ref → Store → Ref × Store
  | 0, _, r, s => (r, s)
  | k + 1, cur, r, s =>
    let dummy : Unit → Ref × Store := fun _ =>
      let sub := smoothH lvl varAt k (cur + 1) r s
      let a := getOrInsert sub.2 ⟨varAt cur, sub.1, sub.1⟩
      (a.2, a.1)
    match r.idx? with
    | some i =>
      -- `Compl(node) => smooth_helper(Reg(node), current, total).neg()`: same level
      let res : Ref × Store :=
        match s.get? i with
        | some n =>
          if lvl n.var ≤ cur then
            let l := smoothH lvl varAt k (cur + 1) n.lo s
            let h := smoothH lvl varAt k (cur + 1) n.hi l.2
            let a := getOrInsert h.2 ⟨n.var, l.1, h.1⟩
            (a.2, a.1)
          else
            let sub := smoothH lvl varAt k (cur + 1) (.reg i) s
            let a := getOrInsert sub.2 ⟨varAt cur, sub.1, sub.1⟩
            (a.2, a.1)
        | none => (.reg i, s)
      (if r.isNeg then res.1.neg else res.1, res.2)
    | none => dummy ()

/-- `RobddBuilder::smooth` -/
def smooth (lvl varAt : Nat → Nat) (numVars : Nat) (s : Store) (r : Ref) : Ref × Store :=
  smoothH lvl varAt numVars 0 r s

/-! ## the query language -/

section queries
variable {Tag : Type} [DecidableEq Tag]

/-- the public read-only calls on a diagram of a builder.  Counting "in any semiring",
`evaluate` and the trait's `semantic_hash` are all `fold` with the `unsmoothed_wmc` closure
at some result type; `marginal_map`/`meu`/`bb` are `optim`. -/
inductive Query (U : Tag → Type) where
  | fold (t : Tag) (A : Alg (U t))
  | bddFold (t : Tag) (f : Nat → U t → U t → U t) (lowV highV : U t)
  | optim (t : Tag) (p : OptProg (U t))
  | countNodes
  | condition (lt : Nat → Nat → Bool) (x : Nat) (b : Bool)
  | dnnfCondition (x : Nat) (b : Bool)
  | smooth (lvl varAt : Nat → Nat) (numVars : Nat)

variable {U : Tag → Type}

/-- `unsmoothed_wmc` at result type `U t` -/
def Query.wmc (t : Tag) (S : SROps (U t)) (w : Weights (U t)) : Query U := .fold t (wmcAlg S w)

/-- `DDNNFPtr::evaluate`: `unsmoothed_wmc` in the Boolean semiring (at a tag whose type is `Bool`) -/
def Query.evaluate (t : Tag) (h : U t = Bool) (inst : Assign) : Query U := .fold t (h ▸ evalAlg inst)

/-- the trait's `semantic_hash::<P>(map)`: `unsmoothed_wmc` in `FiniteField<P>` -/
def Query.semanticHash (t : Tag) (h : U t = Nat) (P : Nat) (w : Weights Nat) : Query U :=
  .fold t (h ▸ wmcAlg (Sem.ffOps P) w)

inductive Answer (U : Tag → Type) where
  | val (t : Tag) (v : U t)
  | num (n : Nat)
  | ref (r : Ref)

/-- a builder's diagrams together with their scratch cells -/
structure St (U : Tag → Type) where
  store : Store
  scr : Scr U

/-- one public call on the root `r` -/
def runQuery (st : St U) (r : Ref) : Query U → Answer U × St U
  | .fold t A =>
    let a := fold t A st.store r st.scr
    (.val t a.1, ⟨st.store, a.2⟩)
  | .bddFold t f lo hi =>
    let a := bddFold t f lo hi st.store r st.scr
    (.val t a.1, ⟨st.store, a.2⟩)
  | .optim t p =>
    let a := runOpt t st.store r p st.scr
    (.val t a.1, ⟨st.store, a.2⟩)
  | .countNodes =>
    let a := countNodes st.store r st.scr
    (.num a.1, ⟨st.store, a.2⟩)
  | .condition lt x b =>
    let a := condition lt x b st.store r st.scr
    (.ref a.1, ⟨a.2.1, a.2.2⟩)
  | .dnnfCondition x b =>
    let a := dnnfCondition x b st.store r st.scr
    (.ref a.1, ⟨a.2.1, a.2.2⟩)
  | .smooth lvl varAt nv =>
    let a := smooth lvl varAt nv st.store r
    (.ref a.1, ⟨a.2, st.scr⟩)

/-- a sequence of public calls on arbitrary roots of one builder, sharing store and scratch -/
def runQueries : St U → List (Ref × Query U) → List (Answer U) × St U
  | st, [] => ([], st)
  | st, (r, q) :: qs =>
    let a := runQuery st r q
    let b := runQueries a.2 qs
    (a.1 :: b.1, b.2)

/-- The scratch-free reading of a query: what it returns on a freshly built copy. -/
def specQuery (s : Store) (r : Ref) : Query U → Answer U × Store
  | .fold t A => (.val t (treeFold A (unfold s r) false), s)
  | .bddFold t f lo hi => (.val t (treeFold (bddAlg f lo hi) (unfold s r) false), s)
  | .optim t p => (.val t (optSpec (unfold s r) p), s)
  | .countNodes => (.num (reachCount s r), s)
  | .condition lt x b =>
    let a := condAlloc lt x b s r (s, [])
    (.ref a.1, a.2.1)
  | .dnnfCondition x b =>
    let a := dnnfCondH x b (Scr.clear (U := U)) s r s
    (.ref a.1, a.2)
  | .smooth lvl varAt nv =>
    let a := smooth lvl varAt nv s r
    (.ref a.1, a.2)

/-- the scratch-free reading of a sequence (only the store is threaded) -/
def specQueries : Store → List (Ref × Query U) → List (Answer U) × Store
  | s, [] => ([], s)
  | s, (r, q) :: qs =>
    let a := specQuery s r q
    let b := specQueries a.2 qs
    (a.1 :: b.1, b.2)

/-- raw scratch access (`BddPtr::set_scratch`, `BddPtr::clear_scratch`, exported to C as
`bdd_set_scratch`/`bdd_clear_scratch`); not a query, used to exhibit what the precondition of
the queries protects against -/
def rawSetScratch (st : St U) (i : Nat) (c : Cell U) : St U := ⟨st.store, st.scr.set i c⟩
def rawClearScratch (st : St U) (r : Ref) : St U := ⟨st.store, clearScratch st.store r st.scr⟩

end queries

/-! ## the separate `semantic_hash` cache (`cached_semantic_hash`) -/

/-- `BddNode.semantic_hash : RefCell<Option<u128>>`, one per node, never cleared -/
abbrev HashCache := Nat → Option Nat

/-- `BddPtr::cached_semantic_hash::<P>` / `BddNode::cached_semantic_hash` /
`BddNode::semantic_hash`: a regular pointer reads its node's cache (whatever prime and weight
map filled it), a complemented pointer negates the regular pointer's hash. -/
def cachedHash (P : Nat) (w : Weights Nat) : Store → Ref → HashCache → Nat × HashCache
  | _, .tru, c => (Sem.ffNew P 1, c)
  | _, .fls, c => (Sem.ffNew P 0, c)
  | [], .reg _, c => (Sem.ffNew P 0, c)
  | [], .compl _, c => (Sem.ffNew P 1, c)
  | n :: rest, .reg i, c =>
    if i = rest.length then
      match c i with
      | some h => (Sem.ffNew P h, c)
      | none =>
        let l := cachedHash P w rest n.lo c
        let h := cachedHash P w rest n.hi l.2
        let v := Sem.ffAdd P (Sem.ffMul P l.1 (w n.var).1) (Sem.ffMul P h.1 (w n.var).2)
        (v, fun j => if j = i then some v else h.2 j)
    else cachedHash P w rest (.reg i) c
  | n :: rest, .compl i, c =>
    if i = rest.length then
      let a :=
        match c i with
        | some h => (Sem.ffNew P h, c)
        | none =>
          let l := cachedHash P w rest n.lo c
          let h := cachedHash P w rest n.hi l.2
          let v := Sem.ffAdd P (Sem.ffMul P l.1 (w n.var).1) (Sem.ffMul P h.1 (w n.var).2)
          (v, fun j => if j = i then some v else h.2 j)
      (Sem.ffNegate P a.1, a.2)
    else cachedHash P w rest (.compl i) c

end Scratch
