import RsddModel.Model.BddBuilder
/-!
# Model: the cache-everything apply table (`AllIteTable`, `src/builder/cache/all_app.rs`)

The `FxHashMap` is modelled by an association list searched newest-first; that it is a
lawful cache (`CacheImpl.lawful`) is proved here, so the instance can be used both by the
executable driver and to instantiate the `∀ C : CacheImpl` theorems.
-/
namespace Bdd

def ListCache.get : List ((Ptr × Ptr × Ptr) × Ptr) → (Ptr × Ptr × Ptr) → Option Ptr
  | [], _ => none
  | (k', v) :: rest, k => if k = k' then some v else ListCache.get rest k

/-- association-list cache, newest binding first -/
def ListCache : CacheImpl where
  σ := List ((Ptr × Ptr × Ptr) × Ptr)
  empty := []
  get := ListCache.get
  insert := fun s k v => (k, v) :: s
  lawful := by
    intro s k v k' v' h
    simp only [ListCache.get] at h
    split at h
    · left; rename_i hk; exact ⟨hk, by simpa using h.symm⟩
    · right; exact h
  empty_get := by intro k; rfl

end Bdd
