#!/usr/bin/env python3
"""Translator (translator route, see DESIGN.md 9.7c/9.8): the decision-DNNF builder.

Regenerates `lean/RsddModel/Model/GenDnnf.lean` from the Rust source text under $VERIF_REPO
(default /repo) on every run.  `lean/RsddModel/Props/TieDnnf.lean` (static, hand-written) proves
the regenerated definitions equal to the hand-written model `TopDown` (Model/TopDown.lean).

Translated functions
  src/builder/decision_nnf/builder.rs   conjoin_implied, topdown_h, compile_cnf_topdown,
                                        cond_helper, condition, var
  src/builder/decision_nnf/standard.rs  get_or_insert
  src/builder/decision_nnf/semantic.rs  get_or_insert (check_cached_hash_and_neg and any other
                                        helper of the impl are inlined at the call site)
  src/repr/bdd.rs                       the observers is_neg, is_true, is_false, neg, var_safe,
                                        low_raw, high_raw, low, high (they justify the entries
                                        "on a matched node" of the mapping table below)

Generated definitions take the value parameters of the Rust signature in source order, then the
`&mut` parameters in source order, then the node store; they return (result, &mut params…, store).

Method: tools/rustmini_dnnf.py parses the function (tokenizer + recursive descent); the body is
translated statement by statement in continuation-passing style into a Lean term:
  * `&mut` parameters, `let mut` locals and the node store behind `&self` become explicit values
    that are threaded (a function returns `(result, <&mut params in order>, store)`);
  * an `if`/`match` without `return` inside becomes `let (v, <changed vars>) := if … then … else …`;
    with a `return` inside, the continuation is copied into the branches;
  * `return e` leaves with the function's result tuple; helpers of the same impl are inlined;
  * `for x in it { … }` becomes a structurally recursive auxiliary definition `<fn>_loop` over the
    list, carrying the variables the body assigns;
  * `match p { PtrTrue | PtrFalse => …, Reg(n) | Compl(n) if g => …, … }` on a pointer becomes a
    Lean `match` on `Bdd.Ptr` (`.tru`, `.fls`, `.node c v lo hi`); arms are tried in source order,
    guards become `if`; inside the node case `p.low_raw()` is `lo`, `p.is_neg()` is `c`, …;
  * closures: `[a, b].map(|x| …)` on an array literal is unrolled in order (the closure may use and
    change the threaded state; a `return` inside leaves the closure only); `for x in [a, b]` is unrolled;
    closures under iterator / Option adaptors must be free of effects and become Lean `fun`s:
    iter().{map, filter, filter_map, find, any, all, position, fold, rev, take, skip, enumerate, zip,
    chain, count, collect} ↦ List.{map, filter, filterMap, find?, any, all, findIdx?, foldl, reverse,
    take, drop, zipIdx (swapped), zip, ++, length, id}; Option::{map, and_then, map_or, unwrap_or,
    is_some, is_none} ↦ Option.{map, bind, elim, getD, isSome, isNone} (decided statically when the
    constructor is known); private helper fns of the same file are inlined at the call site;
  * NEW BUILDER STATE: `self.<accessor>()` of a body-less method (no parameters, returns a reference: the
    implementor supplies it) or `self.<field>` of a struct field outside the mapping table, whose type
    (through `&`, `&mut`, RefCell/Cell/Rc/Box and `type` aliases of the translated files) has a counterpart,
    is state that outlives the call.  The function is translated with that state threaded (extra parameter
    and result component; a local `let mut c = self.acc().borrow_mut()` is a live reference: mutations of
    `c` are mutations of the slot), the translation is put into the generated file as a comment, the
    generated name stays an alias, and the status is `DIFFERS (new state): <accessor/field : type>` — the
    function WAS read, and cannot be equal to a model definition that has no slot for that state.
    Callers inherit the state of their callees.  (Status only; never used for unparsed constructs.)
  * also read: `matches!(e, pat [if g])`, tuple-valued `if`/`match` with `let (a, b) = …`, `is_const()`,
    `unwrap()/expect()` (↦ getD default: `None` is outside the precondition), HashMap `clear`,
    `contains_key`, `len`, `is_empty`; parameter / field types through `&`, `&mut`, `Vec<T>`, `[T]`,
    `Option<T>` and type aliases;
  * ELABORATION GUARD: when the generated text differs from the file on disk it is elaborated once
    (`lake env lean` on a candidate copy); every generated definition with an error falls back to its
    alias with status `UNTRANSLATED … the translation does not elaborate` (repeated until clean), so an
    ill-typed translation never breaks the build ("elaborates but differs" stays a tie failure);
    GEN_DNNF_NO_GUARD=1 switches the guard off;
  * recursion: `cond_helper` must recurse on `low_raw()/high_raw()` of the matched pointer
    (structural, as the model); any other recursion argument makes the definition an opaque
    `partial def`, so the tie fails.  `topdown_h` recurses with fuel (`fuel = num_vars - level`,
    the model's `rem`); when the fuel is exhausted a recursive call returns a dummy — the tie
    theorem shows that this point is never reached under `level + fuel = num_vars`.

TRUSTED MAPPING TABLE (Rust → Lean); everything not listed is outside the grammar (→ UNTRANSLATED)
  types       BddPtr ↦ Bdd.Ptr; VarLabel, usize ↦ Nat; bool ↦ Bool; Literal ↦ Spec.Lit;
              BddNode ↦ Nat × Ptr × Ptr (var, low, high); `&BddNode` (table entry) ↦ the regular
              pointer `.node false var low high`; impl Iterator<Item = Literal> ↦ List Lit;
              &Cnf ↦ (cnf : Cnf) (numVars : Nat); &mut SATSolver ↦ S.σ; FxHashMap<K, BddPtr> ↦
              Cache κ (insert = cons, get = first match); FiniteField<P>, u64 table keys ↦ H
  pointers    BddPtr::true_ptr()/PtrTrue ↦ .tru; false_ptr()/PtrFalse ↦ .fls; Reg(n) ↦ n;
              Compl(n) ↦ n.neg; p.neg() ↦ p.neg; is_true/is_false/is_neg ↦ isTrue/isFalse/isNeg;
              on a matched node `.node c v lo hi`: low_raw ↦ lo, high_raw ↦ hi, is_neg ↦ c,
              low ↦ negIf c lo, high ↦ negIf c hi, node.var/low/high ↦ v/lo/hi;
              p.var_safe() ↦ TieDnnfAux.varSafe p; a == b on pointers ↦ a = b (C02: the unique table
              makes pointer identity structural equality)
  scratch     if NO translated function of the file calls `set_scratch` (the model's reading: the memo
              is never written): p.scratch::<T>() ↦ none, p.clear_scratch() ↦ no-op.  Otherwise the
              memo is explicit: `ScratchMemo = List (Ptr × Ptr)` keyed by the regular pointer to the
              node, threaded like the store through every function that reads/writes it (extra
              parameter and result component; the caller that only clears it starts with `[]`):
              scratch() ↦ scratchGet memo key, set_scratch(v) ↦ (key, v) :: memo, clear_scratch() ↦
              scratchClear; std::mem::transmute(e) ↦ e.  (Such a definition no longer has the type of
              the memo-free model definition, so the tie fails.)
  literals    l.polarity() ↦ l.pol; l.label() ↦ l.var; Literal::new(v, b) ↦ Lit.mk v b
  store       self.get_or_insert(BddNode::new(v, l, h)) ↦ NS.getOrInsert t v l h (threads t);
              self.order().var_at_level(i) ↦ varAt i; self.order().lt(a, b) ↦ lvl a < lvl b
  solver      SATSolver::new(cnf.clone()) ↦ S.new cnf numVars; sat.decide(l) ↦ S.decide sat l
              (result, new state); sat.pop() ↦ sat := S.pop sat; is_sat/is_set/cur_hash ↦
              S.isSat/S.isSet/S.curHash; sat.difference_iter() ↦ S.difference sat;
              it.filter(|x| e) ↦ List.filter (fun x => e) it; cnf.num_vars() ↦ numVars;
              DecisionResult::{SAT, UNSAT, Unknown} ↦ .sat/.unsat/.unknown
  tables      (standard.rs) tbl.get_or_insert(n) ↦ the regular pointer to n (hash-consing, C02);
              (semantic.rs) tbl.get_by_hash(k) ↦ TieDnnfAux.tblGetByHash t k;
              tbl.get_or_insert_by_hash(k, n, true) ↦ TieDnnfAux.tblGetOrInsertByHash t k n;
              bdd.semantic_hash(&self.order, &self.map) ↦ semHash (.node false var low high);
              h.negate() ↦ negH h; h.value() ↦ h; the FxHasher idiom `let mut hasher =
              FxHasher::default(); x.hash(&mut hasher); hasher.finish()` ↦ key x
  misc        &e, &mut e, *e, e.clone(), .copied(), .iter(), unsafe { … } ↦ e; Some/None ↦ some/none;
              opt.map(f) ↦ Option.map; debug_assert!(…) ↦ nothing; panic!(…) ↦ default (observers
              only: constant pointers, outside the precondition)
"""
import os, re, sys

sys.path.insert(0, os.path.dirname(os.path.abspath(__file__)))
import rustmini_dnnf as R  # noqa: E402

ROOT = os.path.dirname(os.path.dirname(os.path.abspath(__file__)))
REPO = os.environ.get("VERIF_REPO", "/repo")
OUT = os.path.join(ROOT, "lean", "RsddModel", "Model", "GenDnnf.lean")


class Untranslatable(Exception):
    pass


LEAN_KEYWORDS = {"at", "from", "end", "open", "in", "fun", "have", "show", "then", "else", "if", "do", "let",
                 "match", "with", "where", "def", "theorem", "by", "local", "section", "namespace", "instance",
                 "class", "structure", "deriving", "mutual", "private", "protected", "variable", "universe",
                 "import", "export", "macro", "syntax", "notation", "prefix", "infix", "postfix", "abbrev",
                 "example", "axiom", "opaque", "partial", "unsafe", "nomatch", "nofun", "this", "Type", "Prop", "Sort"}


def ind(s, n=2):
    pad = " " * n
    return "\n".join(pad + line if line else line for line in s.split("\n"))


def atomic(s):
    return re.match(r"^[A-Za-z_][A-Za-z0-9_.'✝]*$", s) is not None


def par(s):
    s = s.strip()
    if atomic(s) or (s.startswith("(") and s.endswith(")") and balanced(s[1:-1])) or re.match(r"^\d+$", s):
        return s
    return "(" + s + ")"


def balanced(s):
    d = 0
    for ch in s:
        if ch == "(":
            d += 1
        elif ch == ")":
            d -= 1
            if d < 0:
                return False
    return d == 0


class Val:
    """a translated value: Lean text + what the translator knows about it"""

    def __init__(self, lean, kind=None, ty=None, **kw):
        self.lean, self.kind, self.ty = lean, kind, ty
        self.prop = kw.get("prop")            # Prop rendering of a Bool (for `if`)
        self.parts = kw.get("parts")          # node: (v, lo, hi); tuple: [Val]
        self.destruct = kw.get("destruct")    # matched pointer: (c, v, lo, hi)
        self.opt = kw.get("opt")              # statically known Option: ("some", Val) | ("none",)
        self.inner = kw.get("inner")          # Option / List: Val template of the payload
        self.fed = kw.get("fed")              # hasher: list of Val fed so far
        self.fn = kw.get("fn")                # closure / local fn
        self.alias_of = kw.get("alias_of")    # the state slot this value is a live reference to (RefMut of a field)

    def cond(self):
        return self.prop if self.prop is not None else self.lean

    def like(self, lean):
        if self.kind == "tuple" and self.parts:
            x = par(lean)
            n = len(self.parts)
            projs = [x + "." + ".".join(["2"] * i + (["1"] if i < n - 1 else [])) for i in range(n)]
            return Val(lean, "tuple", self.ty, parts=[p_.like(pr) for p_, pr in zip(self.parts, projs)])
        return Val(lean, self.kind, self.ty, inner=self.inner)


UNIT = Val("()", "unit", "Unit")
KIND_TY = {"ptr": "Ptr", "nat": "Nat", "bool": "Bool", "lit": "Lit", "node": "Nat × Ptr × Ptr", "noderef": "Ptr",
           "solver": "S.σ", "store": "NS.τ", "cnf": "Cnf", "hash": "H"}


def mk(kind, lean, **kw):
    return Val(lean, kind, KIND_TY.get(kind), **kw)


def node_val(v, lo, hi):
    return Val("(%s, %s, %s)" % (v, lo, hi), "node", KIND_TY["node"], parts=(v, lo, hi))


def node_parts(val):
    if val.parts:
        return val.parts
    x = par(val.lean)
    return (x + ".1", x + ".2.1", x + ".2.2")


def regular_ptr(val):
    """the regular pointer to a node value"""
    v, lo, hi = node_parts(val)
    return mk("noderef", "(Ptr.node false %s %s %s)" % (par(v), par(lo), par(hi)))


class Env:
    def __init__(self, ctx):
        self.ctx, self.vars, self.localfns = ctx, {}, {}
        self.declared = set()    # names introduced (possibly shadowing) in the innermost scope

    def copy(self):
        e = Env(self.ctx)
        e.vars = dict(self.vars)
        e.localfns = dict(self.localfns)
        e.declared = set(self.declared)
        return e

    def set(self, name, val):
        self.vars[name] = val
        return self

    def rebind(self, name, val):
        """a mutation of `name`: if it is a live reference to a state slot, the slot changes too"""
        old = self.vars.get(name)
        slot = getattr(old, "alias_of", None) if old is not None else None
        if slot is None and name.startswith("@self."):
            slot = None
        if slot is not None:
            val.alias_of = slot
            self.vars[slot] = val
        self.vars[name] = val
        return self


class Ctx:
    """per translated function"""

    def __init__(self, unit, fd):
        self.unit, self.fd = unit, fd
        self.used = set()
        self.aux = []            # auxiliary definitions (loops)
        self.partial = False
        self.fuel_mode = None    # None | "zero" | "succ"
        self.inline_depth = 0

    def fresh(self, base):
        base = re.sub(r"[^A-Za-z0-9_]", "", base) or "x"
        base = re.sub(r"\d+$", "", base) or base
        if base in LEAN_KEYWORDS:
            base += "_"
        name, n = base, 0
        while name in self.used:
            n += 1
            name = "%s%d" % (base, n)
        self.used.add(name)
        return name

    def snap(self):
        return (set(self.used), list(self.aux), self.partial)

    def restore(self, s):
        self.used, self.aux, self.partial = set(s[0]), list(s[1]), s[2]


# ---------------------------------------------------------------------------------------------
# translation units (one per source file / impl) and function descriptors

class FnDesc:
    def __init__(self, rust, lean, ghosts, recursion=None, selfkind="trait", pick=0, fallback=None, aux_fallback=None,
                 store_ty="NS.τ", ret=("ptr", "Ptr")):
        self.ret = ret
        self.rust, self.lean, self.ghosts, self.recursion = rust, lean, ghosts, recursion
        self.selfkind, self.pick, self.fallback, self.aux_fallback = selfkind, pick, fallback, aux_fallback or {}
        self.store_ty = store_ty
        self.parsed = None
        self.params = None       # [(rust name, Val template, byref)]
        self.uses_store = False
        self.uses_memo = False   # threads the scratch memo as a parameter
        self.memo_entry = False  # starts with an empty scratch memo
        self.new_state = {}      # slot -> (name, rust type, Val template | None, description)


GHOST_BINDERS = {
    "S": "(S : Solver)", "NS": "(NS : NodeStore)", "varAt": "(varAt : Nat → Nat)", "lvl": "(lvl : Nat → Nat)",
    "H": "{H : Type} [DecidableEq H]", "semHash": "(semHash : Ptr → H)", "negH": "(negH : H → H)", "key": "(key : H → H)",
}
GHOST_ORDER = ["S", "NS", "varAt", "lvl", "H", "semHash", "negH", "key"]


TYPE_ALIASES = {}     # `type NAME<…> = T;` declarations of all translated files (filled by generate())


def scan_type_aliases(toks):
    out = {}
    for i in range(len(toks) - 2):
        if toks[i] == ("id", "type") and toks[i + 1][0] == "id":
            j = i + 2
            depth = 0
            while j < len(toks) and not (toks[j][1] == "=" and depth == 0):
                depth += toks[j][1] == "<"
                depth -= toks[j][1] == ">"
                if toks[j][1] in (";", "{"):
                    break
                j += 1
            if j < len(toks) and toks[j][1] == "=":
                k = j + 1
                while k < len(toks) and toks[k][1] != ";":
                    k += 1
                out[toks[i + 1][1]] = " ".join(x[1] for x in toks[j + 1:k])
    return out


def scan_struct_fields(toks):
    """{field name: type text} of all `struct X { … }` of a file"""
    out = {}
    i = 0
    while i < len(toks):
        if toks[i] == ("id", "struct"):
            j = i
            while j < len(toks) and toks[j][1] not in ("{", ";", "("):
                j += 1
            if j < len(toks) and toks[j][1] == "{":
                pz = R.Parser(toks, j + 1)
                try:
                    while not pz.at("}"):
                        if pz.at("#"):
                            pz.eat("#")
                            pz.skip_balanced("[", "]")
                            continue
                        if pz.at("pub"):
                            pz.eat()
                            if pz.at("("):
                                pz.skip_balanced("(", ")")
                        name = pz.eat_id()
                        pz.eat(":")
                        out[name] = pz.parse_type()
                        if pz.at(","):
                            pz.eat(",")
                except R.ParseError:
                    pass
                i = pz.i
        i += 1
    return out


def norm_type(ty):
    """strip spaces, lifetimes, references, interior-mutability wrappers; expand aliases.
    -> (core type text, is `&mut`)"""
    t = re.sub(r"'\s*[a-z_]+\b\s*,?", "", ty)      # lifetimes (the type text is token-separated by spaces)
    t = t.replace(" ", "").replace("<>", "")
    is_mut = False
    for _ in range(12):
        t0 = t
        if t.startswith("&mut"):
            t, is_mut = t[4:], True
        elif t.startswith("&"):
            t = t[1:]
        elif t.startswith("mut") and not re.match(r"mut[A-Za-z_]", t):
            t = t[3:]
        m = re.match(r"^(?:std::cell::|cell::|std::rc::|std::boxed::)?(RefCell|Cell|Rc|Box|RefMut|Ref)<(.*)>$", t)
        if m:
            t = m.group(2)
        m = re.match(r"^([A-Za-z_][A-Za-z0-9_]*)(<.*>)?$", t)
        if m and m.group(1) in TYPE_ALIASES:
            t = re.sub(r"'\s*[a-z_]+\b\s*,?", "", TYPE_ALIASES[m.group(1)]).replace(" ", "").replace("<>", "")
        if t == t0:
            break
    return t, is_mut


def type_template(name, ty):
    """Rust type -> ([(lean name, Val template)], by-reference-and-mutable) or None when the type has no counterpart"""
    t, is_mut = norm_type(ty)
    t = re.sub(r"^(?:rustc_hash::|std::collections::)", "", t)
    if t == "BddPtr":
        return [(name, mk("ptr", name))], is_mut
    if t in ("VarLabel", "usize", "u64", "u32"):
        return [(name, mk("nat", name))], is_mut
    if t == "bool":
        return [(name, mk("bool", name))], is_mut
    if t == "Literal":
        return [(name, mk("lit", name))], is_mut
    if t == "Cnf":
        return [(name, mk("cnf", name)), ("numVars", mk("nat", "numVars"))], False
    if t == "SATSolver":
        return [(name, mk("solver", name))], is_mut
    m = re.match(r"^(?:Fx)?HashMap<(u128|BddPtr),BddPtr>$", t)
    if m:
        kt = "S.κ" if m.group(1) == "u128" else "Ptr"
        return [(name, Val(name, "cache", "Cache " + kt, inner=mk("ptr", "_")))], is_mut
    m = re.match(r"^(?:implIterator<Item=(\w+)>|Vec<(\w+)>|\[(\w+)\])$", t)
    if m:
        el = type_template("_", m.group(1) or m.group(2) or m.group(3))
        if el and len(el[0]) == 1 and el[0][0][1].ty:
            it = el[0][0][1]
            return [(name, Val(name, "list", "List " + par_ty(it.ty), inner=it))], is_mut
    m = re.match(r"^Option<(.*)>$", t)
    if m:
        el = type_template("_", m.group(1))
        if el and len(el[0]) == 1 and el[0][0][1].ty:
            it = el[0][0][1]
            return [(name, Val(name, "opt", "Option " + par_ty(it.ty), inner=it))], is_mut
    if t == "BddNode":
        return [(name, mk("node", name))], is_mut
    if t in ("FiniteField<P>",):
        return [(name, mk("hash", name))], is_mut
    return None


def param_template(name, ty):
    """Rust parameter type -> (Val template(s), byref)"""
    r = type_template(name, ty)
    if r is None:
        raise Untranslatable("parameter type `%s`" % ty)
    return r


class Unit_:
    """a source file: tokens, the descriptors of the functions to translate, inlinable helpers"""

    def __init__(self, path, fds):
        self.path = path
        self.src = open(os.path.join(REPO, path)).read()
        self.toks = R.lex(self.src)
        self.fds = {fd.rust: fd for fd in fds}
        self.struct_fields = scan_struct_fields(self.toks)

    def state_accessor(self, name):
        """a method of the trait/impl WITHOUT a body (to be supplied by the implementor), no parameters,
        returning a reference: an accessor of builder state.  -> return type text | None"""
        try:
            fs = R.find_fns(self.toks, name)
        except R.ParseError:
            return None
        fs = [f for f in fs if f["body"] is None and all(p_[0] == "self" for p_ in f["params"]) and f["ret"]
              and f["ret"].lstrip().startswith("&")]
        return fs[0]["ret"] if len(fs) == 1 else None

    def helper(self, name):
        fs = [f for f in R.find_fns(self.toks, name) if f["body"] is not None]
        if len(fs) != 1:
            raise Untranslatable("helper `%s` not found (or not unique) in %s" % (name, self.path))
        return fs[0]


# ---------------------------------------------------------------------------------------------
# the translator proper (continuation-passing)

def tuple_text(xs):
    return xs[0] if len(xs) == 1 else "(" + ", ".join(xs) + ")"


def bind_let(names, rhs, body):
    lhs = names[0] if len(names) == 1 else "(" + ", ".join(names) + ")"
    if "\n" in rhs:
        return "let %s :=\n%s\n%s" % (lhs, ind(rhs), body)
    return "let %s := %s\n%s" % (lhs, rhs, body)


def named(val, env, base, k_body):
    """make sure `val` is an atomic Lean term (let-bind it otherwise); k_body(val') -> text"""
    if atomic(val.lean) or val.parts or val.destruct or val.opt or val.kind in ("unit", "hasher", "self", "table", "order", "opaque") \
            or val.lean in ("[]",) or re.match(r"^\(?Ptr\.(tru|fls)\)?$", val.lean) or re.match(r"^\d+$", val.lean):
        return k_body(val)
    name = env.ctx.fresh(base)
    nv = val.like(name)
    nv.alias_of = val.alias_of
    return bind_let([name], val.lean, k_body(nv))


def tr_block(block, env, k, hint=None):
    assert block[0] == "block"
    stmts, tail = block[1], block[2]
    env = env.copy()
    env.declared = set()

    def go(i, env):
        if i == len(stmts):
            if tail is None:
                return k(UNIT, env)
            return tr_expr(tail, env, k, hint)
        st = stmts[i]
        if st[0] == "item":
            if st[1] == "fn":
                env.localfns[st[2]["name"]] = st[2]
            return go(i + 1, env)
        if st[0] == "let":
            pat, init = st[1], st[3]
            if init is None:
                raise Untranslatable("let without initialiser")
            h = pat[1] if pat[0] == "bind" else None
            return tr_expr(init, env, lambda v, e2: bind_pattern(pat, v, e2, lambda e3: go(i + 1, e3)), h)
        if st[0] == "expr":
            return tr_expr(st[1], env, lambda v, e2: go(i + 1, e2))
        raise Untranslatable("statement " + st[0])

    return go(0, env)


def bind_pattern(pat, val, env, k_env):
    if pat[0] == "wild":
        return k_env(env)
    if pat[0] == "bind":
        def bound(v2):
            e2 = env.copy()
            e2.vars[pat[1]] = v2
            e2.declared.add(pat[1])
            return k_env(e2)
        return named(val, env, pat[1], bound)
    if pat[0] == "ptuple" and val.kind == "tuple" and val.parts and len(val.parts) == len(pat[1]):
        def go(i, env):
            if i == len(pat[1]):
                return k_env(env)
            return bind_pattern(pat[1][i], val.parts[i], env, lambda e2: go(i + 1, e2))
        return go(0, env)
    if pat[0] == "pslice" and val.kind == "array" and val.parts and len(val.parts) == len(pat[1]):
        def go2(i, env):
            if i == len(pat[1]):
                return k_env(env)
            return bind_pattern(pat[1][i], val.parts[i], env, lambda e2: go2(i + 1, e2))
        return go2(0, env)
    if pat[0] == "pref":
        return bind_pattern(pat[1], val, env, k_env)
    raise Untranslatable("pattern in let: %r" % (pat,))


def tr_args(args, env, k, i=0, acc=None):
    acc = acc or []
    if i == len(args):
        return k(acc, env)
    return tr_expr(args[i], env, lambda v, e2: tr_args(args, e2, k, i + 1, acc + [v]))


PTR_CONSTS = {"PtrTrue": "Ptr.tru", "PtrFalse": "Ptr.fls"}


def tr_path(segs, env):
    if len(segs) == 1:
        n = segs[0]
        if n in env.vars:
            return env.vars[n]
        if n == "self":
            return Val("self", "self")
        if n in PTR_CONSTS:
            return mk("ptr", PTR_CONSTS[n])
        if n == "None":
            return Val("none", "opt", opt=("none",))
        if n in ("Reg", "Compl", "Some"):
            return Val("<fn %s>" % n, "fnpath", fn=segs)
        raise Untranslatable("unknown name `%s`" % n)
    if segs[-1] in PTR_CONSTS and segs[-2] == "BddPtr":
        return mk("ptr", PTR_CONSTS[segs[-1]])
    if segs[-1] in ("Reg", "Compl") and segs[-2] == "BddPtr":
        return Val("<fn %s>" % segs[-1], "fnpath", fn=segs)
    if segs[0] == "Self" and len(segs) == 2:
        return Val("<fn %s>" % segs[-1], "fnpath", fn=segs)
    raise Untranslatable("path `%s`" % "::".join(segs))


def strip_ref(e):
    while e[0] == "unary" and e[1] in ("&", "&mut", "*"):
        e = e[2]
    return e


def tr_expr(e, env, k, hint=None):
    t = e[0]
    ctx = env.ctx
    if t == "path":
        return k(tr_path(e[1], env), env)
    if t == "lit":
        x = e[1]
        if x in ("true", "false"):
            return k(mk("bool", x), env)
        m = re.match(r"^(\d+)(usize|u64|u128|u32)?$", x)
        if m:
            return k(mk("nat", m.group(1)), env)
        raise Untranslatable("literal " + x)
    if t == "unary":
        if e[1] in ("&", "&mut", "*"):
            return tr_expr(e[2], env, k, hint)
        if e[1] == "!":
            def neg(v, e2):
                if v.kind != "bool":
                    raise Untranslatable("`!` on a non-bool")
                return k(mk("bool", "(!%s)" % v.lean, prop="¬ (%s)" % v.cond()), e2)
            return tr_expr(e[2], env, neg)
        raise Untranslatable("unary " + e[1])
    if t == "binary":
        return tr_binary(e, env, k)
    if t == "tuple":
        if not e[1]:
            return k(UNIT, env)
        return tr_args(e[1], env, lambda vs, e2: k(tuple_val(vs), e2))
    if t == "block":
        return tr_block(e, env, lambda v, e2: k(v, scope_out(env, e2)), hint)
    if t == "return":
        if ctx.ret_k is None:
            raise Untranslatable("return outside a function")
        if e[1] is None:
            return ctx.ret_k(UNIT, env)
        return tr_expr(e[1], env, ctx.ret_k)
    if t == "if":
        return tr_if(e, env, k, hint)
    if t == "match":
        return tr_match(e[1], e[2], env, k, hint)
    if t == "for":
        return tr_for(e, env, k)
    if t == "assign":
        return tr_assign(e, env, k)
    if t == "call":
        return tr_call(e, env, k, hint)
    if t == "mcall":
        return tr_mcall(e, env, k, hint)
    if t == "field":
        return tr_field(e, env, k)
    if t == "closure":
        return k(Val("<closure>", "closure", fn=(e[1], e[2], env)), env)
    if t == "array":
        return tr_args(e[1], env, lambda vs, e2: k(Val("[" + ", ".join(v.lean for v in vs) + "]", "array", parts=vs), e2))
    if t == "macro":
        if e[1] in ("debug_assert", "assert", "debug_assert_eq"):
            return k(UNIT, env)
        if e[1] in ("panic", "unreachable", "unimplemented", "todo"):
            return k(Val("default"), env)    # unreachable under the method's precondition
        if e[1] == "matches":
            pz = R.Parser(list(e[2]))
            scrut = pz.parse_expr(nostruct=True)
            pz.eat(",")
            pat = pz.parse_pattern()
            guard = None
            if pz.at("if"):
                pz.eat()
                guard = pz.parse_expr()
            if pz.at(","):
                pz.eat(",")
            if pz.peek()[0] != "eof":
                raise Untranslatable("matches! with trailing tokens")
            return tr_match(scrut, [(pat, guard, ("lit", "true")), (("wild",), None, ("lit", "false"))], env, k, hint)
        raise Untranslatable("macro %s!" % e[1])
    raise Untranslatable("expression form `%s`" % t)


def tuple_val(vs, lean=None):
    ty = " × ".join(par_ty(v.ty) for v in vs) if all(v.ty for v in vs) else None
    return Val(lean or "(" + ", ".join(v.lean for v in vs) + ")", "tuple", ty, parts=vs)


def par_ty(t):
    return t if re.match(r"^[A-Za-z_.]+$", t) else "(" + t + ")"


def scope_out(outer, inner):
    """leaving a block: keep the (re)bindings of the variables that exist outside"""
    e = outer.copy()
    for n in outer.vars:
        if n in inner.vars and n not in inner.declared:
            e.vars[n] = inner.vars[n]
    return e


def tr_binary(e, env, k):
    op = e[1]

    def with_l(lv, e1):
        def with_r(rv, e2):
            if op in ("||", "&&"):
                if any(e2.vars[n].lean != e1.vars[n].lean for n in e1.vars if n in e2.vars):
                    raise Untranslatable("effect in the right operand of " + op)
                if lv.kind != "bool" or rv.kind != "bool":
                    raise Untranslatable("non-bool operand of " + op)
                sym = "∨" if op == "||" else "∧"
                return k(mk("bool", "(%s %s %s)" % (lv.lean, op, rv.lean), prop="(%s %s %s)" % (par_prop(lv), sym, par_prop(rv))), e2)
            if op in ("==", "!="):
                if lv.kind in ("node", "solver", "store", "cache", "list", "opt", None) or rv.kind in ("node", "solver", "store", "cache", "list", "opt", None):
                    raise Untranslatable("comparison of %s with %s" % (lv.kind, rv.kind))
                sym = "=" if op == "==" else "≠"
                return k(mk("bool", "(%s %s %s)" % (lv.lean, op, rv.lean), prop="%s %s %s" % (par(lv.lean), sym, par(rv.lean))), e2)
            if op in ("<", ">", "<=", ">="):
                if lv.kind != "nat" or rv.kind != "nat":
                    raise Untranslatable("order comparison on non-numbers")
                sym = {"<": "<", ">": ">", "<=": "≤", ">=": "≥"}[op]
                p = "%s %s %s" % (par(lv.lean), sym, par(rv.lean))
                return k(mk("bool", "(decide (%s))" % p, prop=p), e2)
            if op in ("+", "-", "*"):
                if lv.kind != "nat" or rv.kind != "nat":
                    raise Untranslatable("arithmetic on non-numbers")
                return k(mk("nat", "(%s %s %s)" % (lv.lean, op, rv.lean)), e2)
            raise Untranslatable("operator " + op)
        return tr_expr(e[3], e1, with_r)
    return tr_expr(e[2], env, with_l)


def par_prop(v):
    p = v.cond()
    return p if atomic(p) or (p.startswith("(") and p.endswith(")") and balanced(p[1:-1])) else "(" + p + ")"


def tr_field(e, env, k):
    def go(rv, e2):
        f = e[2]
        if rv.kind == "self":
            if f == "compute_table":
                return k(Val("<table>", "table"), e2)
            if f in ("order",):
                return k(Val("<order>", "order"), e2)
            if "@self." + f in e2.vars:
                return k(e2.vars["@self." + f], e2)          # (new) builder state
            if f in e2.ctx.unit.struct_fields and f not in ("map",):
                raise Untranslatable("builder field `%s` of type `%s`" % (f, e2.ctx.unit.struct_fields[f]))
            return k(Val("<self.%s>" % f, "opaque"), e2)
        if rv.kind in ("node", "noderef") and f in ("var", "low", "high"):
            if rv.kind == "noderef" and not rv.parts:
                raise Untranslatable("field of an unmatched node reference")
            v, lo, hi = node_parts(rv)
            return k({"var": mk("nat", v), "low": mk("ptr", lo), "high": mk("ptr", hi)}[f], e2)
        if rv.kind == "tuple" and rv.parts and re.match(r"^\d+$", f) and int(f) < len(rv.parts):
            return k(rv.parts[int(f)], e2)
        raise Untranslatable("field .%s of %s" % (f, rv.kind))
    return tr_expr(e[1], env, go)


def tr_assign(e, env, k):
    op, lhs, rhs = e[1], strip_ref(e[2]), e[3]
    if lhs[0] != "path" or len(lhs[1]) != 1 or lhs[1][0] not in env.vars:
        raise Untranslatable("assignment target")
    name = lhs[1][0]

    def go(rv, e2):
        old = e2.vars[name]
        if op == "=":
            nv = rv
        elif op in ("+=", "-=", "*=") and old.kind == "nat" and rv.kind == "nat":
            nv = mk("nat", "(%s %s %s)" % (old.lean, op[0], rv.lean))
        else:
            raise Untranslatable("assignment operator " + op)

        def bound(v2):
            e3 = e2.copy()
            e3.rebind(name, v2)
            return k(UNIT, e3)
        return named(nv, e2, name, bound)
    return tr_expr(rhs, env, go, name)


# ---- branching constructs ---------------------------------------------------------------------

def merge_vals(vals, lean):
    vs = [v for v in vals if v.kind not in (None,)]
    if not vs:
        return Val(lean)
    v0 = vs[0]
    if v0.kind == "tuple" and v0.parts and all(v.kind == "tuple" and v.parts and len(v.parts) == len(v0.parts) for v in vs):
        return v0.like(lean)
    r = Val(lean, v0.kind, v0.ty, inner=v0.inner)
    return r


def branching(assemble, branch_fns, env, k, dup, hint=None, inline=False):
    """branch_fns: [f(env, k) -> text]; assemble([texts]) -> text of the whole construct"""
    ctx = env.ctx
    if dup:
        return assemble([f(env.copy(), k) for f in branch_fns])
    snap = ctx.snap()
    rec = []
    for f in branch_fns:
        f(env.copy(), lambda v, e2: (rec.append((v, e2)), "")[1])
    ctx.restore(snap)
    changed = [n for n in env.vars if any(n in e2.vars and e2.vars[n].lean != env.vars[n].lean for _, e2 in rec)]
    vals = [v for v, _ in rec]
    nonunit = any(v.kind != "unit" for v in vals)
    if not changed:
        if not nonunit:
            return k(UNIT, env)
        text = assemble([f(env.copy(), lambda v, e2: v.lean) for f in branch_fns])
        rv = merge_vals(vals, text)
        if "\n" not in text or inline:
            return k(rv, env)
        name = ctx.fresh(hint or "r")
        return bind_let([name], text, k(rv.like(name), env))
    names = []
    rname = None
    if nonunit:
        rname = ctx.fresh(hint or "r")
        names.append(rname)
    newnames = {}
    for n in changed:
        newnames[n] = ctx.fresh(n.lstrip("@"))
        names.append(newnames[n])

    def kk(v, e2):
        comps = ([v.lean] if nonunit else []) + [e2.vars[n].lean for n in changed]
        return tuple_text(comps)
    text = assemble([f(env.copy(), kk) for f in branch_fns])
    e3 = env.copy()
    for n in changed:
        e3.vars[n] = env.vars[n].like(newnames[n])
    rv = merge_vals(vals, rname).like(rname) if nonunit else UNIT
    return bind_let(names, text, k(rv, e3))


def ite_text(c, a, b):
    if "\n" not in a and "\n" not in b and len(a) + len(b) + len(c) < 90:
        return "(if %s then %s else %s)" % (c, a, b)
    return "(if %s then\n%s\nelse\n%s)" % (c, ind(a), ind(b))


def tr_if(e, env, k, hint=None):
    cond, then, els = e[1], e[2], e[3]
    dup = R.has_return(then) or (els is not None and R.has_return(els))
    if cond[0] == "letcond":
        arms = [(cond[1], None, then), (("wild",), None, els if els is not None else ("tuple", []))]
        return tr_match(cond[2], arms, env, k, hint, dup=dup)

    def after(cv, e1):
        if cv.kind != "bool":
            raise Untranslatable("condition is not a bool")
        fs = [lambda en, kk: tr_expr(then, en, lambda v, e2: kk(v, scope_out(e1, e2)), hint),
              (lambda en, kk: tr_expr(els, en, lambda v, e2: kk(v, scope_out(e1, e2)), hint)) if els is not None
              else (lambda en, kk: kk(UNIT, en))]
        return branching(lambda ts: ite_text(cv.cond(), ts[0], ts[1]), fs, e1, k, dup, hint)
    return tr_expr(cond, env, after)


def pat_alts(p):
    return p[1] if p[0] == "por" else [p]


def pat_ctor(p):
    """constructor name of a pattern alternative, or None for catch-alls"""
    if p[0] in ("wild", "bind"):
        return None
    if p[0] == "pref":
        return pat_ctor(p[1])
    if p[0] == "ppath":
        return p[1][-1]
    if p[0] == "ptuplestruct":
        return p[1][-1]
    raise Untranslatable("pattern %r" % (p,))


def strip_pref(p):
    while p[0] == "pref":
        p = p[1]
    return p


MATCH_FAMILIES = {
    "ptr": ["PtrTrue", "PtrFalse", "Reg", "Compl"],
    "opt": ["None", "Some"],
    "dres": ["SAT", "UNSAT", "Unknown"],
}
DRES_LEAN = {"SAT": ".sat", "UNSAT": ".unsat", "Unknown": ".unknown"}


def tr_match(scrut, arms, env, k, hint=None, dup=None):
    ctx = env.ctx
    if dup is None:
        dup = any(R.has_return(b) or (g is not None and R.has_return(g)) for _, g, b in arms)
    ctors = set()
    for p, _, _ in arms:
        for a in pat_alts(p):
            c = pat_ctor(a)
            if c is not None:
                ctors.add(c)
    fam = None
    for f, names in MATCH_FAMILIES.items():
        if ctors and ctors <= set(names):
            fam = f
    if fam is None:
        raise Untranslatable("match on patterns %s" % sorted(ctors))

    def applicable(ctor):
        """[(arm index, alternative pattern)] of the arms that can match constructor `ctor`, in order"""
        out = []
        for i, (p, g, b) in enumerate(arms):
            for a in pat_alts(p):
                a = strip_pref(a)
                c = pat_ctor(a)
                if c is None or c == ctor:
                    out.append((i, a))
                    break
        return out

    def chain(apps, case_env, bindf, kk):
        """try the applicable arms in order; bindf(alt pattern, env) -> env with the pattern variables"""
        if not apps:
            raise Untranslatable("non-exhaustive match")
        i, alt = apps[0]
        _, guard, body = arms[i]
        e0 = case_env.copy()
        e0.declared = set()
        before = dict(e0.vars)
        e1 = bindf(alt, e0)
        e1.declared = set(n for n in e1.vars if n not in before or e1.vars[n] is not before[n])
        if guard is None:
            return tr_expr(body, e1, lambda v, e2: kk(v, scope_out(case_env, e2)), hint)

        def guarded(gv, e2):
            if gv.kind != "bool":
                raise Untranslatable("guard is not a bool")
            a = tr_expr(body, e2.copy(), lambda v, e3: kk(v, scope_out(case_env, e3)), hint)
            b = chain(apps[1:], case_env, bindf, kk)
            return ite_text(gv.cond(), a, b)
        return tr_expr(guard, e1, guarded)

    def sub_bind(alt, en, payload):
        """bind the single sub-pattern of `Ctor(p)` to payload"""
        if alt[0] in ("wild",):
            return en
        if alt[0] == "bind":
            raise Untranslatable("internal")
        if alt[0] == "ptuplestruct":
            if len(alt[2]) != 1:
                raise Untranslatable("constructor pattern arity")
            sp = strip_pref(alt[2][0])
            if sp[0] == "wild":
                return en
            if sp[0] == "bind":
                en.vars[sp[1]] = payload
                return en
            raise Untranslatable("nested pattern %r" % (sp,))
        return en

    # ---------------- pointers
    if fam == "ptr":
        s = strip_ref(scrut)
        if s[0] != "path" or len(s[1]) != 1 or s[1][0] not in env.vars:
            raise Untranslatable("match on a pointer that is not a variable")
        name = s[1][0]
        sv = env.vars[name]
        if sv.kind != "ptr":
            raise Untranslatable("pointer patterns on a %s" % sv.kind)

        def case_fn(ctor, consts):
            """consts: dict(lean=…, c, v, lo, hi) for node cases"""
            def f(en, kk):
                en = en.copy()
                if ctor in ("PtrTrue", "PtrFalse"):
                    whole = mk("ptr", PTR_CONSTS[ctor])
                    apps = applicable(ctor)
                else:
                    c, v, lo, hi = consts
                    whole = mk("ptr", "(Ptr.node %s %s %s %s)" % (c, v, lo, hi), destruct=(c, v, lo, hi))
                    apps = applicable(ctor)
                en.vars[name] = whole

                def bindf(alt, e1):
                    if alt[0] == "bind":
                        e1.vars[alt[1]] = whole
                        return e1
                    if ctor in ("Reg", "Compl"):
                        c, v, lo, hi = consts
                        payload = mk("noderef", "(Ptr.node false %s %s %s)" % (v, lo, hi), parts=(v, lo, hi))
                        return sub_bind(alt, e1, payload)
                    return e1
                return chain(apps, en, bindf, lambda v_, e2: kk(v_, restore_var(env, e2, name)))
            return f

        # statically known scrutinee
        if sv.destruct or sv.lean in PTR_CONSTS.values():
            if sv.lean in PTR_CONSTS.values():
                ctor = [c for c, l in PTR_CONSTS.items() if l == sv.lean][0]
                return case_fn(ctor, None)(env, k)
            c = sv.destruct[0]
            if c in ("false", "true"):
                return case_fn("Reg" if c == "false" else "Compl", sv.destruct)(env, k)
            raise Untranslatable("nested match on an already matched pointer")
        same = [i for i, _ in applicable("Reg")] == [i for i, _ in applicable("Compl")] and \
            all(subpat_names(a1) == subpat_names(a2) for (_, a1), (_, a2) in zip(applicable("Reg"), applicable("Compl")))
        v, lo, hi = ctx.fresh("v"), ctx.fresh("lo"), ctx.fresh("hi")
        if same:
            c = ctx.fresh("c")
            cases = [(".tru", case_fn("PtrTrue", None)), (".fls", case_fn("PtrFalse", None)),
                     (".node %s %s %s %s" % (c, v, lo, hi), case_fn("Reg", (c, v, lo, hi)))]
        else:
            cases = [(".tru", case_fn("PtrTrue", None)), (".fls", case_fn("PtrFalse", None)),
                     (".node false %s %s %s" % (v, lo, hi), case_fn("Reg", ("false", v, lo, hi))),
                     (".node true %s %s %s" % (v, lo, hi), case_fn("Compl", ("true", v, lo, hi)))]
        if ctx.match_ptr_hook:
            ctx.match_ptr_hook(name, (lo, hi))

        def assemble(ts):
            return "(match %s with\n%s)" % (sv.lean, "\n".join(" | %s =>\n%s" % (p, ind(t_, 4)) for (p, _), t_ in zip(cases, ts)))
        return branching(assemble, [f for _, f in cases], env, k, dup, hint)

    # ---------------- decision results (scrutinee: sat.decide(l))
    if fam == "dres":
        s = scrut
        if not (s[0] == "mcall" and s[2] == "decide" and len(s[3]) == 1):
            raise Untranslatable("match on a DecisionResult that is not `sat.decide(l)`")
        recv = strip_ref(s[1])
        if recv[0] != "path" or recv[1][0] not in env.vars or env.vars[recv[1][0]].kind != "solver":
            raise Untranslatable("decide on something that is not the solver")
        sname = recv[1][0]

        def after_arg(lv, e1):
            if lv.kind != "lit":
                raise Untranslatable("decide on a non-literal")
            s1 = ctx.fresh(sname)
            cases = []
            order = []
            for p_, _, _ in arms:
                for a_ in pat_alts(p_):
                    c_ = pat_ctor(strip_pref(a_))
                    if c_ is not None and c_ not in order:
                        order.append(c_)
            order += [c_ for c_ in MATCH_FAMILIES["dres"] if c_ not in order]
            for ctor in order:
                def f(en, kk, ctor=ctor):
                    en = en.copy()
                    en.vars[sname] = e1.vars[sname].like(s1)
                    return chain(applicable(ctor), en, lambda alt, e2: e2, kk)
                cases.append(("(%s, %s)" % (DRES_LEAN[ctor], s1), f))

            def assemble(ts):
                return "(match S.decide %s %s with\n%s)" % (e1.vars[sname].lean, par(lv.lean),
                                                           "\n".join(" | %s =>\n%s" % (p, ind(t_, 4)) for (p, _), t_ in zip(cases, ts)))
            return branching(assemble, [f for _, f in cases], e1, k, dup, hint)
        return tr_expr(s[3][0], env, after_arg)

    # ---------------- options
    def after_scrut(ov, e1):
        if ov.kind != "opt":
            raise Untranslatable("Option patterns on a %s" % ov.kind)

        def case_fn(ctor, payload):
            def f(en, kk):
                def bindf(alt, e2):
                    if alt[0] == "bind":
                        e2.vars[alt[1]] = ov
                        return e2
                    return sub_bind(alt, e2, payload) if ctor == "Some" else e2
                return chain(applicable(ctor), en.copy(), bindf, kk)
            return f
        if ov.opt:
            if ov.opt[0] == "none":
                return case_fn("None", None)(e1, k)
            return case_fn("Some", ov.opt[1])(e1, k)
        if ov.inner is None:
            raise Untranslatable("Option of unknown payload")
        x = ctx.fresh(payload_name(arms) or "x")
        cases = [("none", case_fn("None", None)), ("some %s" % x, case_fn("Some", ov.inner.like(x)))]

        def assemble(ts):
            return "(match %s with\n%s)" % (ov.lean, "\n".join(" | %s =>\n%s" % (p, ind(t_, 4)) for (p, _), t_ in zip(cases, ts)))
        return branching(assemble, [f for _, f in cases], e1, k, dup, hint)
    return tr_expr(scrut, env, after_scrut)


def payload_name(arms):
    for p, _, _ in arms:
        for a in pat_alts(p):
            a = strip_pref(a)
            if a[0] == "ptuplestruct" and len(a[2]) == 1 and strip_pref(a[2][0])[0] == "bind":
                return strip_pref(a[2][0])[1]
    return None


def subpat_names(a):
    if a[0] == "ptuplestruct":
        return [strip_pref(x) for x in a[2]]
    return a


def restore_var(outer, inner, name):
    """after a pointer match: the scrutinee variable is the unrefined one again"""
    e = inner.copy()
    if name in outer.vars:
        e.vars[name] = outer.vars[name]
    return e


# ---- closures ---------------------------------------------------------------------------------

def apply_fn(fval, args, env, k, hint=None, inline=False):
    """apply a closure value / a constructor path to translated arguments (with a join: a `return`
    inside a closure leaves the closure only)"""
    ctx = env.ctx
    if fval.kind == "fnpath":
        e2 = env.copy()
        names = []
        for i, a in enumerate(args):
            e2.vars["__arg%d" % i] = a
            names.append(("path", ["__arg%d" % i]))
        return tr_call(("call", ("path", fval.fn), names), e2, lambda v, e3: k(v, scope_out(env, e3)), hint)
    if fval.kind != "closure":
        raise Untranslatable("application of a %s" % fval.kind)
    params, body, cenv = fval.fn
    if len(params) != len(args):
        raise Untranslatable("closure arity")

    def f(en, kk):
        en = en.copy()
        en.declared = set()
        for n, v in cenv.vars.items():
            if n not in en.vars:
                en.vars[n] = v
                en.declared.add(n)
        saved = ctx.ret_k

        def back(v, e2):
            s2 = ctx.ret_k
            ctx.ret_k = saved
            try:
                return kk(v, scope_out(env, e2))
            finally:
                ctx.ret_k = s2

        def bind(i, e1):
            if i == len(params):
                ctx.ret_k = back
                try:
                    return tr_expr(body, e1, back)
                finally:
                    ctx.ret_k = saved
            pat = strip_pref(params[i])
            for nm in pattern_names(pat):
                e1.declared.add(nm)
            return bind_pattern(pat, args[i], e1, lambda e2: bind(i + 1, e2))
        return bind(0, en)
    return branching(lambda ts: ts[0], [f], env, k, False, hint, inline=inline)


def pattern_names(pat):
    if pat[0] == "bind":
        return [pat[1]]
    if pat[0] in ("ptuple", "pslice", "por"):
        return [n for q in pat[1] for n in pattern_names(q)]
    if pat[0] == "ptuplestruct":
        return [n for q in pat[2] for n in pattern_names(q)]
    if pat[0] == "pref":
        return pattern_names(pat[1])
    return []


def pure_apply(fval, args, env):
    """the value of a closure application that must be free of effects (used under a Lean `fun`)"""
    out = []

    def kb(v, e2):
        if any(n in e2.vars and e2.vars[n].lean != env.vars[n].lean for n in env.vars):
            raise Untranslatable("closure with effects in an iterator adaptor")
        out.append(v)
        return ""
    apply_fn(fval, args, env, kb, inline=True)
    if len(out) != 1:
        raise Untranslatable("closure with several exits in an iterator adaptor")
    return out[0]


def binder(x, templ):
    return "(%s : %s)" % (x, templ.ty) if templ is not None and templ.ty else x


# ---- loops ------------------------------------------------------------------------------------

def idents(e, acc=None):
    acc = set() if acc is None else acc
    if isinstance(e, tuple):
        if e and e[0] == "path" and len(e[1]) == 1:
            acc.add(e[1][0])
        for x in e[1:]:
            idents(x, acc)
    elif isinstance(e, list):
        for x in e:
            idents(x, acc)
    return acc


def tr_for(e, env, k):
    ctx = env.ctx
    pat, it, body = e[1], e[2], e[3]
    if pat[0] != "bind":
        raise Untranslatable("loop pattern")
    def after_iter(lv, e1):
        if lv.kind == "array":
            def unroll(i, e2):
                if i == len(lv.parts):
                    return k(UNIT, e2)
                eb = e2.copy()
                eb.declared = {pat[1]}
                eb.vars[pat[1]] = lv.parts[i]
                return tr_block(body, eb, lambda v, e3: unroll(i + 1, scope_out(e2, e3)))
            return unroll(0, e1)
        if lv.kind != "list" or lv.inner is None:
            raise Untranslatable("loop over a %s" % lv.kind)
        if R.has_return(body):
            raise Untranslatable("return inside a loop")
        elem = ctx.fresh(pat[1])
        snap = ctx.snap()
        rec = []
        ep = e1.copy()
        ep.vars[pat[1]] = lv.inner.like(elem)
        tr_block(body, ep, lambda v, e2: (rec.append(e2), "")[1])
        ctx.restore(snap)
        ctx.used.add(elem)
        carried = [n for n in e1.vars if any(n in e2.vars and e2.vars[n].lean != e1.vars[n].lean for e2 in rec)]
        carried = [n for n in carried if not n.startswith("@")] + [n for n in carried if n.startswith("@")]
        used = idents(body)
        free = [n for n in e1.vars if n in used and n not in carried and n != pat[1]
                and e1.vars[n].kind not in ("self", "table", "order", "opaque", "hasher")]
        for n in carried + free:
            if e1.vars[n].ty is None:
                raise Untranslatable("loop variable `%s` of unknown type" % n)
        idx = len([a for a in ctx.aux if a[0].startswith(ctx.fd.lean + "_loop")])
        lname = ctx.fd.lean + "_loop" + ("" if idx == 0 else str(idx + 1))
        formal = {n: ctx.fresh(n.lstrip("@")) for n in free + carried}
        rest = ctx.fresh("rest")
        eb = Env(ctx)
        eb.localfns = dict(e1.localfns)
        for n in e1.vars:
            if e1.vars[n].kind in ("self", "table", "order", "opaque"):
                eb.vars[n] = e1.vars[n]
        for n in free + carried:
            eb.vars[n] = e1.vars[n].like(formal[n])
        eb.vars[pat[1]] = lv.inner.like(elem)
        free_args = "".join(" " + formal[n] for n in free)

        def k_end(v, e2):
            return "%s«GAL:%s»%s %s %s" % (lname, lname, free_args, rest, " ".join(par(e2.vars[n].lean) for n in carried))
        saved_ret = ctx.ret_k
        ctx.ret_k = None
        try:
            step = tr_block(body, eb, k_end)
        finally:
            ctx.ret_k = saved_ret
        res_ty = " × ".join(e1.vars[n].ty for n in carried)
        binders = "".join(" (%s : %s)" % (formal[n], e1.vars[n].ty) for n in free)
        sig = "List %s → %s → %s" % (lv.inner.ty, " → ".join(e1.vars[n].ty for n in carried), res_ty)
        cvars = ", ".join(formal[n] for n in carried)
        text = ("def %s«GBL»%s : %s\n  | [], %s => %s\n  | %s :: %s, %s =>\n%s\n"
                % (lname, binders, sig, cvars, tuple_text([formal[n] for n in carried]), elem, rest, cvars, ind(step, 4)))
        ctx.aux.append((lname, text))
        # the call
        newn = [ctx.fresh(n.lstrip("@")) for n in carried]
        e3 = e1.copy()
        for n, nn in zip(carried, newn):
            e3.vars[n] = e1.vars[n].like(nn)
        call = "%s«GAL:%s»%s %s %s" % (lname, lname, "".join(" " + par(e1.vars[n].lean) for n in free), par(lv.lean),
                                  " ".join(par(e1.vars[n].lean) for n in carried))
        return bind_let(newn, call, k(UNIT, e3))
    return tr_expr(it, env, after_iter)


# ---- calls ------------------------------------------------------------------------------------

def tr_call(e, env, k, hint=None):
    ctx = env.ctx
    f = e[1]
    if f[0] != "path":
        raise Untranslatable("call of a non-path")
    segs = f[1]
    name = segs[-1]

    def with_args(vs, e1):
        if name in ("false_ptr", "true_ptr") and not vs:
            return k(mk("ptr", "Ptr.fls" if name == "false_ptr" else "Ptr.tru"), e1)
        if segs == ["BddNode", "new"] and len(vs) == 3:
            if [v.kind for v in vs] != ["nat", "ptr", "ptr"]:
                raise Untranslatable("BddNode::new argument kinds")
            return k(node_val(vs[0].lean, vs[1].lean, vs[2].lean), e1)
        if name in ("Reg", "Compl") and len(vs) == 1 and segs[:-1] in ([], ["BddPtr"]):
            a = vs[0]
            if a.kind not in ("noderef",):
                raise Untranslatable("%s(…) of a %s" % (name, a.kind))
            return k(mk("ptr", a.lean if name == "Reg" else par(a.lean) + ".neg"), e1)
        if segs == ["Literal", "new"] and len(vs) == 2:
            return k(mk("lit", "(Lit.mk %s %s)" % (par(vs[0].lean), par(vs[1].lean))), e1)
        if segs == ["SATSolver", "new"] and len(vs) == 1 and vs[0].kind == "cnf":
            ctx.ghosts.add("S")
            return k(Val("(S.new %s numVars)" % vs[0].lean, "opt", inner=mk("solver", "_")), e1)
        if segs == ["FxHashMap", "default"] and not vs:
            return k(Val("[]", "cache", None, inner=mk("ptr", "_")), e1)
        if segs == ["FxHasher", "default"] and not vs:
            return k(Val("<hasher>", "hasher", fed=[]), e1)
        if segs == ["Some"] and len(vs) == 1:
            return k(Val("(some %s)" % par(vs[0].lean), "opt", opt=("some", vs[0]), inner=vs[0]), e1)
        if segs[0] == "Self" and len(segs) == 2:
            return inline_helper(name, None, vs, e1, k)
        if segs[-1] == "transmute" and len(vs) == 1:
            return k(vs[0], e1)      # only lifetimes are transmuted in this crate
        if len(segs) == 1 and name in e1.vars and e1.vars[name].kind in ("closure", "fnpath"):
            return apply_fn(e1.vars[name], vs, e1, k, hint)
        raise Untranslatable("call of `%s`" % "::".join(segs))
    return tr_args(e[2], env, with_args)


def inline_helper(name, selfval, vs, env, k):
    ctx = env.ctx
    if ctx.inline_depth > 6:
        raise Untranslatable("helper inlining too deep")
    f = ctx.unit.helper(name)
    params = [p for p in f["params"] if p[0] != "self"]
    if len(params) != len(vs):
        raise Untranslatable("helper `%s` arity" % name)
    en = Env(ctx)
    for n, v in env.vars.items():
        if n.startswith("@"):
            en.vars[n] = v
    for (pat, _), v in zip(params, vs):
        if pat[0] != "bind":
            raise Untranslatable("helper parameter pattern")
        en.vars[pat[1]] = v
    saved = ctx.ret_k
    ctx.inline_depth += 1

    def back(v, e2):
        # return to the caller's environment, keeping the threaded implicit state
        out = env.copy()
        for n in e2.vars:
            if n.startswith("@"):
                out.vars[n] = e2.vars[n]
        s2 = ctx.ret_k
        ctx.ret_k = saved
        try:
            return k(v, out)
        finally:
            ctx.ret_k = s2
    ctx.ret_k = back
    try:
        return tr_block(f["body"], en, back)
    finally:
        ctx.ret_k = saved
        ctx.inline_depth -= 1


def call_translated(fd, vs, argexprs, env, k, hint):
    """call of one of the translated functions of the same trait (incl. recursion)"""
    ctx = env.ctx
    if fd.params is None:
        raise Untranslatable("callee `%s` has no readable signature" % fd.rust)
    rust_params = fd.rust_params
    if len(rust_params) != len(vs):
        raise Untranslatable("arity of `%s`" % fd.rust)
    args, refargs, byref_targets = [], [], []
    for (pname, templ, byref), v, ae in zip(rust_params, vs, argexprs):
        if templ[0][1].kind != v.kind and not (templ[0][1].kind == "ptr" and v.kind == "ptr"):
            raise Untranslatable("argument kind %s for parameter `%s` of `%s`" % (v.kind, pname, fd.rust))
        if templ[0][1].kind == "cnf":
            args += [v.lean, "numVars"]
        elif byref:
            refargs.append(par(v.lean))
        else:
            args.append(par(v.lean))
        if byref:
            a = strip_ref(ae)
            if a[0] == "path" and len(a[1]) == 1 and a[1][0] in env.vars:
                byref_targets.append(a[1][0])
            else:
                byref_targets.append(None)   # a temporary
    for g in fd.ghosts:
        ctx.ghosts.add(g)
    recursive = fd is ctx.fd
    fuel_arg = ""
    if fd.recursion and fd.recursion[0] == "fuel":
        if recursive:
            if ctx.fuel_mode == "zero":
                # out of fuel: a dummy result (never reached under the tie theorem's invariant)
                comps = ["Ptr.fls"] + [par(v.lean) for (_, _, byref), v in zip(rust_params, vs) if byref]
                if fd.uses_store:
                    comps.append(env.vars["@t"].lean)
                fuel_arg = None
            else:
                fuel_arg = " " + ctx.fuel_var
        else:
            # the caller supplies the measure: num_vars - level
            lvl = [v for (pname, _, _), v in zip(rust_params, vs) if pname == fd.recursion[1]]
            fuel_arg = " (numVars - %s)" % par(lvl[0].lean)
    args = args + refargs
    if recursive and fd.recursion and fd.recursion[0] == "structural":
        pos = [i for i, (pname, _, _) in enumerate(rust_params) if pname == fd.recursion[1]][0]
        if vs[pos].lean not in ctx.structural_ok:
            ctx.partial = True
    r = ctx.fresh(hint or "r")
    names = [r]
    e2 = env.copy()
    for (pname, templ, byref), tgt in zip([p for p in rust_params if p[2]], byref_targets):
        if tgt is None:
            names.append("_")
        else:
            nn = ctx.fresh(tgt)
            names.append(nn)
            e2.rebind(tgt, env.vars[tgt].like(nn))
    for slot in fd.new_state:
        if slot not in env.vars:
            raise Untranslatable("builder state used where none is threaded")
        n1 = ctx.fresh(fd.new_state[slot][0])
        names.append(n1)
        args = args + [par(env.vars[slot].lean)]
        e2.rebind(slot, env.vars[slot].like(n1))
    if fd.uses_memo:
        if "@memo" not in env.vars:
            raise Untranslatable("scratch memo used where none is threaded")
        m1 = ctx.fresh("memo")
        names.append(m1)
        e2.vars["@memo"] = env.vars["@memo"].like(m1)
        args = args + [par(env.vars["@memo"].lean)]
    if fd.uses_store:
        if "@t" not in env.vars:
            raise Untranslatable("store used where none is threaded")
        t1 = ctx.fresh("t")
        names.append(t1)
        e2.vars["@t"] = env.vars["@t"].like(t1)
    if fuel_arg is None:
        rhs = tuple_text(comps)
    else:
        rhs = "%s%s%s %s%s" % (fd.lean, "«GA:%s»" % fd.rust, fuel_arg, " ".join(args),
                               (" " + env.vars["@t"].lean) if fd.uses_store else "")
    rv = mk("ptr", r)
    if len(names) == 1:
        return bind_let(names, rhs, k(rv, e2))
    return bind_let(names, rhs, k(rv, e2))


def tr_mcall(e, env, k, hint=None):
    ctx = env.ctx
    recv, name, args = e[1], e[2], e[3]

    def with_recv(rv, e0):
        def with_args(vs, e1):
            return dispatch(rv, name, vs, args, recv, e1, k, hint)
        return tr_args(args, e0, with_args)
    return tr_expr(recv, env, with_recv)


def dispatch(rv, name, vs, argexprs, recvexpr, env, k, hint):
    ctx = env.ctx
    kind = rv.kind
    n = len(vs)
    if name in ("clone", "copied", "cloned", "iter", "into_iter", "borrow", "borrow_mut", "as_ptr", "unwrap_unchecked") and n == 0 \
            and kind not in ("self",):
        return k(rv, env)
    if kind == "self":
        if name == "get_or_insert" and n == 1 and ctx.fd.selfkind == "trait":
            if vs[0].kind != "node":
                raise Untranslatable("get_or_insert of a %s" % vs[0].kind)
            ctx.ghosts.add("NS")
            v, lo, hi = node_parts(vs[0])
            r, t1 = ctx.fresh(hint or "r"), ctx.fresh("t")
            e2 = env.copy()
            e2.vars["@t"] = env.vars["@t"].like(t1)
            return bind_let([r, t1], "NS.getOrInsert %s %s %s %s" % (env.vars["@t"].lean, par(v), par(lo), par(hi)), k(mk("ptr", r), e2))
        if name == "order" and n == 0:
            return k(Val("<order>", "order"), env)
        if n == 0 and "@self." + name in env.vars:
            return k(env.vars["@self." + name], env)       # accessor of (new) builder state
        if name in ctx.unit.fds and ctx.fd.selfkind == "trait":
            return call_translated(ctx.unit.fds[name], vs, argexprs, env, k, hint)
        return inline_helper(name, rv, vs, env, k)
    if kind == "order":
        if name == "var_at_level" and n == 1 and vs[0].kind == "nat":
            ctx.ghosts.add("varAt")
            return k(mk("nat", "(varAt %s)" % par(vs[0].lean)), env)
        if name == "lt" and n == 2:
            ctx.ghosts.add("lvl")
            p = "lvl %s < lvl %s" % (par(vs[0].lean), par(vs[1].lean))
            return k(mk("bool", "(decide (%s))" % p, prop=p), env)
    if kind == "solver":
        recv = strip_ref(recvexpr)
        if recv[0] != "path" or len(recv[1]) != 1:
            raise Untranslatable("solver receiver")
        sname = recv[1][0]
        ctx.ghosts.add("S")
        if name == "is_sat" and n == 0:
            return k(mk("bool", "(S.isSat %s)" % rv.lean, prop="S.isSat %s" % rv.lean), env)
        if name == "is_set" and n == 1:
            return k(mk("bool", "(S.isSet %s %s)" % (rv.lean, par(vs[0].lean)), prop="S.isSet %s %s" % (rv.lean, par(vs[0].lean))), env)
        if name == "cur_hash" and n == 0:
            return k(Val("(S.curHash %s)" % rv.lean, "key", "S.κ"), env)
        if name == "difference_iter" and n == 0:
            return k(Val("(S.difference %s)" % rv.lean, "list", "List Lit", inner=mk("lit", "_")), env)
        if name == "pop" and n == 0:
            s1 = ctx.fresh(sname)
            e2 = env.copy()
            e2.rebind(sname, rv.like(s1))
            return bind_let([s1], "S.pop %s" % rv.lean, k(UNIT, e2))
        if name == "decide" and n == 1 and vs[0].kind == "lit":
            d, s1 = ctx.fresh(hint or "d"), ctx.fresh(sname)
            e2 = env.copy()
            e2.rebind(sname, rv.like(s1))
            return bind_let([d, s1], "S.decide %s %s" % (rv.lean, par(vs[0].lean)), k(Val(d, "dresval", "DecideResult"), e2))
    if kind == "array":
        if name == "map" and n == 1:
            def go(i, acc, e1):
                if i == len(rv.parts):
                    return k(Val("[" + ", ".join(v.lean for v in acc) + "]", "array", parts=acc), e1)
                return apply_fn(vs[0], [rv.parts[i]], e1, lambda v, e2: go(i + 1, acc + [v], e2), hint)
            return go(0, [], env)
        if name == "len" and n == 0:
            return k(mk("nat", str(len(rv.parts))), env)
    if kind == "list":
        inner = rv.inner
        if inner is None:
            raise Untranslatable("list of unknown element type")
        x = ctx.fresh("x")
        if name in ("map", "filter", "any", "all", "position", "filter_map", "find") and n == 1:
            r = pure_apply(vs[0], [inner.like(x)], env)
            fn = "(fun %s => %s)" % (binder(x, inner), r.lean)
            if name == "map":
                return k(Val("(List.map %s %s)" % (fn, par(rv.lean)), "list", "List " + par_ty(r.ty) if r.ty else None, inner=r.like("_")), env)
            if r.kind not in ("bool", "opt"):
                raise Untranslatable("predicate of .%s is a %s" % (name, r.kind))
            if name == "filter":
                return k(Val("(List.filter %s %s)" % (fn, par(rv.lean)), "list", rv.ty, inner=inner), env)
            if name == "find":
                return k(Val("(List.find? %s %s)" % (fn, par(rv.lean)), "opt", inner=inner), env)
            if name in ("any", "all"):
                y = "(List.%s %s %s)" % (name, par(rv.lean), fn)
                return k(mk("bool", y), env)
            if name == "position":
                return k(Val("(List.findIdx? %s %s)" % (fn, par(rv.lean)), "opt", inner=mk("nat", "_")), env)
            if name == "filter_map" and r.kind == "opt" and r.inner is not None:
                return k(Val("(List.filterMap %s %s)" % (fn, par(rv.lean)), "list", "List " + par_ty(r.inner.ty) if r.inner.ty else None, inner=r.inner), env)
        if name == "fold" and n == 2:
            acc = ctx.fresh("acc")
            r = pure_apply(vs[1], [vs[0].like(acc), inner.like(x)], env)
            return k(vs[0].like("(List.foldl (fun %s %s => %s) %s %s)" % (binder(acc, vs[0]), binder(x, inner), r.lean, par(vs[0].lean), par(rv.lean))), env)
        if name == "rev" and n == 0:
            return k(Val("(List.reverse %s)" % par(rv.lean), "list", rv.ty, inner=inner), env)
        if name in ("take", "skip") and n == 1 and vs[0].kind == "nat":
            return k(Val("(List.%s %s %s)" % ("take" if name == "take" else "drop", par(vs[0].lean), par(rv.lean)), "list", rv.ty, inner=inner), env)
        if name in ("collect", "to_vec", "peekable") and n == 0:
            return k(rv, env)
        if name in ("count", "len") and n == 0:
            return k(mk("nat", "(List.length %s)" % par(rv.lean)), env)
        if name == "is_empty" and n == 0:
            return k(mk("bool", "(List.isEmpty %s)" % par(rv.lean)), env)
        if name == "enumerate" and n == 0:
            el = tuple_val([mk("nat", "_"), inner], "_")
            p_ = ctx.fresh("p")
            return k(Val("(List.map (fun %s => (%s.2, %s.1)) (List.zipIdx %s))" % (p_, p_, p_, par(rv.lean)), "list",
                         "List " + par_ty(el.ty) if el.ty else None, inner=el), env)
        if name == "zip" and n == 1 and vs[0].kind == "list" and vs[0].inner is not None:
            el = tuple_val([inner, vs[0].inner], "_")
            return k(Val("(List.zip %s %s)" % (par(rv.lean), par(vs[0].lean)), "list", "List " + par_ty(el.ty) if el.ty else None, inner=el), env)
        if name == "chain" and n == 1 and vs[0].kind == "list":
            return k(Val("(%s ++ %s)" % (par(rv.lean), par(vs[0].lean)), "list", rv.ty, inner=inner), env)
    if kind == "cache":
        recv = strip_ref(recvexpr)
        if name == "get" and n == 1:
            return k(Val("(Cache.get %s %s)" % (par(rv.lean), par(vs[0].lean)), "opt", inner=mk("ptr", "_")), env)
        if name == "contains_key" and n == 1:
            return k(mk("bool", "(Cache.get %s %s).isSome" % (par(rv.lean), par(vs[0].lean))), env)
        if name == "len" and n == 0:
            return k(mk("nat", "(List.length %s)" % par(rv.lean)), env)
        if name == "is_empty" and n == 0:
            return k(mk("bool", "(List.isEmpty %s)" % par(rv.lean)), env)
        if name == "clear" and n == 0 and recv[0] == "path" and len(recv[1]) == 1 and recv[1][0] in env.vars:
            e2 = env.copy()
            nv = rv.like("[]")
            e2.rebind(recv[1][0], nv)
            return k(UNIT, e2)
        if name == "insert" and n == 2 and recv[0] == "path" and len(recv[1]) == 1:
            cname = recv[1][0]
            c1 = ctx.fresh(cname)
            e2 = env.copy()
            e2.rebind(cname, rv.like(c1))
            return bind_let([c1], "(%s, %s) :: %s" % (vs[0].lean, vs[1].lean, rv.lean), k(UNIT, e2))
    if kind == "ptr":
        simple = {"is_false": "isFalse", "is_true": "isTrue", "is_neg": "isNeg"}
        if rv.destruct:
            c, v, lo, hi = rv.destruct
            if name == "low_raw" and n == 0:
                return k(mk("ptr", lo), env)
            if name == "high_raw" and n == 0:
                return k(mk("ptr", hi), env)
            if name == "is_neg" and n == 0:
                return k(mk("bool", c), env)
            if name == "low" and n == 0:
                return k(mk("ptr", "(negIf %s %s)" % (c, lo)), env)
            if name == "high" and n == 0:
                return k(mk("ptr", "(negIf %s %s)" % (c, hi)), env)
        if name in simple and n == 0:
            x = "%s.%s" % (par(rv.lean), simple[name])
            return k(mk("bool", x), env)
        if name == "neg" and n == 0:
            return k(mk("ptr", "%s.neg" % par(rv.lean)), env)
        if name in ("scratch", "set_scratch", "clear_scratch") and ctx.memo_mode:
            # some function of the file writes the memo: it is an explicit association list
            if "@memo" not in env.vars:
                raise Untranslatable("scratch memo used where none is threaded")
            memo = env.vars["@memo"]
            keyp = "(Ptr.node false %s %s %s)" % rv.destruct[1:] if rv.destruct else "(scratchKey %s)" % par(rv.lean)
            if name == "scratch" and n == 0:
                return k(Val("(scratchGet %s %s)" % (par(memo.lean), keyp), "opt", inner=mk("ptr", "_")), env)
            if name == "set_scratch" and n == 1 and vs[0].kind == "ptr":
                m1 = ctx.fresh("memo")
                e2 = env.copy()
                e2.vars["@memo"] = memo.like(m1)
                return bind_let([m1], "(%s, %s) :: %s" % (keyp, vs[0].lean, memo.lean), k(UNIT, e2))
            if name == "clear_scratch" and n == 0:
                m1 = ctx.fresh("memo")
                e2 = env.copy()
                e2.vars["@memo"] = memo.like(m1)
                return bind_let([m1], "scratchClear %s %s" % (par(memo.lean), par(rv.lean)), k(UNIT, e2))
        if name == "scratch" and n == 0:
            return k(Val("none", "opt", opt=("none",)), env)     # nobody in the file writes the memo
        if name == "clear_scratch" and n == 0:
            return k(UNIT, env)
        if name == "is_const" and n == 0:
            x = par(rv.lean)
            return k(mk("bool", "(%s.isTrue || %s.isFalse)" % (x, x), prop="(%s.isTrue ∨ %s.isFalse)" % (x, x)), env)
        if name == "var_safe" and n == 0:
            return k(Val("(TieDnnfAux.varSafe %s)" % par(rv.lean), "opt", inner=mk("nat", "_")), env)
    if kind == "lit":
        if name == "polarity" and n == 0:
            return k(mk("bool", "%s.pol" % par(rv.lean)), env)
        if name == "label" and n == 0:
            return k(mk("nat", "%s.var" % par(rv.lean)), env)
    if kind == "cnf":
        if name == "num_vars" and n == 0:
            return k(mk("nat", "numVars"), env)
    if kind == "node":
        if name == "semantic_hash" and n == 2 and ctx.fd.selfkind == "semantic":
            ctx.ghosts.add("semHash")
            return k(mk("hash", "(semHash %s)" % regular_ptr(rv).lean), env)
    if kind == "hash":
        if name == "value" and n == 0:
            return k(rv, env)
        if name == "negate" and n == 0:
            ctx.ghosts.add("negH")
            return k(mk("hash", "(negH %s)" % par(rv.lean)), env)
        if name == "hash" and n == 1 and vs[0].kind == "hasher":
            a = strip_ref(argexprs[0])
            if a[0] != "path" or len(a[1]) != 1:
                raise Untranslatable("hasher argument")
            e2 = env.copy()
            fed = vs[0].fed + [rv]
            e2.vars[a[1][0]] = Val("<hasher %s>" % ",".join(x.lean for x in fed), "hasher", fed=fed)
            return k(UNIT, e2)
    if kind == "hasher":
        if name == "finish" and n == 0:
            if len(rv.fed) != 1:
                raise Untranslatable("hasher fed %d values" % len(rv.fed))
            ctx.ghosts.add("key")
            return k(mk("hash", "(key %s)" % par(rv.fed[0].lean)), env)
    if kind == "table":
        t = env.vars.get("@t")
        if t is None:
            raise Untranslatable("table access without a store")
        if ctx.fd.selfkind == "standard":
            if name == "get_or_insert" and n == 1 and vs[0].kind == "node":
                return k(regular_ptr(vs[0]), env)
        if ctx.fd.selfkind == "semantic":
            if name == "get_by_hash" and n == 1 and vs[0].kind == "hash":
                return k(Val("(TieDnnfAux.tblGetByHash %s %s)" % (t.lean, par(vs[0].lean)), "opt", inner=mk("noderef", "_")), env)
            if name == "get_or_insert_by_hash" and n == 3 and vs[0].kind == "hash" and vs[1].kind == "node" and vs[2].lean == "true":
                r, t1 = ctx.fresh(hint or "r"), ctx.fresh("t")
                e2 = env.copy()
                e2.vars["@t"] = t.like(t1)
                return bind_let([r, t1], "TieDnnfAux.tblGetOrInsertByHash %s %s %s" % (t.lean, par(vs[0].lean), regular_ptr(vs[1]).lean),
                                k(mk("noderef", r), e2))
    if kind == "opt":
        static = rv.opt
        payload = (static[1] if static and static[0] == "some" else rv.inner)
        x = ctx.fresh("x")
        if name in ("map", "and_then") and n == 1:
            if static and static[0] == "none":
                return k(rv, env)
            if payload is None:
                raise Untranslatable("Option of unknown payload")
            if static:
                r = pure_apply(vs[0], [payload], env)
                if name == "and_then":
                    return k(r, env)
                return k(Val("(some %s)" % par(r.lean), "opt", opt=("some", r), inner=r), env)
            r = pure_apply(vs[0], [payload.like(x)], env)
            if name == "map":
                return k(Val("(Option.map (fun %s => %s) %s)" % (binder(x, payload), r.lean, par(rv.lean)), "opt", inner=r.like("_")), env)
            if r.kind != "opt":
                raise Untranslatable("and_then with a non-Option closure")
            return k(Val("(Option.bind %s (fun %s => %s))" % (par(rv.lean), binder(x, payload), r.lean), "opt", inner=r.inner), env)
        if name == "map_or" and n == 2:
            if static and static[0] == "none":
                return k(vs[0], env)
            if payload is None:
                raise Untranslatable("Option of unknown payload")
            if static:
                return k(pure_apply(vs[1], [payload], env), env)
            r = pure_apply(vs[1], [payload.like(x)], env)
            return k(vs[0].like("(Option.elim %s %s (fun %s => %s))" % (par(rv.lean), par(vs[0].lean), binder(x, payload), r.lean)), env)
        if name == "unwrap_or" and n == 1:
            if static:
                return k(vs[0] if static[0] == "none" else static[1], env)
            return k(vs[0].like("(Option.getD %s %s)" % (par(rv.lean), par(vs[0].lean))), env)
        if name in ("unwrap", "expect") and payload is not None:
            if static and static[0] == "some":
                return k(static[1], env)
            return k(payload.like("(Option.getD %s default)" % par(rv.lean)), env)   # `None` panics: outside the precondition
        if name in ("is_some", "is_none") and n == 0:
            if static:
                return k(mk("bool", "true" if (static[0] == "some") == (name == "is_some") else "false"), env)
            return k(mk("bool", "%s.%s" % (par(rv.lean), "isSome" if name == "is_some" else "isNone")), env)
    raise Untranslatable("method `.%s` (%d arguments) on a %s" % (name, n, kind))


# ---------------------------------------------------------------------------------------------
# functions

def translate_fn(unit, fd):
    """-> (text of the definitions, set of ghost names)"""
    f = fd.parsed
    ctx = Ctx(unit, fd)
    ctx.ghosts = set(fd.ghosts)
    ctx.ret_k = None
    ctx.match_ptr_hook = None
    ctx.structural_ok = set()
    ctx.fuel_var = None
    body_toks = f["body_text"]
    ctx.has_set_scratch = "set_scratch" in body_toks
    ctx.memo_mode = getattr(unit, "memo_mode", False)
    env = Env(ctx)
    binders = []
    byref_names = []
    # value parameters in source order, then the `&mut` parameters in source order, then the store
    for pname, templ, byref in sorted(fd.rust_params, key=lambda p: p[2]):
        for n, v in templ:
            ctx.used.add(n)
            binders.append("(%s : %s)" % (n, v.ty))
    for pname, templ, byref in fd.rust_params:
        for n, v in templ:
            env.vars[n] = v
        if byref:
            byref_names.append(pname)
    if fd.selfkind == "ptr":
        ctx.used.add("self_")
        env.vars["self"] = mk("ptr", "self_")
        binders.append("(self_ : Ptr)")
    slot_names = []
    for slot, (nm, rt, templ, desc) in fd.new_state.items():
        if templ is None:
            raise Untranslatable("builder state %s of type `%s` has no counterpart among the model's types" % (desc, rt))
        ctx.used.add(nm)
        v_ = templ.like(nm)
        v_.alias_of = slot
        env.vars[slot] = v_
        binders.append("(%s : %s)" % (nm, templ.ty))
        slot_names.append(slot)
    if fd.uses_memo:
        ctx.used.add("memo")
        env.vars["@memo"] = Val("memo", "memo", "ScratchMemo")
        binders.append("(memo : ScratchMemo)")
    elif fd.memo_entry:
        env.vars["@memo"] = Val("([] : ScratchMemo)", "memo", "ScratchMemo")
    if fd.uses_store:
        ctx.used.add("t")
        env.vars["@t"] = Val("t", "store", fd.store_ty)
        binders.append("(t : %s)" % fd.store_ty)
    ret_ty = [fd.ret[1]] + [env.vars[n].ty for n in byref_names] + [env.vars[n].ty for n in slot_names] + \
        (["ScratchMemo"] if fd.uses_memo else []) + \
        ([fd.store_ty] if fd.uses_store else [])

    def ret_k(v, e2):
        if v.kind is not None and v.kind != fd.ret[0] and not (fd.ret[0] == "ptr" and v.kind == "noderef"):
            raise Untranslatable("function result is a %s" % v.kind)
        comps = [v.lean] + [e2.vars[n].lean for n in byref_names] + [e2.vars[n].lean for n in slot_names] + \
            ([e2.vars["@memo"].lean] if fd.uses_memo else []) + \
            ([e2.vars["@t"].lean] if fd.uses_store else [])
        return tuple_text(comps)
    ctx.ret_k = ret_k
    if fd.recursion and fd.recursion[0] == "structural":
        def hook(name, children):
            if name == fd.recursion[1]:
                ctx.structural_ok.update(children)
        ctx.match_ptr_hook = hook
    fuel_binder = ""
    if fd.recursion and fd.recursion[0] == "fuel":
        ctx.used.add("fuel")
        fuel_binder = " (fuel : Nat)"
        ctx.fuel_mode = "zero"
        snap = ctx.snap()
        b0 = tr_block(f["body"], env.copy(), ret_k)
        aux0 = [a for a in ctx.aux]
        ctx.restore(snap)
        ctx.fuel_mode = "succ"
        ctx.fuel_var = ctx.fresh("fuel'")
        b1 = tr_block(f["body"], env.copy(), ret_k)
        if aux0:
            raise Untranslatable("loop inside a fuel-recursive function")
        body = "match fuel with\n | 0 =>\n%s\n | %s + 1 =>\n%s" % (ind(b0, 4), ctx.fuel_var, ind(b1, 4))
    else:
        body = tr_block(f["body"], env.copy(), ret_k)
    kw = "partial def" if ctx.partial else "def"
    note = ""
    if ctx.partial:
        note = ("-- the recursion of the source is NOT on `low_raw()/high_raw()` of the matched pointer (as the model's is):\n"
                "-- emitted as an opaque `partial def`, so the tie theorem fails\n")
    text = "%s%s %s«GB»%s %s : %s :=\n%s\n" % (note, kw, fd.lean, fuel_binder, " ".join(binders), " × ".join(ret_ty), ind(body))
    return text, ctx.ghosts, list(ctx.aux), ctx.partial, [v_[3] + " : " + v_[1] for v_ in fd.new_state.values()]


def ghost_strings(ghosts):
    gs = [g for g in GHOST_ORDER if g in ghosts]
    return "".join(" " + GHOST_BINDERS[g] for g in gs), "".join(" " + g for g in gs if g != "H")


def prepare(unit):
    """parse the functions of a unit; determine signatures and store usage"""
    errors = {}
    for fd in unit.fds.values():
        try:
            fs = R.find_fns(unit.toks, fd.rust)
            fs = [f for f in fs if f["body"] is not None]
            if len(fs) <= fd.pick:
                raise Untranslatable("function `%s` not found in %s" % (fd.rust, unit.path))
            if len(fs) != 1:
                raise Untranslatable("function `%s` is not unique in %s" % (fd.rust, unit.path))
            f = fs[fd.pick]
            fd.parsed = f
            f["body_text"] = body_text(unit, fd.rust)
            rp = []
            for pat, ty in f["params"]:
                if pat == "self":
                    continue
                if pat[0] != "bind":
                    raise Untranslatable("parameter pattern")
                templ, byref = param_template(pat[1], ty)
                rp.append((pat[1], templ, byref))
            fd.rust_params = rp
            fd.params = rp
        except (Untranslatable, R.ParseError) as e:
            errors[fd.rust] = str(e)
            fd.parsed = None
            fd.params = None
    # NEW BUILDER STATE: `self.<accessor>()` of a body-less accessor returning a reference, or `self.<field>` of a
    # struct field that the mapping table does not know, whose type has a counterpart (a cache, a pointer, a list …):
    # state that outlives the call and that the model has no slot for.  It is threaded (parameter + result component).
    KNOWN_FIELDS = {"compute_table", "order", "map"}

    def new_state_of(txt, depth=0):
        slots = {}
        for m in re.finditer(r"self \. ([a-z_][a-z0-9_]*)( \()?", txt):
            nm, is_call = m.group(1), m.group(2) is not None
            if is_call:
                rt = unit.state_accessor(nm) if nm not in KNOWN_FIELDS else None
                if rt is not None:
                    tt = type_template(nm, rt)
                    slots["@self." + nm] = (nm, rt, tt[0][0][1] if tt and len(tt[0]) == 1 else None, "accessor `%s()`" % nm)
                elif nm not in unit.fds and depth < 3:
                    try:
                        slots.update(new_state_of(body_text(unit, nm), depth + 1))   # inlined helpers
                    except Exception:
                        pass
            elif nm not in KNOWN_FIELDS and nm in unit.struct_fields:
                tt = type_template(nm, unit.struct_fields[nm])
                if tt and len(tt[0]) == 1:
                    slots["@self." + nm] = (nm, unit.struct_fields[nm], tt[0][0][1], "field `%s`" % nm)
        return slots
    for fd in unit.fds.values():
        fd.new_state = new_state_of(fd.parsed["body_text"]) if fd.parsed is not None else {}
    changed = True
    while changed:
        changed = False
        for fd in unit.fds.values():
            if fd.parsed is None:
                continue
            for c in set(re.findall(r"self \. ([a-z_]+) \(", fd.parsed["body_text"])):
                if c in unit.fds and c != fd.rust:
                    for k_, v_ in unit.fds[c].new_state.items():
                        if k_ not in fd.new_state:
                            fd.new_state[k_] = v_
                            changed = True
    # the scratch memo: modelled explicitly (an association list keyed by the regular pointer to the node,
    # threaded like the store) as soon as some function of the unit WRITES it
    unit.memo_mode = any(fd.parsed is not None and "set_scratch" in fd.parsed["body_text"] for fd in unit.fds.values())
    for fd in unit.fds.values():
        txt = fd.parsed["body_text"] if fd.parsed is not None else ""
        fd.uses_memo = unit.memo_mode and (". scratch" in txt or "set_scratch" in txt)
    for fd in unit.fds.values():
        txt = fd.parsed["body_text"] if fd.parsed is not None else ""
        callees = set(re.findall(r"self \. ([a-z_]+) \(", txt))
        fd.memo_entry = unit.memo_mode and not fd.uses_memo and any(c in unit.fds and unit.fds[c].uses_memo for c in callees)
    # store usage: fixpoint over the call graph of the translated functions
    changed = True
    for fd in unit.fds.values():
        fd.uses_store = fd.selfkind in ("standard", "semantic")
    while changed:
        changed = False
        for fd in unit.fds.values():
            if fd.parsed is None or fd.uses_store:
                continue
            txt = fd.parsed["body_text"]
            callees = set(re.findall(r"self \. ([a-z_]+) \(", txt))
            if "get_or_insert" in callees or any(c in unit.fds and unit.fds[c].uses_store for c in callees):
                fd.uses_store = True
                changed = True
    return errors


def body_text(unit, name):
    toks = unit.toks
    for i in range(len(toks) - 1):
        if toks[i] == ("id", "fn") and toks[i + 1] == ("id", name):
            j = i
            while toks[j][1] != "{":
                j += 1
            depth, s = 0, j
            while True:
                if toks[j][1] == "{":
                    depth += 1
                elif toks[j][1] == "}":
                    depth -= 1
                    if depth == 0:
                        break
                j += 1
            return " ".join(x[1] for x in toks[s:j + 1])
    return ""


# ---------------------------------------------------------------------------------------------
# what is translated, and the aliases used when a function leaves the grammar

def descriptors():
    builder = [
        FnDesc("conjoin_implied", "conjoinImplied", ["NS"],
               fallback="def conjoinImplied (NS : NodeStore) (literals : List Lit) (nnf : Ptr) (t : NS.τ) : Ptr × NS.τ :=\n  _root_.TopDown.conjoinImplied NS t literals nnf",
               aux_fallback={"conjoinImplied_loop": "def conjoinImplied_loop (NS : NodeStore) (ls : List Lit) (sub : Ptr) (t : NS.τ) : Ptr × NS.τ :=\n  _root_.TopDown.implyChain NS t ls sub"}),
        FnDesc("topdown_h", "topdownH", ["S", "NS", "varAt"], recursion=("fuel", "level"),
               fallback="def topdownH (S : Solver) (NS : NodeStore) (varAt : Nat → Nat) (fuel : Nat) (cnf : Cnf) (numVars : Nat) (level : Nat) (sat : S.σ) (cache : Cache S.κ) (t : NS.τ) : Ptr × S.σ × Cache S.κ × NS.τ :=\n  _root_.TopDown.topdownH S NS varAt fuel level sat cache t"),
        FnDesc("compile_cnf_topdown", "compileTopdown", ["S", "NS", "varAt"],
               fallback="def compileTopdown (S : Solver) (NS : NodeStore) (varAt : Nat → Nat) (cnf : Cnf) (numVars : Nat) (t : NS.τ) : Ptr × NS.τ :=\n  _root_.TopDown.compileTopdown S NS varAt cnf numVars t",
               aux_fallback={"compileTopdown_loop": "def compileTopdown_loop (NS : NodeStore) (ls : List Lit) (r : Ptr) (t : NS.τ) : Ptr × NS.τ :=\n  _root_.TopDown.implyChain NS t ls r"}),
        FnDesc("cond_helper", "condHelper", ["NS"], recursion=("structural", "bdd"),
               fallback="def condHelper (NS : NodeStore) (bdd : Ptr) (lbl : Nat) (value : Bool) (t : NS.τ) : Ptr × NS.τ :=\n  _root_.TopDown.condHelper NS lbl value bdd t"),
        FnDesc("condition", "condition", ["NS"],
               fallback="def condition (NS : NodeStore) (bdd : Ptr) (lbl : Nat) (value : Bool) (t : NS.τ) : Ptr × NS.τ :=\n  _root_.TopDown.condition NS t bdd lbl value"),
        FnDesc("var", "mkVar", ["NS"],
               fallback="def mkVar (NS : NodeStore) (lbl : Nat) (polarity : Bool) (t : NS.τ) : Ptr × NS.τ :=\n  _root_.TopDown.mkVar NS t lbl polarity"),
    ]
    standard = [
        FnDesc("get_or_insert", "standardGetOrInsert", [], selfkind="standard", store_ty="Unit",
               fallback="def standardGetOrInsert (bdd : Nat × Ptr × Ptr) (t : Unit) : Ptr × Unit :=\n  _root_.TopDown.standardStore.getOrInsert t bdd.1 bdd.2.1 bdd.2.2"),
    ]
    semantic = [
        FnDesc("get_or_insert", "semanticGetOrInsert", ["H", "semHash", "negH", "key"], selfkind="semantic", store_ty="List (H × Ptr)",
               fallback="def semanticGetOrInsert {H : Type} [DecidableEq H] (semHash : Ptr → H) (negH : H → H) (key : H → H) (bdd : Nat × Ptr × Ptr) (t : List (H × Ptr)) : Ptr × List (H × Ptr) :=\n  _root_.TopDown.getOrInsertSemantic semHash negH key t bdd.1 bdd.2.1 bdd.2.2"),
    ]
    def obs(rust, lean, ret, model):
        return FnDesc(rust, lean, [], selfkind="ptr", ret=ret,
                      fallback="def %s (self_ : Ptr) : %s :=\n  %s" % (lean, ret[1], model))
    bool_, ptr_ = ("bool", "Bool"), ("ptr", "Ptr")
    observers = [
        obs("is_neg", "obsIsNeg", bool_, "self_.isNeg"), obs("is_true", "obsIsTrue", bool_, "self_.isTrue"),
        obs("is_false", "obsIsFalse", bool_, "self_.isFalse"), obs("neg", "obsNeg", ptr_, "self_.neg"),
        obs("low_raw", "obsLowRaw", ptr_, "match self_ with | .node _ _ lo _ => lo | _ => default"),
        obs("high_raw", "obsHighRaw", ptr_, "match self_ with | .node _ _ _ hi => hi | _ => default"),
        obs("low", "obsLow", ptr_, "match self_ with | .node c _ lo _ => negIf c lo | _ => default"),
        obs("high", "obsHigh", ptr_, "match self_ with | .node c _ _ hi => negIf c hi | _ => default"),
        obs("var_safe", "obsVarSafe", ("opt", "Option Nat"), "TieDnnfAux.varSafe self_"),
    ]
    return [("src/repr/bdd.rs", observers),
            ("src/builder/decision_nnf/builder.rs", builder),
            ("src/builder/decision_nnf/standard.rs", standard),
            ("src/builder/decision_nnf/semantic.rs", semantic)]


UNTR = "UNTRANSLATED (translator route not available, tied by correspondence only): %s"


def write_if_changed(path, text):
    old = open(path).read() if os.path.exists(path) else None
    if old != text:
        open(path, "w").write(text)


def generate(bad):
    """one pass; `bad`: {status key: reason} of the functions that must fall back (elaboration guard).
    -> (text, status, [(status key, first line, last line)] of the translated blocks)"""
    status = {}
    marks = []   # (key, index into parts)
    TYPE_ALIASES.clear()
    for path, _ in descriptors():
        try:
            TYPE_ALIASES.update(scan_type_aliases(R.lex(open(os.path.join(REPO, path)).read())))
        except Exception:
            pass
    parts = ["import RsddModel.Model.TopDown\nimport RsddModel.Lemmas.TieDnnfAux\n"
             "/-!\n# Generated by tools/gen_dnnf.py from the Rust source — do not edit\n\n"
             "The decision-DNNF builder (`src/builder/decision_nnf/{builder,standard,semantic}.rs`), function by\n"
             "function; compared with the hand-written model `TopDown` in `Props/TieDnnf.lean`.\n-/\n"
             "set_option linter.unusedVariables false\nnamespace Gen.TopDown\nopen Spec Bdd _root_.TopDown\n\n"
             "/-! the scratch memo, used only when some function of the source WRITES it (`set_scratch`): an association\n"
             "list keyed by the regular pointer to the node, most recent first; `clear_scratch` from the root drops it -/\n"
             "abbrev ScratchMemo := List (Ptr × Ptr)\n"
             "def scratchKey : Ptr → Ptr\n  | .node _ v lo hi => .node false v lo hi\n  | p => p\n"
             "def scratchGet (m : ScratchMemo) (k : Ptr) : Option Ptr :=\n  match m.find? (fun e => e.1 == k) with\n  | some e => some e.2\n  | none => none\n"
             "def scratchClear (m : ScratchMemo) (_root : Ptr) : ScratchMemo := []\n"]
    for path, fds in descriptors():
        key = lambda fd: "%s::%s" % (os.path.basename(path)[:-3], fd.rust)
        try:
            unit = Unit_(path, fds)
            errors = prepare(unit)
        except Exception as e:  # unreadable file: every function of it falls back
            for fd in fds:
                parts.append("-- TRANSLATOR ROUTE NOT AVAILABLE (%s)\n" % str(e).replace("\n", " "))
                parts.extend(x + "\n" for x in fd.aux_fallback.values())
                parts.append(fd.fallback + "\n")
                status[key(fd)] = UNTR % e
            continue
        results = {}
        for fd in fds:
            if key(fd) in bad:
                results[fd.rust] = ("err", bad[key(fd)])
                continue
            if fd.rust in errors:
                results[fd.rust] = ("err", errors[fd.rust])
                continue
            try:
                text, ghosts, auxnames, is_partial, newstate = translate_fn(unit, fd)
                results[fd.rust] = ("ok", text, ghosts, auxnames, is_partial, newstate)
            except (Untranslatable, R.ParseError) as e:
                results[fd.rust] = ("err", str(e))
            except Exception as e:  # never crash
                results[fd.rust] = ("err", "internal translator error: %s: %s" % (type(e).__name__, e))
        # ghost parameters: the callee's ghosts are also the caller's (an untranslated callee is its alias, fixed ghosts)
        ghosts_of = {}
        for fd in fds:
            ghosts_of[fd.rust] = set(results[fd.rust][2]) if results[fd.rust][0] == "ok" else set(fd.ghosts)
        changed = True
        while changed:
            changed = False
            for fd in fds:
                if results[fd.rust][0] != "ok":
                    continue
                for callee in re.findall(r"«GA:([a-z_]+)»", results[fd.rust][1] + "".join(at for _, at in results[fd.rust][3])):
                    if not ghosts_of[callee] <= ghosts_of[fd.rust]:
                        ghosts_of[fd.rust] |= ghosts_of[callee]
                        changed = True
        for fd in fds:
            res = results[fd.rust]
            if res[0] == "ok":
                gb, ga = ghost_strings(ghosts_of[fd.rust])
                aux_ghosts = {}
                for an, at in res[3]:
                    g = set()
                    for gname, pat in (("S", r"\bS\."), ("NS", r"\bNS\."), ("varAt", r"\bvarAt\b"), ("lvl", r"\blvl\b"),
                                       ("semHash", r"\bsemHash\b"), ("negH", r"\bnegH\b"), ("key", r"\bkey\b")):
                        if re.search(pat, at):
                            g.add(gname)
                    for callee in re.findall(r"«GA:([a-z_]+)»", at):
                        g |= ghosts_of[callee]
                    if g & {"semHash", "negH", "key"}:
                        g.add("H")
                    aux_ghosts[an] = g
                text = "".join(at.replace("«GBL»", ghost_strings(aux_ghosts[an])[0]) + "\n" for an, at in res[3]) + res[1]
                text = text.replace("«GB»", gb).replace("«GA»", ga)
                text = re.sub(r"«GA:([a-z_]+)»", lambda m: ghost_strings(ghosts_of[m.group(1)])[1], text)
                text = re.sub(r"«GAL:([A-Za-z_0-9]+)»", lambda m: ghost_strings(aux_ghosts[m.group(1)])[1], text)
                if res[5]:
                    # the whole body was read; it takes / returns builder state the model has no slot for
                    why = "; ".join(res[5])
                    parts.append("-- DIFFERS (new state) `%s`: the source was read completely and now takes / returns / keeps builder state\n"
                                 "-- that the hand-written model has no counterpart for (%s).  It cannot be equal to the model definition;\n"
                                 "-- the generated name stays an alias (the build stays green), the status line reports DIFFERS.\n"
                                 "-- What the source says now (state threaded as extra parameter and result component):\n/-\n%s-/\n"
                                 % (fd.rust, why, text.replace("-/", "- /")))
                    parts.extend(x + "\n" for x in fd.aux_fallback.values())
                    parts.append(fd.fallback + "\n")
                    status[key(fd)] = "DIFFERS (new state): " + why
                    continue
                for an, at in fd.aux_fallback.items():
                    if an not in [x for x, _ in res[3]]:
                        parts.append("-- (no loop in the source of `%s`: `%s` is an alias of the model's)\n%s\n" % (fd.rust, an, at))
                marks.append((key(fd), len(parts)))
                parts.append("/-- `%s` (%s) -/\n%s" % (fd.rust, path, text))
                status[key(fd)] = "translated" + (" (recursion is not on the children of the matched pointer: emitted as an opaque `partial def`, the tie fails)" if res[4] else "")
            else:
                why = res[1].replace("\n", " ")
                parts.append("-- TRANSLATOR ROUTE NOT AVAILABLE for `%s` (%s):\n"
                             "-- alias of the hand-written model; tied by the correspondence streams only\n" % (fd.rust, why))
                parts.extend(x + "\n" for x in fd.aux_fallback.values())
                parts.append(fd.fallback + "\n")
                status[key(fd)] = UNTR % why
    parts.append("end Gen.TopDown\n")
    blocks = []
    for k_, idx in marks:
        first = sum(p_.count("\n") + 1 for p_ in parts[:idx]) + 1
        blocks.append((k_, first, first + parts[idx].count("\n")))
    return "\n".join(parts), status, blocks


def elaboration_errors(text):
    """ELABORATION GUARD: elaborate the candidate text once (`lake env lean`, no output files).
    -> {line: message} of the errors, or None when lean could not be run at all"""
    import subprocess, tempfile
    lean_dir = os.path.join(ROOT, "lean")
    tmp = os.path.join(lean_dir, "RsddModel", "Model", ".GenDnnf.candidate.lean")
    try:
        open(tmp, "w").write(text)
        pr = subprocess.run(["lake", "env", "lean", tmp], cwd=lean_dir, stdout=subprocess.PIPE, stderr=subprocess.STDOUT,
                            text=True, timeout=600)
    except Exception:
        return None
    finally:
        try:
            os.remove(tmp)
        except OSError:
            pass
    errs = {}
    for m in re.finditer(r"candidate\.lean:(\d+):\d+: error:?\s*([^\n]*)", pr.stdout):
        errs.setdefault(int(m.group(1)), m.group(2).strip())
    if pr.returncode != 0 and not errs:
        return None
    return errs


def main():
    """translate; when the text differs from the file on disk, elaborate it once and let every
    definition with an elaboration error fall back to its alias (repeat until clean)"""
    bad = {}
    old = open(OUT).read() if os.path.exists(OUT) else None
    for _ in range(8):
        text, status, blocks = generate(bad)
        if text == old or os.environ.get("GEN_DNNF_NO_GUARD"):
            break
        errs = elaboration_errors(text)
        if errs is None:
            break      # lean not runnable here: nothing can be built anyway
        new_bad = {}
        for line, msg in sorted(errs.items()):
            for k_, a, b in blocks:
                if a <= line <= b and k_ not in new_bad:
                    new_bad[k_] = "the translation does not elaborate (line %d of the candidate: %s)" % (line - a + 1, msg[:120])
        if not new_bad:
            break      # clean, or errors outside the generated definitions (imports): not the translator's business
        bad.update(new_bad)
    write_if_changed(OUT, text)
    return status


if __name__ == "__main__":
    for k_, v_ in main().items():
        print(k_, "->", v_)
