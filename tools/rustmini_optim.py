#!/usr/bin/env python3
"""A small parser for the subset of Rust that the translated functions are written in.

(COPY of rustmini.py extended for tools/gen_optim.py: slice patterns `[x, rest @ ..]`, array
expressions `[a, b]` / `[e; n]`, binary `&` `>>` `<<`, compound assignments `>>=` `<<=` `%=` `/=` `&=`,
an assignment as the last statement of a block without `;`, parameter types.)
Extra AST nodes: ("array", [es])  ("repeat", e, n)  ("pslice", [pats])  ("prest", name_or_None)

Used by the translators of the translator route (tools/gen_orders.py, gen_optim.py).  It is
deliberately strict: anything outside the grammar raises `Untranslatable`, which the callers
turn into "translator route not available for this function" (see DESIGN.md 9.7c).

AST (nested tuples):
  expressions
    ("num", "12")                      ("bool", True)            ("path", ["VarLabel", "new"])   ("var", "x")
    ("un", op, e)         op in ! - * &            ("bin", op, a, b)    op in || && == != < <= > >= + - * / % ..
    ("field", e, "name")  ("index", e, i)          ("mcall", recv, "name", [args])   ("call", fn_expr, [args])
    ("cast", e, "usize")  ("tuple", [es])          ("try", e)
    ("if", cond, block, else_block_or_None)        ("iflet", pat, e, block, else_block_or_None)
    ("match", e, [(pat, guard_or_None, expr)])     ("block", [stmts], tail_expr_or_None)
    ("closure", [params], body)        ("struct", name, [(field, e)])    ("macro", name, raw_token_list)
  statements
    ("let", pat, mutable, e)   ("expr", e)   ("assign", op, lhs, rhs)   ("return", e_or_None)
    ("for", pat, iter_e, block)   ("while", cond, block)   ("loop", block)   ("break",)   ("continue",)
  patterns
    ("pwild",)  ("pvar", name)  ("ptuple", [pats])  ("pctor", [path], [pats])  ("plit", e)  ("por", [pats])
    ("pref", pat)  ("pstruct", [path], [(field, pat)])
"""
import re


class Untranslatable(Exception):
    pass


TOK = re.compile(
    r"\s*(>>=|<<=|=>|==|!=|<=|>=|&&|\|\||\+=|-=|\*=|/=|%=|&=|>>|<<|::|\.\.=|\.\.|->|"
    r"[A-Za-z_][A-Za-z0-9_]*|0x[0-9A-Fa-f_]+(?:u8|u16|u32|u64|u128|usize)?|\d[\d_]*(?:\.\d+)?(?:u8|u16|u32|u64|u128|usize|i32|i64|f64|f32)?|"
    r"'[a-z_]+(?!')|\"(?:[^\"\\]|\\.)*\"|[(){}\[\],.!:;=+\-*/%<>&|?#@])")


def strip_comments(s):
    s = re.sub(r"/\*.*?\*/", "", s, flags=re.S)
    return re.sub(r"//[^\n]*", "", s)


def tokenize(s):
    s = strip_comments(s)
    out, i = [], 0
    while i < len(s):
        if s[i].isspace():
            i += 1
            continue
        m = TOK.match(s, i)
        if not m:
            raise Untranslatable("cannot tokenize at: " + s[i:i + 30])
        out.append(m.group(1))
        i = m.end()
    return out


def matching(s, start, open_="{", close="}"):
    depth = 0
    for i in range(start, len(s)):
        if s[i] == open_:
            depth += 1
        elif s[i] == close:
            depth -= 1
            if depth == 0:
                return i
    raise Untranslatable("unbalanced " + open_)


def find_fn(src, name, impl_hint=None):
    """(params_text, body_text) of `fn name`; with `impl_hint` (regex) the search starts at the
    first match of the hint (e.g. r"impl\\s+VarOrder")."""
    src = strip_comments(src)
    start = 0
    if impl_hint:
        m = re.search(impl_hint, src)
        if not m:
            raise Untranslatable("impl block not found: " + impl_hint)
        start = m.end()
    m = re.compile(r"\bfn\s+%s\s*(?:<[^>{(]*(?:<[^>]*>[^>{(]*)*>)?\s*\(" % re.escape(name)).search(src, start)
    if not m:
        raise Untranslatable("fn %s not found" % name)
    p0 = m.end() - 1
    p1 = matching(src, p0, "(", ")")
    b0 = src.index("{", p1)
    # a `where` clause or return type may contain no braces in this code base
    b1 = matching(src, b0)
    return src[p0 + 1:p1], src[b0 + 1:b1]


KEYWORDS = {"let", "if", "else", "match", "return", "for", "while", "loop", "in", "break", "continue", "mut",
            "as", "ref", "fn", "move"}


class Parser:
    def __init__(self, toks):
        self.t, self.i = toks, 0

    # -- helpers
    def peek(self, k=0):
        return self.t[self.i + k] if self.i + k < len(self.t) else None

    def eat(self, x=None):
        tok = self.peek()
        if tok is None or (x is not None and tok != x):
            raise Untranslatable("expected %r, found %r (token %d)" % (x, tok, self.i))
        self.i += 1
        return tok

    def at_end(self):
        return self.i >= len(self.t)

    # -- types (skipped, returned as text)
    def skip_type(self):
        depth, out = 0, []
        while True:
            tok = self.peek()
            if tok is None:
                break
            if tok in ("<", "(", "["):
                depth += 1
            elif tok in (">", ")", "]"):
                if depth == 0:
                    break
                depth -= 1
            elif tok == ">>":
                if depth < 2:
                    break
                depth -= 2
            elif depth == 0 and tok in ("=", ";", ",", "{", "|"):
                break
            out.append(self.eat())
        return " ".join(out)

    # -- patterns
    def pattern(self):
        alts = [self.pattern1()]
        while self.peek() == "|":
            self.eat("|")
            alts.append(self.pattern1())
        return alts[0] if len(alts) == 1 else ("por", alts)

    def pattern1(self):
        tok = self.peek()
        if tok == "_":
            self.eat()
            return ("pwild",)
        if tok == "&":
            self.eat()
            return ("pref", self.pattern1())
        if tok in ("mut", "ref"):
            self.eat()
            return self.pattern1()
        if tok == "..":
            self.eat()
            return ("prest", None)
        if tok == "[":
            self.eat("[")
            ps = []
            while self.peek() != "]":
                ps.append(self.pattern())
                if self.peek() == ",":
                    self.eat(",")
            self.eat("]")
            return ("pslice", ps)
        if tok == "(":
            self.eat("(")
            ps = []
            while self.peek() != ")":
                ps.append(self.pattern())
                if self.peek() == ",":
                    self.eat(",")
            self.eat(")")
            return ("ptuple", ps)
        if tok == "-" or re.match(r"\d", tok or "") or tok in ("true", "false"):
            return ("plit", self.unary())
        if re.match(r"[A-Za-z_]", tok or ""):
            path = [self.eat()]
            while self.peek() == "::":
                self.eat("::")
                path.append(self.eat())
            if self.peek() == "(":
                self.eat("(")
                ps = []
                while self.peek() != ")":
                    ps.append(self.pattern())
                    if self.peek() == ",":
                        self.eat(",")
                self.eat(")")
                return ("pctor", path, ps)
            if self.peek() == "{":
                self.eat("{")
                fs = []
                while self.peek() != "}":
                    if self.peek() == "..":
                        self.eat()
                        break
                    f = self.eat()
                    if self.peek() == ":":
                        self.eat(":")
                        fs.append((f, self.pattern()))
                    else:
                        fs.append((f, ("pvar", f)))
                    if self.peek() == ",":
                        self.eat(",")
                self.eat("}")
                return ("pstruct", path, fs)
            if len(path) == 1 and (path[0][0].islower() or path[0][0] == "_"):
                if self.peek() == "@" and self.peek(1) == "..":
                    self.eat()
                    self.eat()
                    return ("prest", path[0])
                return ("pvar", path[0])
            return ("pctor", path, [])
        raise Untranslatable("pattern starts with %r" % tok)

    # -- expressions (no struct literals where a block may follow: `nostruct`)
    def expr(self, nostruct=False):
        return self.range_(nostruct)

    def range_(self, ns):
        a = self.or_(ns)
        if self.peek() in ("..", "..="):
            op = self.eat()
            if self.peek() in (")", "]", "{", None, ","):
                return ("bin", op, a, None)
            b = self.or_(ns)
            return ("bin", op, a, b)
        return a

    def or_(self, ns):
        a = self.and_(ns)
        while self.peek() == "||":
            self.eat()
            a = ("bin", "||", a, self.and_(ns))
        return a

    def and_(self, ns):
        a = self.cmp(ns)
        while self.peek() == "&&":
            self.eat()
            a = ("bin", "&&", a, self.cmp(ns))
        return a

    def cmp(self, ns):
        a = self.bitand(ns)
        if self.peek() in ("==", "!=", "<", "<=", ">", ">="):
            op = self.eat()
            a = ("bin", op, a, self.bitand(ns))
        return a

    def bitand(self, ns):
        a = self.shift(ns)
        while self.peek() == "&":
            self.eat()
            a = ("bin", "&", a, self.shift(ns))
        return a

    def shift(self, ns):
        a = self.add(ns)
        while self.peek() in (">>", "<<"):
            op = self.eat()
            a = ("bin", op, a, self.add(ns))
        return a

    def add(self, ns):
        a = self.mul(ns)
        while self.peek() in ("+", "-"):
            op = self.eat()
            a = ("bin", op, a, self.mul(ns))
        return a

    def mul(self, ns):
        a = self.cast(ns)
        while self.peek() in ("*", "/", "%"):
            op = self.eat()
            a = ("bin", op, a, self.cast(ns))
        return a

    def cast(self, ns):
        a = self.unary(ns)
        while self.peek() == "as":
            self.eat()
            a = ("cast", a, self.skip_type())
        return a

    def unary(self, ns=False):
        tok = self.peek()
        if tok in ("!", "-", "*"):
            self.eat()
            return ("un", tok, self.unary(ns))
        if tok == "&":
            self.eat()
            if self.peek() == "mut":
                self.eat()
                return ("un", "&mut", self.unary(ns))
            return ("un", "&", self.unary(ns))
        return self.postfix(ns)

    def args(self):
        self.eat("(")
        out = []
        while self.peek() != ")":
            out.append(self.expr())
            if self.peek() == ",":
                self.eat(",")
        self.eat(")")
        return out

    def postfix(self, ns):
        e = self.primary(ns)
        while True:
            tok = self.peek()
            if tok == ".":
                self.eat()
                name = self.eat()
                if self.peek() == "::":      # turbofish
                    self.eat("::")
                    self.eat("<")
                    self.skip_type()
                    self.eat(">")
                if self.peek() == "(":
                    e = ("mcall", e, name, self.args())
                else:
                    e = ("field", e, name)
            elif tok == "(":
                e = ("call", e, self.args())
            elif tok == "[":
                self.eat("[")
                i = self.expr()
                self.eat("]")
                e = ("index", e, i)
            elif tok == "?":
                self.eat()
                e = ("try", e)
            else:
                return e

    def block(self):
        self.eat("{")
        stmts, tail = [], None
        while self.peek() != "}":
            s, is_tail = self.stmt()
            if is_tail:
                tail = s
                break
            stmts.append(s)
        self.eat("}")
        return ("block", stmts, tail)

    def primary(self, ns):
        tok = self.peek()
        if tok is None:
            raise Untranslatable("unexpected end")
        if tok == "(":
            self.eat("(")
            es = []
            trailing = False
            while self.peek() != ")":
                es.append(self.expr())
                trailing = False
                if self.peek() == ",":
                    self.eat(",")
                    trailing = True
            self.eat(")")
            if len(es) == 1 and not trailing:
                return es[0]
            return ("tuple", es)
        if tok == "{":
            return self.block()
        if tok == "[":
            self.eat("[")
            es = []
            while self.peek() != "]":
                es.append(self.expr())
                if self.peek() == ";":
                    self.eat(";")
                    n = self.expr()
                    self.eat("]")
                    return ("repeat", es[0], n)
                if self.peek() == ",":
                    self.eat(",")
            self.eat("]")
            return ("array", es)
        if tok == "if":
            return self.if_()
        if tok == "match":
            self.eat()
            scrut = self.expr(nostruct=True)
            self.eat("{")
            arms = []
            while self.peek() != "}":
                pat = self.pattern()
                guard = None
                if self.peek() == "if":
                    self.eat()
                    guard = self.expr(nostruct=True)
                self.eat("=>")
                body = self.block() if self.peek() == "{" else self.expr()
                if self.peek() == ",":
                    self.eat(",")
                arms.append((pat, guard, body))
            self.eat("}")
            return ("match", scrut, arms)
        if tok == "|" or tok == "||" or tok == "move":
            if tok == "move":
                self.eat()
                tok = self.peek()
            params = []
            if tok == "||":
                self.eat()
            else:
                self.eat("|")
                while self.peek() != "|":
                    params.append(self.pattern1())
                    if self.peek() == ":":
                        self.eat(":")
                        self.skip_type()
                    if self.peek() == ",":
                        self.eat(",")
                self.eat("|")
            return ("closure", params, self.expr())
        if re.match(r"\d", tok):
            self.eat()
            tok = re.sub(r"(u8|u16|u32|u64|u128|usize|i32|i64|f64|f32)$", "", tok).replace("_", "")
            if tok.startswith("0x"):
                tok = str(int(tok, 16))
            return ("num", tok)
        if tok in ("true", "false"):
            self.eat()
            return ("bool", tok == "true")
        if tok.startswith('"'):
            self.eat()
            return ("str", tok)
        if re.match(r"[A-Za-z_]", tok) and tok not in KEYWORDS:
            path = [self.eat()]
            while self.peek() == "::":
                self.eat("::")
                if self.peek() == "<":
                    self.eat("<")
                    self.skip_type()
                    self.eat(">")
                    continue
                path.append(self.eat())
            if self.peek() == "!" and self.peek(1) in ("(", "["):
                self.eat("!")
                op = self.eat()
                cl = ")" if op == "(" else "]"
                depth, raw = 1, []
                while True:
                    t = self.eat()
                    if t == op:
                        depth += 1
                    elif t == cl:
                        depth -= 1
                        if depth == 0:
                            break
                    raw.append(t)
                return ("macro", path[-1], raw)
            if self.peek() == "{" and not ns and path[-1][0].isupper():
                self.eat("{")
                fs = []
                while self.peek() != "}":
                    f = self.eat()
                    if self.peek() == ":":
                        self.eat(":")
                        fs.append((f, self.expr()))
                    else:
                        fs.append((f, ("var", f)))
                    if self.peek() == ",":
                        self.eat(",")
                self.eat("}")
                return ("struct", path[-1], fs)
            if len(path) == 1:
                return ("var", path[0])
            return ("path", path)
        raise Untranslatable("expression starts with %r" % tok)

    def if_(self):
        self.eat("if")
        if self.peek() == "let":
            self.eat()
            pat = self.pattern()
            self.eat("=")
            e = self.expr(nostruct=True)
            then = self.block()
            els = self.else_()
            return ("iflet", pat, e, then, els)
        c = self.expr(nostruct=True)
        then = self.block()
        return ("if", c, then, self.else_())

    def else_(self):
        if self.peek() == "else":
            self.eat()
            if self.peek() == "if":
                return self.if_()
            return self.block()
        return None

    # -- statements: returns (node, is_tail_expression)
    def stmt(self):
        tok = self.peek()
        if tok == "let":
            self.eat()
            mut = False
            if self.peek() == "mut":
                self.eat()
                mut = True
            pat = self.pattern()
            if self.peek() == ":":
                self.eat(":")
                self.skip_type()
            self.eat("=")
            e = self.expr()
            self.eat(";")
            return ("let", pat, mut, e), False
        if tok == "return":
            self.eat()
            e = None if self.peek() in (";", "}") else self.expr()
            if self.peek() == ";":
                self.eat(";")
            return ("return", e), False
        if tok in ("break", "continue"):
            self.eat()
            if self.peek() == ";":
                self.eat(";")
            return (tok,), False
        if tok == "for":
            self.eat()
            pat = self.pattern()
            self.eat("in")
            it = self.expr(nostruct=True)
            return ("for", pat, it, self.block()), False
        if tok == "while":
            self.eat()
            c = self.expr(nostruct=True)
            return ("while", c, self.block()), False
        if tok == "loop":
            self.eat()
            return ("loop", self.block()), False
        if tok in ("if", "match", "{"):
            # a block-like expression at the start of a statement ends the statement (Rust rule)
            e = self.primary(False)
            if self.peek() == "}":
                return e, True
            if self.peek() == ";":
                self.eat(";")
                return ("expr", e), False
            if self.peek() in (".", "?"):
                raise Untranslatable("method call on a block-like expression")
            return ("expr", e), False
        e = self.expr()
        if self.peek() in ("=", "+=", "-=", "*=", "/=", "%=", "&=", ">>=", "<<="):
            op = self.eat()
            rhs = self.expr()
            if self.peek() != "}":
                self.eat(";")
            return ("assign", op, e, rhs), False
        if self.peek() == ";":
            self.eat(";")
            return ("expr", e), False
        if self.peek() == "}":
            return e, True
        if e[0] in ("if", "iflet", "match", "block"):
            return ("expr", e), False
        raise Untranslatable("statement does not end at %r" % self.peek())


def parse_body(text):
    """function body text (without the outer braces) -> ("block", stmts, tail)"""
    p = Parser(tokenize("{" + text + "}"))
    b = p.block()
    if not p.at_end():
        raise Untranslatable("trailing tokens after body")
    return b


def parse_params(text):
    """`&self, a: VarLabel, b: &T` -> ["self", "a", "b"]"""
    names = []
    depth = 0
    cur = ""
    for ch in text + ",":
        if ch in "<([":
            depth += 1
        elif ch in ">)]":
            depth -= 1
        if ch == "," and depth == 0:
            cur = cur.strip()
            if cur:
                nm = cur.split(":")[0].strip()
                nm = re.sub(r"^(&\s*)?('[a-z]+\s+)?(mut\s+)?", "", nm).strip()
                names.append(nm)
            cur = ""
        else:
            cur += ch
    return names


def parse_params_typed(text):
    """`&self, a: VarLabel, b: &T` -> [("self", ""), ("a", "VarLabel"), ("b", "&T")] (types with blanks removed)"""
    out = []
    depth = 0
    cur = ""
    for ch in text + ",":
        if ch in "<([":
            depth += 1
        elif ch in ">)]":
            depth -= 1
        if ch == "," and depth == 0:
            cur = cur.strip()
            if cur:
                parts = cur.split(":", 1)
                nm = re.sub(r"^(&\s*)?('[a-z]+\s+)?(mut\s+)?", "", parts[0].strip()).strip()
                ty = re.sub(r"\s+", "", parts[1]) if len(parts) > 1 else ""
                out.append((nm, ty))
            cur = ""
        else:
            cur += ch
    return out


if __name__ == "__main__":
    import sys, pprint
    src = open(sys.argv[1]).read()
    ps, body = find_fn(src, sys.argv[2], sys.argv[3] if len(sys.argv) > 3 else None)
    print(parse_params(ps))
    pprint.pprint(parse_body(body), width=140)
