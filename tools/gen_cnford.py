#!/usr/bin/env python3
"""Translator route for the order heuristics of src/repr/cnf.rs (`eliminate_node`, `num_fill`,
`Cnf::interaction_graph`, `min_fill_order`, `linear_order`, `average_span`, `center_of_gravity`,
`force_order`): regenerates `lean/RsddModel/Model/GenCnfOrd.lean` from the Rust text on every run;
`Props/TieCnfOrd.lean` proves the regenerated definitions equal to the hand-written model
(`Orders.*`, Model/Orders.lean).

The Rust is parsed by tools/rustmini_cnford.py; every function of `FUNS` is located by name and its
body is translated statement by statement.  A function outside the grammar falls back (that
function only) to an alias of the model definition and is reported UNTRANSLATED.

Elaboration guard: when the generated text is new it is elaborated once (`lake env lean`); a definition with an
error falls back to its alias, status `… does not elaborate`.

Conventions
  * straight-line code is executed symbolically (`let x = e;` is substituted, a mutable local is the
    Lean term of its current value); `if c { effects }` makes every assigned local `if c then new else old`.
  * every loop body becomes its own definition `<fn>_loop<k>` (lambda lifting: its parameters are the
    enclosing binders it mentions, the loop variable(s), and the state = tuple of the mutable locals
    assigned in the body in order of first assignment).  The loop itself is
      for i in a..b        ↦ forRange a b (fun i s => <fn>_loopk … i s) init        (OrdersExtra.forRange)
      for x in it          ↦ List.foldl (fun s x => <fn>_loopk … x s) init it
      for (i, x) in it.enumerate() ↦ Tr.forEnum it init (fun i x s => <fn>_loopk … i x s)
      while c { body }     ↦ Tr.whileFuel FUEL (fun s => c) (fun s => <fn>_loopk … s) init
      loop { body; if c { break; } } (break last) ↦ Tr.loopFuel fuel (fun s => <fn>_loopk … s) (fun s => c) init : Option
    FUEL of a `while` is the Rust expression in the column `fuel` of `FUNS`, evaluated at loop entry (trusted);
    the fuel of `loop` is an extra parameter of the generated function, as in the model.
  * `&self` of `Cnf` is the pair of parameters `(cs : Spec.Cnf) (numVars : Nat)` (fields `clauses`, `num_vars`).
  * `f64` is the abstract key type `K` with `(ops : ForceOps K)` as in the model.

Mapping table (trusted, kept small)
  VarLabel, NodeIndex, usize, u64      ↦ Nat  (`VarLabel::new(e)`, `new_usize`, `NodeIndex::new(e)`, `.value()`, `.value_usize()`,
                                               `as usize/u64`, `&`, `*`, `.iter()`, `.into_iter()`, `.collect()`, `.clone()` are identities)
  lit.label()                          ↦ lit.var
  UnGraph::new_undirected()            ↦ { nodes := [], edges := [] }      g.add_node(w) ↦ g.addNode w
  g.add_edge(a, b, ()) ↦ g.addEdge a b    g.remove_node(v) ↦ g.removeNode v    g.node_count() ↦ g.nodes.length
  g.contains_edge(a, b), g.find_edge(a, b).is_some() ↦ g.hasEdge a b      g.find_edge(a, b).is_none() ↦ !g.hasEdge a b
  g.neighbors_undirected(v)            ↦ g.neighbors v      g.node_indices() ↦ List.range g.nodes.length     g[idx] ↦ g.nodes.getD idx 0
      (the petgraph semantics of these - neighbour order, swap-remove - is the hand-written `Orders.UnGraph`, tied by differential testing)
  v[i] ↦ v.getD i d (d = 0 / default / ops.zero / (ops.zero, 0) by element type)     v[i] = e ↦ v.set i e     v.push(e) ↦ v ++ [e]
  v.len() ↦ v.length     Vec::new(), Vec::with_capacity(n) ↦ []     (a..b).collect() ↦ List.range' a (b - a)
  it.map(|x| e) ↦ it.map (fun x => e)     it.zip(a..b) ↦ it.zip (List.range' a (b - a))     it.fold(i, |acc, x| e) ↦ it.foldl (fun acc x => e) i
  it.enumerate() ↦ Tr.enumerate it (pairs (index, x))    it.filter(p) ↦ it.filter p    it.any/all(p) ↦ it.any/all p    it.rev() ↦ it.reverse
  it.take(n)/skip(n) ↦ it.take n / it.drop n    it.position(p) ↦ it.findIdx? p    it.zip(other) ↦ it.zip other    it.min_by_key(k) ↦ Tr.minBy on the keys
  o.map(f) ↦ o.map f    o.and_then(f) ↦ o.bind f    o.unwrap_or(d) ↦ o.getD d    o.map_or(d, f) ↦ o.elim d f    (closures may use nested tuple patterns)
  it.min_by(|p, q| c) ↦ Tr.minBy (fun p q => c) it  (first minimum)      a.cmp(b) ↦ compare a b      o.unwrap() ↦ o.getD default
  v.sort_by(|(c1, _), (c2, _)| c1.partial_cmp(c2).unwrap()) ↦ stableSort (fun a b => ops.le a.1 b.1) v   (stable; `ops.le a b` = "not Greater")
  min(a, b), max(a, b) ↦ min a b, max a b      usize `a - b` ↦ Nat subtraction (the Rust underflow panics in debug builds)
  f64: e as f64 ↦ ops.ofNat e    0.0 / 1.0 ↦ ops.zero / ops.one    + - / ↦ ops.add/sub/div    a < b ↦ ops.lt a b
  VarOrder::new(&v) ↦ VarOrder.new v      VarOrder::linear_order(n) ↦ VarOrder.linear n     (tied to the Rust by gen_orders.py)
  debug_assert!(..) ↦ skipped (release build)
"""
import os, re, sys

sys.path.insert(0, os.path.dirname(os.path.abspath(__file__)))
from rustmini_cnford import Untranslatable, Parser, find_fn, parse_body, parse_params  # noqa: E402

ROOT = os.path.dirname(os.path.dirname(os.path.abspath(__file__)))
REPO = os.environ.get("VERIF_REPO", "/repo")
OUT = os.path.join(ROOT, "lean", "RsddModel", "Model", "GenCnfOrd.lean")
CNF_RS = "src/repr/cnf.rs"
IMPL_CNF = r"impl\s+Cnf\s*\{"

NAT, BOOL, G, LNAT, K = "Nat", "Bool", "UnGraph", "List Nat", "K"
RUST_TY = {"f64": K, "usize": NAT, "u64": NAT, "Vec < f64 >": "List K", "Vec < usize >": LNAT, "Vec < VarLabel >": LNAT,
           "Vec < NodeIndex >": LNAT, "Vec < ( f64 , usize ) >": "List (K × Nat)", "UnGraph < VarLabel , ( ) >": G}


class Fn:
    def __init__(self, rust, lean, impl, params, ret, model, fuel=None, uses_ops=False, mut=None, extra=None):
        self.rust, self.lean, self.impl, self.params, self.ret, self.model = rust, lean, impl, params, ret, model
        self.fuel, self.uses_ops, self.mut, self.extra = fuel, uses_ops, mut, extra or []
        self.key = ("Cnf::" if impl else "") + rust


# rust name, lean name, impl hint, Lean types of the Rust parameters (`self` of Cnf = two Lean parameters), result type,
# model definition (alias fallback)
FUNS = [
    Fn("eliminate_node", "eliminateNode", None, [G, NAT], G, "Orders.eliminateNode", mut=0),
    Fn("num_fill", "numFill", None, [G, NAT], NAT, "Orders.numFill"),
    Fn("interaction_graph", "interactionGraph", IMPL_CNF, ["self"], G, "Orders.interactionGraph"),
    Fn("min_fill_order", "minFillOrder", IMPL_CNF, ["self"], "VarOrder", "Orders.minFillOrder", fuel="ig.node_count()"),
    Fn("linear_order", "linearOrder", IMPL_CNF, ["self"], "VarOrder", "fun (_ : Spec.Cnf) (n : Nat) => Orders.linearOrder n"),
    Fn("average_span", "averageSpan", IMPL_CNF, ["self", LNAT], K, "fun {K : Type} (ops : ForceOps K) (cs : Spec.Cnf) (_ : Nat) (l : List Nat) => Orders.averageSpan ops cs l",
       uses_ops=True),
    Fn("center_of_gravity", "centerOfGravity", IMPL_CNF, ["self", "Spec.Clause", LNAT], K,
       "fun {K : Type} (ops : ForceOps K) (_ : Spec.Cnf) (_ : Nat) (c : Spec.Clause) (l : List Nat) => Orders.centerOfGravity ops c l", uses_ops=True),
    Fn("force_order", "forceOrder", IMPL_CNF, ["self"], "Option VarOrder",
       "fun {K : Type} (ops : ForceOps K) (cs : Spec.Cnf) (numVars : Nat) (fuel : Nat) => Orders.forceOrder ops cs numVars fuel",
       uses_ops=True, extra=[("fuel", NAT)]),
]
BYNAME = {f.rust: f for f in FUNS}


def balanced_parens(s):
    d = 0
    for ch in s:
        if ch in "([{":
            d += 1
        elif ch in ")]}":
            d -= 1
            if d < 0:
                return False
    return d == 0


def paren(e):
    if re.match(r"^[A-Za-z0-9_.'?]+$", e):
        return e
    if e[0] in "([{" and e[-1] in ")]}" and balanced_parens(e[1:-1]):
        return e
    return "(" + e + ")"


def elem(ty):
    if ty == "Spec.Cnf":
        return "Spec.Clause"
    if ty == "Spec.Clause":
        return "Spec.Lit"
    if ty and ty.startswith("List "):
        t = ty[5:]
        return t[1:-1] if t.startswith("(") and t.endswith(")") else t
    return None


def listof(t):
    return "List " + (t if re.match(r"^[A-Za-z.]+$", t) else "(" + t + ")")


def pair_parts(ty):
    """'A × B' -> (A, B) at top level"""
    if not ty:
        return None
    d = 0
    for i, ch in enumerate(ty):
        if ch == "(":
            d += 1
        elif ch == ")":
            d -= 1
        elif ch == "×" and d == 0:
            a, b = ty[:i].strip(), ty[i + 1:].strip()
            strip = lambda t: t[1:-1] if t.startswith("(") and t.endswith(")") and balanced_parens(t[1:-1]) else t  # noqa: E731
            return strip(a), strip(b)
    return None


def default_of(ty):
    return {NAT: "0", K: "ops.zero", "K × Nat": "(ops.zero, 0)"}.get(ty, "default")


UNINIT = "<uninitialised>"


def loop_muts(cx, body):
    """locals of the enclosing scope assigned in a loop body = the loop state; a local declared without a value
    (`let mut x;`) whose first top-level mention in the body is `x = e;` is local to the iteration"""
    out = []
    for m in assigned_in(body[1], body[2]):
        if m not in cx.env:
            continue
        if cx.env[m][0] == UNINIT:
            first = None
            for st in body[1]:
                if re.search(r"'%s'" % re.escape(m), repr(st)):
                    first = st
                    break
            if first is not None and first[0] == "assign" and first[1] == "=" and first[2] == ("var", m) \
                    and not re.search(r"'%s'" % re.escape(m), repr(first[3])):
                continue
            raise Untranslatable("uninitialised local %s carried through a loop" % m)
        out.append(m)
    return out


class Cx:
    def __init__(self, fn, shared):
        self.fn = fn
        self.env = {}          # rust name -> (lean term, lean type)
        self.scope = []        # Lean binders in scope: (name, type)
        self.sh = shared       # {"defs": [...], "n": counter, "uses_ops": bool}
        self.loop = None       # kind of the innermost loop being translated ("for" / "while" / "loop")

    def sub(self):
        c = Cx(self.fn, self.sh)
        c.env, c.scope, c.loop = dict(self.env), list(self.scope), self.loop
        return c


def strip_refs(a):
    while a[0] == "un" and a[1] in ("&", "*"):
        a = a[2]
    return a


def is_self(a):
    return strip_refs(a) == ("var", "self")


def closure(cl, cx, argtys):
    """closure -> (lean lambda term, result type); tuple patterns become projections"""
    if cl[0] != "closure" or len(cl[1]) != len(argtys):
        raise Untranslatable("closure shape")
    sub = cx.sub()
    names = []
    for k, (pat, ty) in enumerate(zip(cl[1], argtys)):
        while pat[0] == "pref":
            pat = pat[1]
        if pat[0] == "pvar":
            nm = pat[1]
            sub.env[nm] = (nm, ty)
        elif pat[0] == "pwild":
            nm = "_"
        elif pat[0] == "ptuple" and len(pat[1]) == 2:
            nm = "p%d_" % (cx.sh["n"] + k)

            def bind(q, term, t):
                while q[0] == "pref":
                    q = q[1]
                if q[0] == "pvar":
                    sub.env[q[1]] = (term, t)
                elif q[0] == "ptuple" and len(q[1]) == 2:
                    parts = pair_parts(t) or (None, None)
                    bind(q[1][0], term + ".1", parts[0])
                    bind(q[1][1], term + ".2", parts[1])
                elif q[0] != "pwild":
                    raise Untranslatable("closure pattern")

            bind(pat, nm, ty)
        else:
            raise Untranslatable("closure pattern")
        names.append((nm, ty))
        sub.scope.append((nm, ty))
    cx.sh["n"] += len(cl[1])
    body = cl[2]
    if body[0] == "block":
        t, ty = block_value(body, sub)
    else:
        t, ty = E(body, sub)
    bind = " ".join("(%s : %s)" % (n, t_) if t_ else n for n, t_ in names)
    return "fun %s => %s" % (bind, t), ty


def E(a, cx):
    """expression -> (Lean term, Lean type or None)"""
    k = a[0]
    if k == "num":
        if a[1] in ("0.0", "1.0"):
            cx.sh["uses_ops"] = True
            return ("ops.zero" if a[1] == "0.0" else "ops.one"), K
        if "." in a[1]:
            raise Untranslatable("float literal " + a[1])
        return a[1], NAT
    if k == "bool":
        return ("true" if a[1] else "false"), BOOL
    if k == "var":
        if a[1] in cx.env:
            if cx.env[a[1]][0] == UNINIT:
                raise Untranslatable("read of the uninitialised local " + a[1])
            return cx.env[a[1]]
        raise Untranslatable("unknown local %r" % a[1])
    if k == "un" and a[1] in ("*", "&"):
        return E(a[2], cx)
    if k == "un" and a[1] == "!":
        t, _ = E(a[2], cx)
        return "!" + paren(t), BOOL
    if k == "cast":
        t, ty = E(a[1], cx)
        tgt = a[2].strip()
        if tgt in ("usize", "u64", "u32") and ty in (NAT, None):
            return t, NAT
        if tgt == "f64" and ty == NAT:
            cx.sh["uses_ops"] = True
            return "ops.ofNat %s" % paren(t), K
        raise Untranslatable("cast of %s to %s" % (ty, tgt))
    if k == "tuple":
        if not a[1]:
            return "()", "Unit"
        parts = [E(x, cx) for x in a[1]]
        if len(parts) != 2:
            raise Untranslatable("tuple arity")
        return "(%s, %s)" % (parts[0][0], parts[1][0]), "%s × %s" % (parts[0][1], parts[1][1])
    if k == "field":
        if is_self(a[1]) and cx.fn.impl:
            if a[2] == "num_vars":
                return "numVars", NAT
            if a[2] == "clauses":
                return "cs", "Spec.Cnf"
        raise Untranslatable("field ." + a[2])
    if k == "index":
        v, vt = E(a[1], cx)
        i, _ = E(a[2], cx)
        if vt == G:
            return "%s.nodes.getD %s 0" % (paren(v), paren(i)), NAT
        et = elem(vt)
        if et is None:
            raise Untranslatable("indexing a value of unknown type")
        return "List.getD %s %s %s" % (paren(v), paren(i), default_of(et)), et
    if k == "bin":
        op = a[1]
        if op == "..":
            raise Untranslatable("range in value position")
        l, lt = E(a[2], cx)
        r, rt = E(a[3], cx)
        if op in ("+", "-", "*", "/"):
            if lt == K or rt == K:
                if lt != K or rt != K or op == "*":
                    raise Untranslatable("mixed arithmetic")
                cx.sh["uses_ops"] = True
                return "ops.%s %s %s" % ({"+": "add", "-": "sub", "/": "div"}[op], paren(l), paren(r)), K
            return "%s %s %s" % (paren(l), op, paren(r)), NAT
        if op in ("<", "<=", ">", ">=", "==", "!="):
            if lt == K or rt == K:
                if op != "<" or lt != K or rt != K:
                    raise Untranslatable("float comparison " + op)
                cx.sh["uses_ops"] = True
                return "ops.lt %s %s" % (paren(l), paren(r)), BOOL
            lop = {"<": "<", "<=": "≤", ">": ">", ">=": "≥", "==": "=", "!=": "≠"}[op]
            return "decide (%s %s %s)" % (paren(l), lop, paren(r)), BOOL
        if op in ("&&", "||"):
            return "%s %s %s" % (paren(l), op, paren(r)), BOOL
        raise Untranslatable("operator " + op)
    if k == "if":
        c, _ = E(a[1], cx)
        if a[3] is None:
            raise Untranslatable("if without else in value position")
        t, tt = block_value(a[2], cx.sub())
        e, et = block_value(a[3], cx.sub()) if a[3][0] == "block" else E(a[3], cx)
        return "if %s then %s else %s" % (c, t, e), tt or et
    if k == "block":
        return block_value(a, cx.sub())
    if k == "call":
        return E_call(a, cx)
    if k == "mcall":
        return E_mcall(a, cx)
    raise Untranslatable("expression kind " + k)


def block_value(b, cx):
    S(b[1], cx)
    if b[2] is None:
        raise Untranslatable("block without value")
    return E(b[2], cx)


def self_args(cx):
    return "cs numVars"


def call_gen(g, args, cx):
    pre = "ops " if g.uses_ops else ""
    if g.uses_ops:
        cx.sh["uses_ops"] = True
    return "%s %s%s" % (g.lean, pre, " ".join(paren(x) for x in args))


def E_call(a, cx):
    f, args = a[1], a[2]
    if f[0] == "path":
        p = f[1]
        if p in (["VarLabel", "new"], ["VarLabel", "new_usize"], ["NodeIndex", "new"]) and len(args) == 1:
            t, _ = E(args[0], cx)
            return t, NAT
        if p in (["Vec", "new"],) and not args:
            return "[]", None
        if p == ["Vec", "with_capacity"] and len(args) == 1:
            return "[]", None
        if p == ["UnGraph", "new_undirected"] and not args:
            return "({ nodes := [], edges := [] } : UnGraph)", G
        if p == ["VarOrder", "new"] and len(args) == 1:
            return "VarOrder.new %s" % paren(E(args[0], cx)[0]), "VarOrder"
        if p == ["VarOrder", "linear_order"] and len(args) == 1:
            return "VarOrder.linear %s" % paren(E(args[0], cx)[0]), "VarOrder"
        raise Untranslatable("call of %s" % "::".join(p))
    if f[0] == "var":
        if f[1] in ("min", "max") and len(args) == 2:
            return "%s %s %s" % (f[1], paren(E(args[0], cx)[0]), paren(E(args[1], cx)[0])), NAT
        g = BYNAME.get(f[1])
        if g is not None and g.impl is None and g.mut is None:
            return call_gen(g, [E(x, cx)[0] for x in args], cx), g.ret
        raise Untranslatable("call of " + f[1])
    raise Untranslatable("call")


IDENT = ("iter", "into_iter", "collect", "clone", "value", "value_usize", "copied", "cloned", "to_vec")


def E_mcall(a, cx):
    recv, name, args = a[1], a[2], a[3]
    r0 = strip_refs(recv)
    if name in IDENT and not args:
        if r0[0] == "bin" and r0[1] == ".." and r0[3] is not None:      # (a..b).collect()
            lo, hi = E(r0[2], cx)[0], E(r0[3], cx)[0]
            return "List.range' %s (%s - %s)" % (paren(lo), paren(hi), paren(lo)), LNAT
        return E(recv, cx)
    if is_self(recv) and cx.fn.impl:
        g = BYNAME.get(name)
        if g is not None and g.impl and g.mut is None and not g.extra:
            return call_gen(g, ["cs", "numVars"] + [E(x, cx)[0] for x in args], cx), g.ret
        if name == "num_vars" and not args:
            return "numVars", NAT
        if name == "clauses" and not args:
            return "cs", "Spec.Cnf"
        raise Untranslatable("method self." + name)
    if name in ("is_none", "is_some") and not args and r0[0] == "mcall" and r0[2] == "find_edge" and len(r0[3]) == 2:
        g, gt = E(r0[1], cx)
        if gt != G:
            raise Untranslatable("find_edge on a non-graph")
        t = "UnGraph.hasEdge %s %s %s" % (paren(g), paren(E(r0[3][0], cx)[0]), paren(E(r0[3][1], cx)[0]))
        return (t if name == "is_some" else "!(%s)" % t), BOOL
    t, ty = E(recv, cx)
    if ty == G:
        if name == "contains_edge" and len(args) == 2:
            return "UnGraph.hasEdge %s %s %s" % (paren(t), paren(E(args[0], cx)[0]), paren(E(args[1], cx)[0])), BOOL
        if name == "neighbors_undirected" and len(args) == 1:
            return "UnGraph.neighbors %s %s" % (paren(t), paren(E(args[0], cx)[0])), LNAT
        if name == "node_count" and not args:
            return "%s.nodes.length" % paren(t), NAT
        if name == "node_indices" and not args:
            return "List.range %s.nodes.length" % paren(t), LNAT
        raise Untranslatable("graph method ." + name)
    if name == "len" and not args:
        return "List.length %s" % paren(t), NAT
    if name == "label" and not args and ty == "Spec.Lit":
        return "Spec.Lit.var %s" % paren(t), NAT
    if ty and ty.startswith("Option "):
        inner = ty[7:]
        inner = inner[1:-1] if inner.startswith("(") and inner.endswith(")") else inner
        if name == "map" and len(args) == 1:
            lam, rt = closure(args[0], cx, [inner])
            return "Option.map (%s) %s" % (lam, paren(t)), ("Option (%s)" % rt if rt else None)
        if name == "and_then" and len(args) == 1:
            lam, rt = closure(args[0], cx, [inner])
            return "Option.bind %s (%s)" % (paren(t), lam), rt
        if name == "unwrap_or" and len(args) == 1:
            return "Option.getD %s %s" % (paren(t), paren(E(args[0], cx)[0])), inner
        if name == "map_or" and len(args) == 2:
            lam, rt = closure(args[1], cx, [inner])
            return "Option.elim %s %s (%s)" % (paren(t), paren(E(args[0], cx)[0]), lam), rt
        if name in ("is_some", "is_none") and not args:
            return "Option.%s %s" % ("isSome" if name == "is_some" else "isNone", paren(t)), BOOL
    if name == "map" and len(args) == 1:
        lam, rt = closure(args[0], cx, [elem(ty)])
        return "List.map (%s) %s" % (lam, paren(t)), (listof(rt) if rt else None)
    if name == "enumerate" and not args and elem(ty):
        return "Tr.enumerate %s" % paren(t), listof("Nat × %s" % (elem(ty) if "×" not in elem(ty) else "(" + elem(ty) + ")"))
    if name == "filter" and len(args) == 1 and elem(ty):
        lam, _ = closure(args[0], cx, [elem(ty)])
        return "List.filter (%s) %s" % (lam, paren(t)), ty
    if name in ("any", "all") and len(args) == 1 and elem(ty):
        lam, _ = closure(args[0], cx, [elem(ty)])
        return "List.%s %s (%s)" % (name, paren(t), lam), BOOL
    if name == "position" and len(args) == 1 and elem(ty):
        lam, _ = closure(args[0], cx, [elem(ty)])
        return "List.findIdx? (%s) %s" % (lam, paren(t)), "Option Nat"
    if name == "rev" and not args and elem(ty):
        return "List.reverse %s" % paren(t), ty
    if name in ("take", "skip") and len(args) == 1 and elem(ty):
        return "List.%s %s %s" % ("take" if name == "take" else "drop", paren(E(args[0], cx)[0]), paren(t)), ty
    if name in ("min_by_key", "max_by_key") and len(args) == 1 and elem(ty):
        lam, kt = closure(args[0], cx, [elem(ty)])
        if kt != NAT:
            raise Untranslatable(name + " with a non-usize key")
        cmp = "compare (k_ p) (k_ q)" if name == "min_by_key" else "compare (k_ q) (k_ p)"
        # max_by_key returns the LAST maximum: not the mirror image of min_by_key
        if name == "max_by_key":
            raise Untranslatable("max_by_key (last maximum) is not in the mapping table")
        return "(let k_ := %s; Tr.minBy (fun p q => %s) %s)" % (lam, cmp, paren(t)), "Option (%s)" % elem(ty)
    if name == "zip" and len(args) == 1:
        z = strip_refs(args[0])
        if z[0] == "bin" and z[1] == ".." and z[3] is not None:
            lo, hi = E(z[2], cx)[0], E(z[3], cx)[0]
            return "List.zip %s (List.range' %s (%s - %s))" % (paren(t), paren(lo), paren(hi), paren(lo)), \
                listof("%s × Nat" % elem(ty))
        z_t, z_ty = E(args[0], cx)
        if elem(z_ty) and elem(ty):
            return "List.zip %s %s" % (paren(t), paren(z_t)), listof("%s × %s" % (elem(ty), elem(z_ty)))
        raise Untranslatable("zip with a value of unknown type")
    if name == "fold" and len(args) == 2:
        i, it = E(args[0], cx)
        lam, _ = closure(args[1], cx, [it, elem(ty)])
        return "List.foldl (%s) %s %s" % (lam, paren(i), paren(t)), it
    if name == "min_by" and len(args) == 1:
        et = elem(ty)
        lam, _ = closure(args[0], cx, [et, et])
        return "Tr.minBy (%s) %s" % (lam, paren(t)), "Option (%s)" % et
    if name == "cmp" and len(args) == 1 and ty == NAT:
        return "compare %s %s" % (paren(t), paren(E(args[0], cx)[0])), "Ordering"
    if name == "unwrap" and not args and ty and ty.startswith("Option "):
        inner = ty[7:]
        inner = inner[1:-1] if inner.startswith("(") else inner
        return "Option.getD %s default" % paren(t), inner
    raise Untranslatable("method .%s on %s" % (name, ty))


# ---------------------------------------------------------------- statements

def lhs_root(e):
    e = strip_refs(e)
    while e[0] == "index":
        e = strip_refs(e[1])
    if e[0] == "var":
        return e[1]
    raise Untranslatable("assignment target")


MUT_METHODS = ("push", "add_node", "add_edge", "remove_node", "sort_by")


def assigned_in(stmts, tail=None):
    out = []

    def add(n):
        if n not in out:
            out.append(n)

    def ex(e):
        if e is None:
            return
        if e[0] == "mcall" and e[2] in MUT_METHODS:
            try:
                add(lhs_root(e[1]))
            except Untranslatable:
                pass
        elif e[0] == "call" and e[1][0] == "var" and e[1][1] in BYNAME and BYNAME[e[1][1]].mut is not None:
            add(lhs_root(e[2][BYNAME[e[1][1]].mut]))
        elif e[0] in ("if",):
            walk(e[2][1], e[2][2])
            if e[3] is not None and e[3][0] == "block":
                walk(e[3][1], e[3][2])
        elif e[0] == "block":
            walk(e[1], e[2])

    def walk(ss, tl):
        for s in ss:
            if s[0] == "assign":
                add(lhs_root(s[2]))
            elif s[0] == "expr":
                ex(s[1])
            elif s[0] in ("for",):
                walk(s[3][1], s[3][2])
            elif s[0] == "while":
                walk(s[2][1], s[2][2])
            elif s[0] == "loop":
                walk(s[1][1], s[1][2])
        ex(tl)

    walk(stmts, tail)
    return out


def effect(e, cx):
    """expression statement with an effect; returns False if `e` is not one"""
    if e[0] == "mcall" and e[2] in MUT_METHODS:
        root = lhs_root(e[1])
        if strip_refs(e[1])[0] != "var" or root not in cx.env:
            raise Untranslatable("effect on a non-local")
        cur, ty = cx.env[root]
        name, args = e[2], e[3]
        if name == "push" and len(args) == 1:
            x, xt = E(args[0], cx)
            cx.env[root] = ("(%s ++ [%s])" % (paren(cur), x), ty or (listof(xt) if xt else None))
        elif ty == G and name == "add_node" and len(args) == 1:
            cx.env[root] = ("(UnGraph.addNode %s %s)" % (paren(cur), paren(E(args[0], cx)[0])), G)
        elif ty == G and name == "add_edge" and len(args) == 3 and args[2] == ("tuple", []):
            cx.env[root] = ("(UnGraph.addEdge %s %s %s)" % (paren(cur), paren(E(args[0], cx)[0]), paren(E(args[1], cx)[0])), G)
        elif ty == G and name == "remove_node" and len(args) == 1:
            cx.env[root] = ("(UnGraph.removeNode %s %s)" % (paren(cur), paren(E(args[0], cx)[0])), G)
        elif name == "sort_by" and len(args) == 1 and ty == "List (K × Nat)":
            cl = args[0]
            ok = (cl[0] == "closure" and len(cl[1]) == 2 and
                  all(p[0] == "ptuple" and len(p[1]) == 2 and p[1][0][0] == "pvar" and p[1][1][0] == "pwild" for p in
                      [q[1] if q[0] == "pref" else q for q in cl[1]]))
            if not ok:
                raise Untranslatable("sort_by comparator shape")
            ps = [q[1] if q[0] == "pref" else q for q in cl[1]]
            c1, c2 = ps[0][1][0][1], ps[1][1][0][1]
            body = cl[2]
            if body != ("mcall", ("mcall", ("var", c1), "partial_cmp", [("var", c2)]), "unwrap", []):
                raise Untranslatable("sort_by comparator body")
            cx.sh["uses_ops"] = True
            cx.env[root] = ("(stableSort (fun a b => ops.le a.1 b.1) %s)" % paren(cur), ty)
        else:
            raise Untranslatable("effect .%s on %s" % (name, ty))
        return True
    if e[0] == "call" and e[1][0] == "var" and e[1][1] in BYNAME and BYNAME[e[1][1]].mut is not None:
        g = BYNAME[e[1][1]]
        root = lhs_root(e[2][g.mut])
        if root not in cx.env:
            raise Untranslatable("effect on a non-local")
        vals = [E(x, cx)[0] for x in e[2]]
        cx.env[root] = ("(%s)" % call_gen(g, vals, cx), g.ret)
        return True
    return False


def state_of(cx, muts):
    if len(muts) == 1:
        return cx.env[muts[0]][0]
    return "(" + ", ".join(cx.env[m][0] for m in muts) + ")"


def state_ty(cx, muts):
    tys = [cx.env[m][1] for m in muts]
    if any(t is None for t in tys):
        raise Untranslatable("mutable local of unknown type: " + ", ".join(m for m in muts if cx.env[m][1] is None))
    if len(tys) == 1:
        return tys[0]
    out = tys[-1]
    for t in reversed(tys[:-1]):
        out = "%s × %s" % (t if "×" not in t else "(" + t + ")", out)
    return out


def projections(base, n):
    if n == 1:
        return [base]
    return ["%s%s" % (base, ".1" if i == 0 else ".2" * i + (".1" if i < n - 1 else "")) for i in range(n)]


def lift_body(cx, body, muts, loopvars, tag):
    """lambda-lift a loop body: returns (call prefix `name args`, state binder name)"""
    cx.sh["n"] += 1
    k = cx.sh["n"]
    sname = "s%d" % k
    sub = cx.sub()
    sub.loop = tag
    sty = state_ty(cx, muts)
    for m, pr in zip(muts, projections(sname, len(muts))):
        sub.env[m] = (pr, cx.env[m][1])
    for nm, ty in loopvars:
        sub.scope.append((nm, ty))
    sub.scope.append((sname, sty))
    extra = {}
    S(body[1], sub, extra)
    tl = body[2]
    if tl is not None and tag == "loop" and tl[0] == "if" and tl[3] is None and tl[2] == ("block", [("break",)], None) \
            and "cond" not in extra:
        extra["cond"] = E(tl[1], sub)[0]            # `if c { break; }` as the tail of a `loop` body
        tl = None
    if tl is not None:
        if not effect_or_compound(tl, sub):
            raise Untranslatable("loop body with a value")
    new = state_of(sub, muts)
    text = new + " " + extra.get("cond", "")
    own = [n for n, _ in loopvars] + [sname]
    params = [(n, t) for n, t in cx.scope if n not in own and re.search(r"(?<![A-Za-z0-9_.'])%s(?![A-Za-z0-9_'])" % re.escape(n), text)]
    name = "%s_loop%d" % (cx.fn.lean, k)
    binder = " ".join("(%s : %s)" % (n, t) for n, t in params + loopvars + [(sname, sty)])
    uses_ops = re.search(r"\bops\b", text) is not None
    opsb = "{K : Type} (ops : ForceOps K) " if uses_ops else ""
    cx.sh["defs"].append("def %s %s%s : %s :=\n  %s\n" % (name, opsb, binder, sty, new))
    call = name + (" ops" if uses_ops else "") + "".join(" " + n for n, _ in params)
    if "cond" in extra:
        cname = name + "_exit"
        cx.sh["defs"].append("def %s %s%s : Bool :=\n  %s\n" % (cname, opsb, binder, extra["cond"]))
        extra["cond_call"] = cname + (" ops" if uses_ops else "") + "".join(" " + n for n, _ in params)
    return call, sname, extra


def effect_or_compound(e, cx):
    if effect(e, cx):
        return True
    if e[0] == "if" and e[3] is None:
        cond_effect(e, cx)
        return True
    return False


def cond_effect(e, cx):
    c, _ = E(e[1], cx)
    sub = cx.sub()
    S(e[2][1], sub)
    if e[2][2] is not None and not effect_or_compound(e[2][2], sub):
        raise Untranslatable("if-statement with a value")
    for m in assigned_in(e[2][1], e[2][2]):
        if m in cx.env and sub.env[m][0] != cx.env[m][0]:
            cx.env[m] = ("(if %s then %s else %s)" % (c, sub.env[m][0], cx.env[m][0]), cx.env[m][1])


def assign_results(cx, muts, loop):
    for m, pr in zip(muts, projections(loop, len(muts))):
        cx.env[m] = (pr, cx.env[m][1])


def S(stmts, cx, extra=None):
    for idx, s in enumerate(stmts):
        k = s[0]
        if k == "let":
            pat, rhs, ann = s[1], s[3], s[4]
            while pat[0] == "pref":
                pat = pat[1]
            aty = RUST_TY.get(ann) if ann else None
            if ann and aty is None:
                raise Untranslatable("type annotation " + ann)
            if rhs is None:
                if pat[0] != "pvar":
                    raise Untranslatable("let without value")
                cx.env[pat[1]] = (UNINIT, aty)
                continue
            t, ty = E(rhs, cx)
            ty = aty or ty
            if pat[0] == "pvar":
                cx.env[pat[1]] = (paren(t), ty)
            elif pat[0] == "ptuple" and len(pat[1]) == 2:
                parts = pair_parts(ty) or (None, None)
                tup = strip_refs(rhs)
                comps = [E(x, cx) for x in tup[1]] if tup[0] == "tuple" and len(tup[1]) == 2 else None
                for j, (q, proj) in enumerate(zip(pat[1], (".1", ".2"))):
                    while q[0] == "pref":
                        q = q[1]
                    if q[0] == "pwild":
                        continue
                    if q[0] != "pvar":
                        raise Untranslatable("nested let pattern")
                    if comps:
                        cx.env[q[1]] = (paren(comps[j][0]), comps[j][1])
                    else:
                        cx.env[q[1]] = (paren(t) + proj, parts[j])
            else:
                raise Untranslatable("let pattern")
        elif k == "assign":
            op, tgt = s[1], s[2]
            root = lhs_root(tgt)
            if root not in cx.env:
                raise Untranslatable("assignment to unknown local")
            cur, ty = cx.env[root]
            v, vt = E(s[3], cx)
            t0 = strip_refs(tgt)
            if t0[0] == "index":
                if op != "=" or strip_refs(t0[1])[0] != "var":
                    raise Untranslatable("indexed compound assignment")
                i, _ = E(t0[2], cx)
                cx.env[root] = ("(List.set %s %s %s)" % (paren(cur), paren(i), paren(v)), ty)
            elif op == "=":
                cx.env[root] = (paren(v), ty or vt)
            elif op in ("+=", "-=", "*="):
                if (ty or NAT) != NAT:
                    raise Untranslatable("compound assignment on " + str(ty))
                cx.env[root] = ("(%s %s %s)" % (paren(cur), op[0], paren(v)), NAT)
            else:
                raise Untranslatable("assignment operator")
        elif k == "for":
            do_for(s, cx)
        elif k == "while":
            do_while(s, cx)
        elif k == "loop":
            do_loop(s, cx, stmts[idx + 1:])
            if extra is not None:
                extra["rest_done"] = True
            return "rest_done"
        elif k == "break":
            raise Untranslatable("break in this position")
        elif k == "expr":
            e = s[1]
            if e[0] == "macro" and e[1] in ("debug_assert", "println", "eprintln"):
                continue
            if (e[0] == "if" and e[3] is None and cx.loop == "loop" and idx == len(stmts) - 1 and extra is not None
                    and e[2] == ("block", [("break",)], None)):
                extra["cond"] = E(e[1], cx)[0]          # `if c { break; }` as the last statement of a `loop`
                continue
            if not effect_or_compound(e, cx):
                raise Untranslatable("expression statement " + e[0] + (" ." + e[2] if e[0] == "mcall" else ""))
        else:
            raise Untranslatable("statement kind " + k)
    return None


def do_for(s, cx):
    pat, it, body = s[1], s[2], s[3]
    muts = loop_muts(cx, body)
    if not muts:
        raise Untranslatable("for loop without effect on the locals")
    it0 = strip_refs(it)
    init = state_of(cx, muts)
    if it0[0] == "bin" and it0[1] == ".." and it0[3] is not None:
        lo, hi = E(it0[2], cx)[0], E(it0[3], cx)[0]
        if pat[0] == "pvar":
            iv = pat[1]
        elif pat[0] == "pwild":
            iv = "i%d_" % cx.sh["n"]
        else:
            raise Untranslatable("for pattern")
        sub = cx.sub()
        sub.env[iv] = (iv, NAT)
        call, sn, _ = lift_body(sub, body, muts, [(iv, NAT)], "for")
        loop = "(forRange %s %s (fun %s %s => %s %s %s) %s)" % (paren(lo), paren(hi), iv, sn, call, iv, sn, paren(init))
    else:
        enum = it0[0] == "mcall" and it0[2] == "enumerate" and not it0[3]
        src, sty = E(it0[1] if enum else it0, cx)
        et = elem(sty)
        if et is None:
            raise Untranslatable("for over a value of unknown type")
        sub = cx.sub()
        p = pat
        while p[0] == "pref":
            p = p[1]
        if enum:
            if p[0] != "ptuple" or len(p[1]) != 2:
                raise Untranslatable("enumerate pattern")
            ip, xp = p[1]
            while xp[0] == "pref":
                xp = xp[1]
            if ip[0] != "pvar" or xp[0] != "pvar":
                raise Untranslatable("enumerate pattern")
            sub.env[ip[1]] = (ip[1], NAT)
            sub.env[xp[1]] = (xp[1], et)
            call, sn, _ = lift_body(sub, body, muts, [(ip[1], NAT), (xp[1], et)], "for")
            loop = "(Tr.forEnum %s %s (fun %s %s %s => %s %s %s %s))" % (paren(src), paren(init), ip[1], xp[1], sn, call, ip[1], xp[1], sn)
        else:
            if p[0] != "pvar":
                raise Untranslatable("for pattern")
            sub.env[p[1]] = (p[1], et)
            call, sn, _ = lift_body(sub, body, muts, [(p[1], et)], "for")
            loop = "(List.foldl (fun %s %s => %s %s %s) %s %s)" % (sn, p[1], call, p[1], sn, paren(init), paren(src))
    assign_results(cx, muts, loop)


def do_while(s, cx):
    cond, body = s[1], s[2]
    if cx.fn.fuel is None:
        raise Untranslatable("while loop without a fuel entry")
    muts = loop_muts(cx, body)
    if not muts:
        raise Untranslatable("while loop without effect")
    fuel = E(Parser(__import__("rustmini_cnford").tokenize(cx.fn.fuel)).expr(), cx)[0]
    init = state_of(cx, muts)
    call, sn, _ = lift_body(cx, body, muts, [], "while")
    csub = cx.sub()
    for m, pr in zip(muts, projections(sn, len(muts))):
        csub.env[m] = (pr, cx.env[m][1])
    c = E(cond, csub)[0]
    loop = "(Tr.whileFuel %s (fun %s => %s) (fun %s => %s %s) %s)" % (paren(fuel), sn, c, sn, call, sn, paren(init))
    assign_results(cx, muts, loop)


def do_loop(s, cx, rest):
    """`loop { body; if c { break; } }` followed by `rest`: the remainder of the function runs under Option.map"""
    body = s[1]
    if not any(n == "fuel" for n, _ in cx.fn.extra):
        raise Untranslatable("unbounded loop in a function without a fuel parameter")
    muts = loop_muts(cx, body)
    if not muts:
        raise Untranslatable("loop without effect")
    init = state_of(cx, muts)
    call, sn, extra = lift_body(cx, body, muts, [], "loop")
    if "cond_call" not in extra:
        raise Untranslatable("loop without a final `if c { break; }`")
    cx.sh["n"] += 1
    r = "r%d" % cx.sh["n"]
    sub = cx.sub()
    for m, pr in zip(muts, projections(r, len(muts))):
        sub.env[m] = (pr, cx.env[m][1])
    cx.pending = ("Option.map (fun %s => %%s) (Tr.loopFuel fuel (fun %s => %s %s) (fun %s => %s %s) %s)"
                  % (r, sn, call, sn, sn, extra["cond_call"], sn, paren(init)), sub, rest)


def translate(f, src, shared):
    ps, body = find_fn(src, f.rust, f.impl)
    params = parse_params(ps)
    if len(params) != len(f.params):
        raise Untranslatable("parameter list of %s changed: %r" % (f.rust, params))
    ast = parse_body(body)
    cx = Cx(f, shared)
    binders = []
    for p, t in zip(params, f.params):
        if t == "self":
            if p != "self":
                raise Untranslatable("self parameter")
            binders += [("cs", "Spec.Cnf"), ("numVars", NAT)]
        else:
            cx.env[p] = (p, t)
            binders.append((p, t))
    binders += f.extra
    cx.scope = list(binders)
    cx.pending = None
    shared["uses_ops"] = False
    r = S(ast[1], cx)
    if r == "rest_done":
        wrap, sub, rest = cx.pending
        S(rest, sub)
        if ast[2] is None:
            raise Untranslatable("function without a value")
        t, _ = E(ast[2], sub)
        term = wrap % t
    elif f.mut is not None:
        if ast[2] is not None and not effect_or_compound(ast[2], cx):
            raise Untranslatable("value of a mutating function")
        term = cx.env[params[f.mut]][0]
    else:
        if ast[2] is None:
            raise Untranslatable("function without a value")
        term, _ = E(ast[2], cx)
    if f.uses_ops != (shared["uses_ops"] or bool(re.search(r"\bops\b", term))):
        if not f.uses_ops:
            raise Untranslatable("floating point arithmetic in an integer function")
    opsb = "{K : Type} (ops : ForceOps K) " if f.uses_ops else ""
    return "def %s %s%s : %s :=\n  %s\n" % (f.lean, opsb, " ".join("(%s : %s)" % b for b in binders), f.ret, term)


HEADER = """import RsddModel.Model.Orders
import RsddModel.Model.OrdersExtra
import RsddModel.Lemmas.TieCnfOrdAux
/-!
# Generated by tools/gen_cnford.py from src/repr/cnf.rs — do not edit

Compared with the hand-written model (`Orders.*`, Model/Orders.lean) in `Props/TieCnfOrd.lean`.
-/
set_option linter.unusedVariables false
namespace Gen.CnfOrd
open _root_.Orders

"""


def write_if_changed(path, text):
    old = open(path).read() if os.path.exists(path) else None
    if old != text:
        open(path, "w").write(text)


def elaboration_errors(text):
    """elaborate the candidate file once (`lake env lean`); returns [(line, message)] of the errors, None if lean cannot be run"""
    import subprocess
    lean_dir = os.path.join(ROOT, "lean")
    tmp = OUT[:-5] + "_check.lean"
    try:
        open(tmp, "w").write(text)
        subprocess.run(["lake", "build", "RsddModel.Lemmas.TieCnfOrdAux"], cwd=lean_dir, capture_output=True, text=True, timeout=900)   # imports up to date
        r = subprocess.run(["lake", "env", "lean", os.path.relpath(tmp, lean_dir)], cwd=lean_dir, capture_output=True,
                           text=True, timeout=900)
    except Exception:  # noqa: BLE001
        return None
    finally:
        try:
            os.remove(tmp)
        except OSError:
            pass
    errs = []
    for m in re.finditer(r"^[^\n:]*:(\d+):(\d+): error:? ?(.*)$", r.stdout + r.stderr, re.M):
        errs.append((int(m.group(1)), m.group(3).strip()))
    if r.returncode != 0 and not errs:
        return None
    return errs


def guarded_write(keys, blocks, status, fallback_of, footer):
    """assemble HEADER + blocks + footer; when the text is new, elaborate it; a definition on an error line falls
    back to its alias (status `… does not elaborate`), repeated until the file elaborates"""
    for _round in range(len(keys) + 1):
        text, ranges, line = HEADER, [], HEADER.count("\n") + 1
        for k, b in zip(keys, blocks):
            n = b.count("\n") + 1
            ranges.append((line, line + n - 1, k))
            text += b + "\n"
            line += n
        text += footer
        old = open(OUT).read() if os.path.exists(OUT) else None
        if old == text:
            return
        errs = elaboration_errors(text)
        if not errs:
            break
        bad = {}
        for ln, msg in errs:
            for lo, hi, k in ranges:
                if lo <= ln <= hi and k not in bad:
                    bad[k] = msg
        bad = {k: m for k, m in bad.items() if "UNTRANSLATED" not in status[k]}
        if not bad:
            break
        for i, k in enumerate(keys):
            if k in bad:
                msg = "does not elaborate: " + bad[k][:160]
                blocks[i] = fallback_of(k, msg)
                status[k] = "UNTRANSLATED (translator route not available, tied by correspondence only): " + msg
    write_if_changed(OUT, text)


def fallback(f, msg):
    return ("-- TRANSLATOR ROUTE NOT AVAILABLE for %s: %s\nabbrev %s := %s\n"
            % (f.key, msg.replace("\n", " "), f.lean, f.model if f.model.startswith("fun") else "@" + f.model))


def main():
    status, out = {}, []
    try:
        src = open(os.path.join(REPO, CNF_RS)).read()
        err = None
    except OSError as e:
        src, err = None, str(e)
    for f in FUNS:
        shared = {"defs": [], "n": 0, "uses_ops": False}
        try:
            if src is None:
                raise Untranslatable(err)
            d = translate(f, src, shared)
            out.append("\n".join(shared["defs"] + [d]))
            status[f.key] = "translated"
        except Exception as e:  # noqa: BLE001  (never crash: per-function fallback)
            msg = str(e) if isinstance(e, Untranslatable) else "%s: %s" % (type(e).__name__, e)
            out.append(fallback(f, msg))
            status[f.key] = "UNTRANSLATED (translator route not available, tied by correspondence only): %s" % msg
    byk = {f.key: f for f in FUNS}
    guarded_write([f.key for f in FUNS], out, status, lambda k, msg: fallback(byk[k], msg), "end Gen.CnfOrd\n")
    return status


if __name__ == "__main__":
    for k, v in main().items():
        print(k, "->", v)
