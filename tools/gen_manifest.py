#!/usr/bin/env python3
"""writes MANIFEST.json from tools/properties_cfg.py (run by hand after editing the configuration)"""
import json, os, sys
ROOT = os.path.dirname(os.path.dirname(os.path.abspath(__file__)))
sys.path.insert(0, os.path.join(ROOT, "tools"))
from properties_cfg import PROPS, COMMON_TRUSTED, NOT_APPLICABLE, HOOK_COMMITS, tie_note

ALL = ["C%02d" % i for i in range(1, 20)]
checks = []
for pid in ALL:
    if pid not in PROPS:
        continue
    c = PROPS[pid]
    checks.append({
        "property_id": pid,
        "quick_cmd": "python3 tools/check.py --property %s --tier quick" % pid,
        "thorough_cmd": "python3 tools/check.py --property %s --tier thorough" % pid,
        "evidence_file": "/verif/evidence/%s.json" % pid,
        "replay_cmd_template": "python3 tools/check.py --replay {path}",
        "engine": "lean4-proof+correspondence",
        "level_claimed": {
            "category": "proof",
            "text": c["level_text"],
            "design_ref": "DESIGN.md section 5, %s" % pid,
        },
        "level_note": c["level_note"] + tie_note(c["modules"]),
        "technique": c.get("technique", "Lean 4 theorems about an executable model; the model is tied to the code (a) by a translator that regenerates Lean definitions from the Rust text on every run, proved equal to the model by kernel-checked tie theorems, and (b) by a differential correspondence check (real crate vs model vs spec oracle)"),
    })
na = [{"property_id": p, "reason": r} for p, r in NOT_APPLICABLE.items() if p not in PROPS]
for pid in ALL:
    if pid not in PROPS and pid not in NOT_APPLICABLE:
        na.append({"property_id": pid, "reason": "not yet claimed: model/proof/correspondence for this property are still being built (see DESIGN.md section 5)"})
manifest = {
    "version": 1,
    "setup_cmd": "python3 tools/check.py --setup",
    "hooks": {
        "guard": "cargo feature verif_hooks",
        "enable": "harness/Cargo.toml depends on rsdd with features [\"verif_hooks\", \"ffi\"] (cargo build --offline in /verif/harness)",
        "baseline_off_cmd": "cd /repo && cargo test --workspace --no-fail-fast --offline",
        "source_commits": HOOK_COMMITS,
        "add_only": True,
    },
    "engines": [{
        "name": "lean4-proof+correspondence",
        "path": "/verif/lean, /verif/harness, /verif/tools/check.py",
        "serves_properties": [c["property_id"] for c in checks],
        "kind_free_text": "Lean 4 model + kernel-checked theorems; Rust harness drives the real crate; Lean driver runs model and spec oracle on the same lines",
    }],
    "checks": checks,
    "not_applicable": na,
    "notes": "Every check: regenerate constants and the translated definitions (tools/gen_*.py: about 360 functions of the BDD / SDD / decision-DNNF builders, tables, orders, vtrees, CNF utilities, propagator, optimisation queries, semirings, serialisers, C wrappers) from the source, lake build + axiom audit of every theorem of the property's modules, cargo build of the harness against /repo's working tree, correspondence run (harness | Lean driver), verdict, evidence; --replay re-runs the recorded cases on the current tree. See DESIGN.md (section 9 for the state as built).",
}
json.dump(manifest, open(os.path.join(ROOT, "MANIFEST.json"), "w"), indent=1)
print("wrote MANIFEST.json with", len(checks), "checks;", len(na), "not claimed")
