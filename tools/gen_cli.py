#!/usr/bin/env python3
"""Translator route for the command-line tools (bin/*.rs) and the rest of the C interface
(src/ffi/{wmc,bdd,cnf,var,dtree,vtree}.rs, src/util/semirings/ffi_polynomial_semiring.rs):
regenerates `lean/RsddModel/Model/GenCli.lean` from the Rust text on every run.
`Props/TieCli.lean` proves the regenerated definitions equal to the hand-written model
(`Cli.singleWmc`, `Cli.formulaToBdd`, `Ffi.modelCount`, `Ffi.fromCParts`) or to the literal mirrors
of `Lemmas/TieCliAux.lean` (`CliAux.*`, `FfiAux.*`), which are related to the model there.

The Rust is parsed by tools/rustmini_cli.py.  serde / clap / file IO is NOT translated: the glue starts
from the parsed structs (`sexpr`, `weights`, `config`, `args` are inputs; statements binding them are skipped).
Diagnostic printing (`println!`/`eprintln!` other than the result line of `single_wmc`), timing
(`Instant`, `elapsed`), `stats()` and `assert!` are skipped: the flags `verbose`/`silent` do not influence a value.

Conventions
  * `let x = e;` ↦ `let x := e` (same name, Lean shadowing = Rust shadowing).  Mutable locals are re-bound.
  * A call that can fail in the model (fuel of the ITE recursion; `from_sexpr` on constants; `from_dimacs`;
    `force_order`; `DTree::from_cnf` on an empty CNF; `panic!`/`todo!`) is *partial*: `(e).bind fun r => …`,
    the definition returns `Option`.
  * `RobddBuilder::new(order)` ↦ the empty cache `C.empty`, level map `order.get`, `var_at_level` ↦ `order.varAtLevel`;
    builder methods thread the cache state.  `robdd_builder_from_ptr(b)` ↦ the manager `(st, lvl, varAt, numVars)`.
  * `for x in it { body }` ↦ `it.foldl (fun state x => body) state`, state = the mutable locals assigned in the body.
    A closure passed to `map` that mutates captured locals ↦ the same fold with the collected table in the state.
  * `if c { return e } rest` ↦ `if c then e else rest`; an `if let` without `else` that may return ↦ `match` with
    the rest of the block duplicated in the fall-through arms.
  * `o.unwrap()` / `unwrap_or_else(|| panic!(..))` on a lookup ↦ `.getD default` (panic = outside the hypotheses).

  * parameters: the binders are read from the Rust parameter list; a parameter the table does not know gets a binder from its
    Rust type (bool / integers / f64 / String), so a NEW parameter changes the type of the generated definition (tie fails).
  * `static` items (also in `thread_local!`): `NAME.with(|m| …)` is read as explicit state `NAME` (`borrow`/`borrow_mut` identities,
    get / insert / remove / clear on an association list).  A function that touches one is reported `DIFFERS (new state)`: the
    model's definition has no such argument/result; the alias is kept and the read body is put in a comment.
  * f64 arithmetic on weights: `+`/`*`/0.0/1.0 are the semiring's; `-`, `/`, `abs`, `<`/`<=`, other literals, `f64::EPSILON` are fields of
    an uninterpreted `R : CliAux.RealOps α`, an extra binder (the pristine tools need none).
  * elaboration guard: when the generated text changed it is elaborated once (`lake env lean`); a definition on an error line falls
    back to its alias (`UNTRANSLATED … does not elaborate`), repeated while callers break.

Mapping table (trusted)
  m.values() / m.keys() ↦ `m.map (·.2)` / `(·.1)`; it.all(p) / any(p) ↦ `List.all` / `List.any`; it.count() ↦ length; contains_key ↦ lookup.isSome
  VarLabel / usize / u64 / NodeIndex ↦ Nat; `VarLabel::new(x)`, `x.value()`, `as T`, `&x`, `*x`, `.clone()`, `.iter()`,
      `.collect()`, `.copied()`, `.as_ref()`, `.as_str()`, `.to_vec()`, `Box::new`, `Box::into_raw`, `Box::from_raw`,
      `serde_json::to_string` ↦ identities
  RealSemiring(x), x.0 ↦ x over the generic semiring `S` (CLI) / `Sem.realOps` (C interface); FiniteField<U64_LARGEST> ↦ `Sem.ffOps P`
      (`one()` ↦ `.one`, `zero()` ↦ `.zero`, `.value()` ↦ identity)
  HashMap<VarLabel,(T,T)> ↦ `CliAux.Table` (`Nat → Option (T × T)`): from_iter((0..n).map(|v| (VarLabel::new(v), e))) ↦ `Table.ofRange n fun v => e`,
      `HashMap::new()`/`from([])` ↦ `Table.empty`, insert ↦ `Table.insert`, get ↦ application
  WmcParams::new(t) ↦ `CliAux.Table.params S t` (absent label: the Rust panics; the default is `(zero, zero)`);
      `(*w).set_weight(l, lo, hi)` ↦ `FfiAux.setWeight w l lo hi`; `(*w).var_weight(l)` ↦ `w l`
  HashMap<String,_> / HashMap<usize,&String> ↦ association lists (`CliAux.lookup`, `CliAux.assocInsert`), iteration order = list order
  VariableWeight{low,high} ↦ pair (`.low` ↦ `.1`, `.high` ↦ `.2`); PartialModel ↦ `List (Option Bool)` (`from_assignments` identity,
      `true_assignments` / `false_assignments` ↦ `CliAux.trueAssignments` / `falseAssignments`)
  sexpr.unique_variables() ↦ `Ser.sortedNames sexpr.uniqueVariables` (a set: `.len()` = number of distinct names);
      sexpr.variable_mapping() ↦ `sexpr.variableMapping`; LogicalExpr::from_sexpr ↦ `Ser.fromSexpr`
  builder.compile_logical_expr(&e) ↦ `Compile.compileExpr (Bdd.ops C lvl fuel) st (Cli.toCompileExpr e)`; compile_plan ↦ `Compile.compilePlan`;
      compile_cnf ↦ `Compile.compileCnf … (Compile.sortClauses lvl cnf)`; smooth(b, n) ↦ `Bdd.smooth lvl varAt b n`;
      condition_model(b, m) ↦ `Bdd.condModel lvl b (Bdd.assignmentIter m)`; x.unsmoothed_wmc(&w) / DDNNFPtr::unsmoothed_wmc(&x, &w) ↦ `Bdd.wmc S w x`;
      count_nodes ↦ `Bdd.countNodes`; BDDSerializer::from_bdd ↦ `Ser.serBdd`; num_vars() ↦ the manager's `numVars`
  VarOrder::new ↦ `Orders.VarOrder.new`, linear_order ↦ `Orders.VarOrder.linear`; cnf.min_fill_order() ↦ `Orders.minFillOrder cnf numVars`,
      force_order ↦ `Orders.forceOrderFloat cnf numVars` (`numVars` = the CNF's `num_vars` field, a parameter)
  Cnf::from_dimacs ↦ `Ser.cnfFromDimacs`; Cnf::new ↦ `Ser.cnfNew`; DTree::from_cnf(c, o) ↦ `VT.DTree.fromCnf c o.posToVar`;
      BottomUpPlan::from_dtree(d) ↦ `Compile.Plan.fromDtree (CliAux.dtreeShape d)`; VTree::from_dtree ↦ `VT.VTree.fromDtree`
  C arrays: a pointer ↦ `Option (List α)` (`is_null` ↦ `isNone`), `slice::from_raw_parts(p, n)` ↦ `(p.getD []).take n`;
      an array of non-null element pointers (`cnf_new`, `var_order_new`) ↦ the list; Polynomial{coefficients,len} ↦ `Sem.Poly` (`coeffs`, `len`),
      `PolyWeight::zero()` ↦ `Sem.polyZero S M`, `MAX_COEFFS` ↦ `M`
"""
import os, re, sys, copy

sys.path.insert(0, os.path.dirname(os.path.abspath(__file__)))
from rustmini_cli import Untranslatable, find_fn, parse_body, parse_params, strip_comments  # noqa: E402

ROOT = os.path.dirname(os.path.dirname(os.path.abspath(__file__)))
REPO = os.environ.get("VERIF_REPO", "/repo")
OUT = os.path.join(ROOT, "lean", "RsddModel", "Model", "GenCli.lean")

LEAN_KW = {"end", "at", "from", "fun", "open", "in", "do", "then", "else", "if", "match", "with", "let", "have", "show", "by",
           "where", "instance", "structure", "class", "def", "theorem", "namespace", "section", "variable", "universe",
           "import", "export", "local", "attribute", "Type", "Prop", "Sort", "mut", "for", "return", "at", "using", "calc"}
IDENT_M = {"borrow", "borrow_mut", "to_bytes", "iter", "into_iter", "collect", "clone", "as_ref", "copied", "cloned", "to_vec", "as_str", "as_bytes", "value",
           "value_usize", "to_owned", "to_string", "as_slice", "iter_mut", "as_mut", "cast"}
SKIP_MACROS = {"println", "eprintln", "print", "eprint", "assert", "debug_assert", "dbg"}
SKIP_LET_CALLS = {("Instant", "now")}
SKIP_LET_METHODS = {"elapsed", "stats"}
STRUCT_VARS = {"config", "args", "self"}


def ln(x):
    return x + "_" if x in LEAN_KW else x


class Cx:
    """translation context"""

    def __init__(self, types, real="S", self_as="config", builders=None, local_fns=None):
        self.types = dict(types)          # rust variable -> tag
        self.real = real                  # Lean semiring record RealSemiring is mapped to
        self.self_as = self_as
        self.builders = dict(builders or {})   # rust variable -> dict(lvl, varAt, st, numVars, fuel)
        self.local_fns = local_fns or {}
        self.hoist = []                   # [(name, lean Option expression)] pending binds
        self.n = 0
        self.labels = None
        self.shared = {"R": False, "globals": [], "gnames": set()}   # shared by all forks of one function

    def fork(self):
        c = copy.copy(self)
        c.types = dict(self.types)
        c.builders = {k: dict(v) for k, v in self.builders.items()}
        c.hoist = []
        c.partial_ok = False
        return c

    def fresh(self):
        self.n += 1
        return "r%d" % self.n

    def part(self, lean):
        nm = self.fresh()
        self.hoist.append((nm, lean))
        return nm


def real_lit(txt, cx):
    """an f64 literal over the abstract semiring: 0.0 / 1.0 are `zero` / `one`, anything else is an uninterpreted constant"""
    try:
        v = float(txt)
    except ValueError:
        raise Untranslatable("float literal " + txt)
    if v == 0.0:
        return "%s.zero" % cx.real
    if v == 1.0:
        return "%s.one" % cx.real
    cx.shared["R"] = True
    return '(R.ofLit "%s")' % txt


def sem_ops(cx, tag):
    if tag == "ff":
        return "(Sem.ffOps P)"
    if tag == "real":
        return cx.real
    if tag == "poly":
        return "(Sem.polyOps %s M)" % cx.real
    if tag == "cx":
        return "Sem.cxOps"
    raise Untranslatable("semiring of %r" % (tag,))


def flush(cx, body):
    """wrap `body` (an Option-valued Lean term) in the pending binds"""
    for nm, e in reversed(cx.hoist):
        body = "((%s).bind fun %s =>\n  %s)" % (e, nm, body)
    cx.hoist = []
    return body


def is_panic(e):
    return e[0] == "macro" and e[1] in ("panic", "todo", "unimplemented", "unreachable")


def closure_value(cl):
    """the value of a `|| { prints…; e }` closure body, None if it panics"""
    b = cl[2]
    if is_panic(b):
        return None
    if b[0] == "block":
        stmts = [s for s in b[1] if not skippable(s)]
        if stmts:
            if len(stmts) == 1 and stmts[0][0] == "expr" and is_panic(stmts[0][1]):
                return None
            raise Untranslatable("closure body with statements")
        if b[2] is None:
            raise Untranslatable("closure without value")
        if is_panic(b[2]):
            return None
        return b[2]
    return b


def is_abort(x):
    return x[0] == "expr" and x[1][0] == "call" and x[1][1][0] == "path" and x[1][1][1][-2:] == ["process", "abort"]


def skippable(s):
    if s[0] == "expr":
        e = s[1]
        if e[0] == "if" and e[3] is None and e[1][0] == "mcall" and e[1][2] == "is_null" and e[2][2] is None \
                and e[2][1] and is_abort(e[2][1][-1]) and all(skippable(x) for x in e[2][1][:-1]):
            return True
        if e[0] == "macro" and e[1] in SKIP_MACROS:
            return True
        if e[0] in ("if",) and e[3] is None and all(skippable(x) for x in e[2][1]) and e[2][2] is None and only_flags(e[1]):
            return True
        if e[0] == "if" and e[3] is None and e[2][2] is not None and e[2][2][0] == "macro" and e[2][2][1] in SKIP_MACROS \
                and all(skippable(x) for x in e[2][1]) and only_flags(e[1]):
            return True
    if s[0] == "let":
        e = s[3]
        if s[1][0] == "pvar" and only_flags(e):
            FLAG_LOCALS.add(s[1][1])
            return True
        if e[0] == "call" and e[1][0] == "path" and tuple(e[1][1]) in SKIP_LET_CALLS:
            return True
        if e[0] == "mcall" and e[2] in SKIP_LET_METHODS:
            return True
    return False


FLAG_LOCALS = set()


def only_flags(c):
    """condition built from verbose / silent flags only"""
    if c[0] == "var":
        return c[1] in ("verbose", "silent") or c[1] in FLAG_LOCALS
    if c[0] == "field":
        return c[2] in ("verbose", "silent")
    if c[0] == "un" and c[1] == "!":
        return only_flags(c[2])
    if c[0] == "bin" and c[1] in ("&&", "||"):
        return only_flags(c[2]) and only_flags(c[3])
    return False


# ---------------------------------------------------------------------------------------------
# expressions: returns (lean, tag)
# ---------------------------------------------------------------------------------------------

def pat_lean(p, cx, elem_tag=None):
    """closure / for / let pattern -> Lean pattern text; registers variable tags"""
    if p[0] == "pvar":
        cx.types[p[1]] = elem_tag
        return ln(p[1])
    if p[0] == "pwild":
        return "_"
    if p[0] == "pref":
        return pat_lean(p[1], cx, elem_tag)
    if p[0] == "ptuple":
        tags = [None] * len(p[1])
        if isinstance(elem_tag, tuple) and elem_tag[0] == "tuple":
            tags = list(elem_tag[1])
        return "(" + ", ".join(pat_lean(q, cx, t) for q, t in zip(p[1], tags)) + ")"
    raise Untranslatable("pattern %r" % (p,))


def elem_of(tag):
    if isinstance(tag, tuple) and tag[0] == "list":
        return tag[1]
    if tag == "assoc_sn":
        return ("tuple", ["str", "nat"])
    if tag == "assoc_sw":
        return ("tuple", ["str", "vweight"])
    if tag == "assoc_ns":
        return ("tuple", ["nat", "str"])
    if tag == "assoc_sb":
        return ("tuple", ["str", "bool"])
    if tag == "cnfc":
        return "cclause"
    return None


def closure_lean(cl, cx, elem_tag):
    if cl[0] != "closure":
        raise Untranslatable("closure expected")
    if len(cl[1]) != 1:
        raise Untranslatable("closure arity")
    c2 = cx.fork()
    p = pat_lean(cl[1][0], c2, elem_tag)
    body, t = block_value(cl[2], c2)
    if c2.hoist:
        raise Untranslatable("partial call inside a closure")
    return "fun %s => %s" % (p, body), t


def block_value(e, cx):
    """an expression or a block used for its value (early returns allowed)"""
    if e[0] == "block":
        saved, ok = cx.hoist, getattr(cx, "partial_ok", False)
        cx.hoist, cx.partial_ok = [], False
        try:
            out = seq(list(e[1]), e[2], cx, lambda c, v: v, value_needed=True)
            if cx.hoist:
                raise Untranslatable("partial call in a total context")
        finally:
            cx.hoist, cx.partial_ok = saved, ok
        return out
    return ex(e, cx)


def ex(e, cx):
    k = e[0]
    if k == "num":
        if "." in e[1]:
            return real_lit(e[1], cx), "real"
        return e[1], "nat"
    if k == "bool":
        return ("true" if e[1] else "false"), "bool"
    if k == "str":
        return e[1], "str"
    if k == "var":
        x = e[1]
        if x == "MAX_COEFFS":
            return "M", "nat"
        if x == "None":
            return "none", None
        if x in cx.builders:
            return "<builder>", "builder"
        return ln(x), cx.types.get(x)
    if k == "path":
        if e[1] == ["None"] or e[1][-1] == "None":
            return "none", None
        if len(e[1]) >= 2 and e[1][-2] == "f64" and e[1][-1] in ("EPSILON", "MAX", "MIN", "INFINITY", "NEG_INFINITY", "NAN"):
            cx.shared["R"] = True
            return ("R.eps" if e[1][-1] == "EPSILON" else '(R.ofLit "f64::%s")' % e[1][-1]), "real"
        raise Untranslatable("path %s" % "::".join(e[1]))
    if k == "un":
        if e[1] == "*" and e[2][0] == "var" and e[2][1] in getattr(cx, "ptrs", ()):
            a, t = ex(e[2], cx)
            return "(%s.getD default)" % a, (t[1] if isinstance(t, tuple) and t[0] == "opt" else None)
        if e[1] in ("&", "*"):
            return ex(e[2], cx)
        if e[1] == "!":
            a, _ = ex(e[2], cx)
            return "(!%s)" % a, "bool"
        raise Untranslatable("unary %s" % e[1])
    if k == "cast":
        return ex(e[1], cx)
    if k == "tuple":
        parts = [ex(x, cx) for x in e[1]]
        return "(" + ", ".join(p[0] for p in parts) + ")", ("tuple", [p[1] for p in parts])
    if k == "bin":
        op = e[1]
        if op == "..":
            if e[2] is None:
                raise Untranslatable("prefix range")
            a, _ = ex(e[2], cx)
            b, _ = ex(e[3], cx)
            return ("(List.range %s)" % b if a == "0" else "(List.range' %s (%s - %s))" % (a, b, a)), ("list", "nat")
        a, ta = ex(e[2], cx)
        b, tb = ex(e[3], cx)
        if op in ("+", "-", "*", "/", "%"):
            if "real" in (ta, tb):
                if op == "+":
                    return "(%s.add %s %s)" % (cx.real, a, b), "real"
                if op == "*":
                    return "(%s.mul %s %s)" % (cx.real, a, b), "real"
                if op in ("-", "/"):
                    cx.shared["R"] = True
                    return "(R.%s %s %s)" % ("sub" if op == "-" else "div", a, b), "real"
                raise Untranslatable("operator %s on reals" % op)
            if ta in ("ff", "poly", "cx") or tb in ("ff", "poly", "cx"):
                raise Untranslatable("semiring arithmetic")
            return "(%s %s %s)" % (a, op, b), "nat"
        if op in ("&&", "||"):
            return "(%s %s %s)" % (a, op, b), "bool"
        if op in ("==", "!="):
            return "(%s %s %s)" % (a, op, b), "bool"
        if op in ("<", "<=", ">", ">=") and "real" in (ta, tb):
            cx.shared["R"] = True
            if op in (">", ">="):
                a, b = b, a
            return "(R.%s %s %s)" % ("lt" if op in ("<", ">") else "le", a, b), "bool"
        if op in ("<", "<=", ">", ">="):
            return "decide (%s %s %s)" % (a, {"<=": "≤", ">=": "≥"}.get(op, op), b), "bool"
        raise Untranslatable("operator " + op)
    if k == "field":
        return field(e, cx)
    if k == "index":
        a, ta = ex(e[1], cx)
        i, _ = ex(e[2], cx)
        if ta == "coeffs":
            return "(%s.getD %s %s.zero)" % (a, i, cx.real), "real"
        raise Untranslatable("index into %r" % (ta,))
    if k == "call":
        return call(e, cx)
    if k == "mcall":
        return mcall(e, cx)
    if k == "struct":
        return struct(e, cx)
    if k == "if":
        c, _ = ex(e[1], cx)
        if e[3] is None:
            raise Untranslatable("if without else used as a value")
        a, ta = block_value(e[2], cx)
        b, tb = block_value(e[3], cx)
        return "(if %s then %s else %s)" % (c, a, b), ta or tb
    if k == "iflet":
        if e[4] is None:
            raise Untranslatable("if let without else used as a value")
        s, ts = ex(e[2], cx)
        c2 = cx.fork()
        p = opt_pat(e[1], c2, ts)
        a, ta = block_value(e[3], c2)
        b, tb = block_value(e[4], cx.fork())
        return "(match %s with\n  | %s => %s\n  | _ => %s)" % (s, p, a, b), ta or tb
    if k == "match":
        return match(e, cx)
    if k == "block":
        return block_value(e, cx)
    if k == "macro":
        if is_panic(e):
            return cx.part("none"), None
        if e[1] == "vec" and not e[2]:
            return "[]", ("list", None)
        raise Untranslatable("macro %s!" % e[1])
    if k == "array":
        if not e[1]:
            return "[]", ("list", None)
        parts = [ex(x, cx) for x in e[1]]
        return "[" + ", ".join(p[0] for p in parts) + "]", ("list", parts[0][1])
    raise Untranslatable("expression %s" % k)


def opt_pat(p, cx, scrut_tag):
    inner = scrut_tag[1] if isinstance(scrut_tag, tuple) and scrut_tag[0] == "opt" else None
    if p[0] == "pctor" and p[1] == ["Some"] and len(p[2]) == 1:
        return "some " + pat_lean(p[2][0], cx, inner)
    if p[0] == "pctor" and p[1] == ["None"]:
        return "none"
    if p[0] == "pwild":
        return "_"
    if p[0] == "plit":
        return ex(p[1], cx)[0]
    if p[0] == "pvar":
        return pat_lean(p, cx, scrut_tag)
    raise Untranslatable("pattern %r" % (p,))


def canon_arms(arms):
    """`match o { Some(x) => a, None => b }`: the arms are disjoint, put `None` first"""
    pats = [a[0] for a in arms]
    if len(arms) == 2 and all(p[0] == "pctor" and p[1] in (["Some"], ["None"]) for p in pats) and pats[0][1] != pats[1][1]:
        return sorted(arms, key=lambda a: 0 if a[0][1] == ["None"] else 1)
    return arms


def match(e, cx):
    e = (e[0], e[1], canon_arms(e[2]))
    s, ts = ex(e[1], cx)
    arms, partial, tag = [], False, None
    for pat, guard, body in e[2]:
        if guard is not None:
            raise Untranslatable("match guard")
        c2 = cx.fork()
        p = opt_pat(pat, c2, ts)
        if is_panic(body):
            arms.append((p, None))
            partial = True
            continue
        c2.hoist = []
        b, tb = block_value_partial(body, c2)
        tag = tag or tb[0]
        if tb[1]:
            partial = True
        arms.append((p, (b, tb[1])))
    out = []
    for p, b in arms:
        if b is None:
            out.append("| %s => none" % p)
        elif partial:
            out.append("| %s => %s" % (p, b[0] if b[1] else "some (%s)" % b[0]))
        else:
            out.append("| %s => %s" % (p, b[0]))
    txt = "(match %s with\n  %s)" % (s, "\n  ".join(out))
    if partial:
        return cx.part(txt), tag
    return txt, tag


def block_value_partial(e, cx):
    """value of an arm; returns (lean, (tag, is_option))"""
    if e[0] == "block":
        try:
            c = cx.fork()
            out = seq(list(e[1]), e[2], c, lambda c2, v: v, value_needed=True)
            if c.hoist:
                raise Untranslatable("partial call in a total context")
            return out[0], (out[1], False)
        except Untranslatable as ex_:
            if "partial call" not in str(ex_):
                raise
        c = cx.fork()
        c.partial_ok = True

        def fin(c2, v):
            return (flush(c2, "some (%s)" % v[0]), v[1])
        out = seq(list(e[1]), e[2], c, fin, value_needed=True)
        return flush(c, out[0]), (out[1], True)
    v = ex(e, cx)
    if cx.hoist:
        return flush(cx, "some (%s)" % v[0]), (v[1], True)
    return v[0], (v[1], False)


def field(e, cx):
    base, f = e[1], e[2]
    if base[0] == "var" and cx.types.get(base[1]) == "cfg1" and f == "order":
        return ln(base[1]), ("opt", ("list", "str"))
    if base[0] == "var" and base[1] in STRUCT_VARS:
        owner = cx.self_as if base[1] == "self" else base[1]
        nm = "%s_%s" % (owner, f)
        return nm, cx.types.get(nm)
    a, ta = ex(base, cx)
    if ta == "vweight" and f in ("low", "high"):
        return "%s.%s" % (a, "1" if f == "low" else "2"), "real"
    if ta in ("real", "ff") and f == "0":
        return a, ta
    if ta == "cx" and f == "0":
        raise Untranslatable("field 0 of a complex number")
    if isinstance(ta, tuple) and ta[0] == "tuple" and f in ("0", "1", "2"):
        i = int(f)
        return "%s.%d" % (a, i + 1), ta[1][i] if i < len(ta[1]) else None
    if ta == "wpair" and f in ("0", "1"):
        return "%s.%d" % (a, int(f) + 1), "real"
    if ta == "pmodel" and f in ("true_assignments", "false_assignments"):
        return "(CliAux.%s %s)" % ("trueAssignments" if f[0] == "t" else "falseAssignments", a), ("list", "nat")
    if ta == "polyv" and f == "len":
        return "%s.len" % a, "nat"
    if ta == "polyv" and f == "coefficients":
        return "%s.coeffs" % a, "coeffs"
    if ta == "cclause" and f in ("vars", "len"):
        return ("%s" % a if f == "vars" else "%s.length" % a), ("clist" if f == "vars" else "nat")
    raise Untranslatable("field .%s of %r" % (f, ta))


def struct(e, cx):
    name, fs = e[1], dict(e[2])
    if name == "PartialWmcResult":
        if set(fs) != {"partial_model", "mc", "wmc"}:
            raise Untranslatable("PartialWmcResult fields")
        a, _ = ex(fs["mc"], cx)
        b, _ = ex(fs["wmc"], cx)
        return "(%s, %s)" % (a, b), ("tuple", ["nat", "real"])
    if name == "PartialWmcOutput":
        if set(fs) != {"bdd_size", "results"}:
            raise Untranslatable("PartialWmcOutput fields")
        a, _ = ex(fs["bdd_size"], cx)
        b, _ = ex(fs["results"], cx)
        return "(%s, %s)" % (a, b), None
    if name == "WeightPoly":
        if set(fs) != {"low", "high"}:
            raise Untranslatable("WeightPoly fields")
        a, _ = ex(fs["low"], cx)
        b, _ = ex(fs["high"], cx)
        return "(%s, %s)" % (a, b), None
    raise Untranslatable("struct literal " + name)


def range_table(arg, cx):
    """HashMap::from_iter(<iterator>) -> (lean, tag)"""
    if arg[0] == "mcall" and arg[2] == "map" and len(arg[3]) == 1 and arg[3][0][0] == "closure":
        recv, cl = arg[1], arg[3][0]
        while recv[0] == "mcall" and recv[2] in IDENT_M:
            recv = recv[1]
        if recv[0] == "bin" and recv[1] == "..":
            if recv[2] != ("num", "0"):
                raise Untranslatable("table over a range not starting at 0")
            n, _ = ex(recv[3], cx)
            if len(cl[1]) != 1 or cl[1][0][0] != "pvar":
                raise Untranslatable("closure parameter")
            v = cl[1][0][1]
            body = cl[2]
            if body[0] == "block" and not body[1] and body[2] is not None:
                body = body[2]
            if body[0] != "tuple" or len(body[1]) != 2:
                raise Untranslatable("table entry is not a pair")
            c2 = cx.fork()
            c2.types[v] = "nat"
            key, _ = ex(body[1][0], c2)
            val, tv = ex(body[1][1], c2)
            if key != ln(v):
                raise Untranslatable("table key is not the range variable")
            st = tv[1][0] if isinstance(tv, tuple) and tv[0] == "tuple" else None
            return "(CliAux.Table.ofRange %s fun %s => %s)" % (n, ln(v), val), ("table", st)
        # a list of pairs: association list
        r, tr = ex(recv, cx)
        f, tf = closure_lean(cl, cx, elem_of(tr))
        if isinstance(tf, tuple) and tf[0] == "tuple" and tf[1] == ["nat", "str"]:
            return "(%s.map %s)" % (r, f), "assoc_ns"
        raise Untranslatable("from_iter over %r giving %r" % (tr, tf))
    raise Untranslatable("from_iter argument")


def builder_of(recv, cx):
    if recv[0] == "var" and recv[1] in cx.builders:
        return cx.builders[recv[1]]
    if recv[0] == "un" and recv[1] in ("*", "&"):
        return builder_of(recv[2], cx)
    return None


def call(e, cx):
    fn, args = e[1], e[2]
    path = fn[1] if fn[0] == "path" else [fn[1]] if fn[0] == "var" else None
    if path is None:
        raise Untranslatable("call of a computed function")
    p2 = tuple(path[-2:]) if len(path) >= 2 else (path[0],)
    name = path[-1]
    if p2 in (("VarLabel", "new"), ("VarLabel", "new_usize"), ("Box", "new"), ("Box", "into_raw"), ("Box", "from_raw"),
              ("serde_json", "to_string"), ("serde_json", "to_string_pretty")) and len(args) == 1:
        return ex(args[0], cx)
    if p2 in (("WeightF64",), ("WeightComplex",)) and len(args) == 2:
        return "(%s, %s)" % (ex(args[0], cx)[0], ex(args[1], cx)[0]), None
    if p2 in (("CStr", "from_ptr"), ("String", "from_utf8_lossy")) and len(args) == 1:
        return ex(args[0], cx)
    if p2 == ("RealSemiring",) and len(args) == 1:
        return ex(args[0], cx)[0], "real"
    if p2 in (("Some",),) and len(args) == 1:
        a, t = ex(args[0], cx)
        return "(some %s)" % a, ("opt", t)
    if len(path) >= 2 and path[-2] in ("FiniteField", "RealSemiring", "Complex", "PolyWeight") and name in ("one", "zero") and not args:
        tag = {"FiniteField": "ff", "RealSemiring": "real", "Complex": "cx", "PolyWeight": "poly"}[path[-2]]
        if tag == "poly":
            return ("(Sem.polyZero %s M)" if name == "zero" else "(Sem.polyOne %s M)") % cx.real, "polyv"
        return "%s.%s" % (sem_ops(cx, tag), name), tag
    if p2 == ("Vec", "new") and not args:
        return "[]", ("list", None)
    if p2 in (("HashMap", "new"),) and not args:
        return "CliAux.Table.empty", ("table", None)
    if p2 == ("HashMap", "from") and len(args) == 1 and args[0] == ("array", []):
        return "CliAux.Table.empty", ("table", None)
    if p2 == ("HashMap", "from_iter") and len(args) == 1:
        return range_table(args[0], cx)
    if p2 in (("WmcParams", "new"), ("PolyWmcParams", "new")) and len(args) == 1:
        a, t = ex(args[0], cx)
        st = t[1] if isinstance(t, tuple) and t[0] == "table" else None
        if st is None:
            st = cx.types.get("<elem>")
        if st is None:
            raise Untranslatable("semiring of the weight table is not determined")
        return "(CliAux.Table.params %s %s)" % (sem_ops(cx, st), a), ("weights", st)
    if p2 == ("LogicalExpr", "from_sexpr") and len(args) == 1:
        return cx.part("Ser.fromSexpr %s" % ex(args[0], cx)[0]), "expr"
    if p2 == ("VarOrder", "new") and len(args) == 1:
        return "(Orders.VarOrder.new %s)" % ex(args[0], cx)[0], "order"
    if p2 == ("VarOrder", "linear_order") and len(args) == 1:
        return "(Orders.VarOrder.linear %s)" % ex(args[0], cx)[0], "order"
    if p2 == ("PartialModel", "from_assignments") and len(args) == 1:
        return ex(args[0], cx)[0], "pmodel"
    if p2 == ("BDDSerializer", "from_bdd") and len(args) == 1:
        return "(Ser.serBdd %s)" % ex(args[0], cx)[0], "bddtable"
    if p2 == ("Cnf", "from_dimacs") and len(args) == 1:
        return cx.part("Ser.cnfFromDimacs %s" % ex(args[0], cx)[0]), "cnf"
    if p2 == ("Cnf", "new") and len(args) == 1:
        return "(Ser.cnfNew %s)" % ex(args[0], cx)[0], "cnf"
    if p2 == ("DTree", "from_cnf") and len(args) == 2:
        return cx.part("VT.DTree.fromCnf %s %s.posToVar" % (ex(args[0], cx)[0], ex(args[1], cx)[0])), "dtree"
    if p2 == ("BottomUpPlan", "from_dtree") and len(args) == 1:
        return "(Compile.Plan.fromDtree (CliAux.dtreeShape %s))" % ex(args[0], cx)[0], "plan"
    if p2 == ("VTree", "from_dtree") and len(args) == 1:
        return "(VT.VTree.fromDtree %s)" % ex(args[0], cx)[0], ("opt", "vtree")
    if p2 == ("DDNNFPtr", "unsmoothed_wmc") and len(args) == 2:
        b, tb = ex(args[0], cx)
        w, tw = ex(args[1], cx)
        if tb != "bdd":
            raise Untranslatable("unsmoothed_wmc of %r" % (tb,))
        st = tw[1] if isinstance(tw, tuple) else None
        return "(Bdd.wmc %s %s %s)" % (sem_ops(cx, st), w, b), st
    if p2 == ("slice", "from_raw_parts") and len(args) == 2:
        p, tp = ex(args[0], cx)
        n, _ = ex(args[1], cx)
        if tp == "cptr":
            return "((%s.getD []).take %s)" % (p, n), ("list", "real")
        if tp in ("carr", "clist", "cnfc"):
            return "(%s.take %s)" % (p, n), ("list", "cclause") if tp == "cnfc" else ("list", None)
        raise Untranslatable("from_raw_parts of %r" % (tp,))
    if p2 == ("slice", "from_raw_parts_mut") and len(args) == 2:
        p, tp = ex(args[0], cx)
        n, _ = ex(args[1], cx)
        if tp == "cbuf":
            return "((%s.getD []).take %s)" % (p, n), "buf"
        raise Untranslatable("from_raw_parts_mut of %r" % (tp,))
    if p2 == ("ptr", "null_mut") or p2 == ("ptr", "null"):
        return "none", None
    if p2 == ("Literal", "new") and len(args) == 2:
        return "(Spec.Lit.mk %s %s)" % (ex(args[0], cx)[0], ex(args[1], cx)[0]), "lit"
    if len(path) == 1 and name in cx.local_fns:
        return cx.local_fns[name](args, cx)
    if len(path) == 1 and getattr(cx, "src", None) and name not in getattr(cx, "inlining", ()):
        # a one-expression helper of the same file: inline it
        try:
            ps, body = find_fn(cx.src, name)
        except Untranslatable:
            raise Untranslatable("call of %s" % name)
        names = parse_params(ps)
        b = parse_body(body)
        if b[1] or b[2] is None or len(names) != len(args):
            raise Untranslatable("helper %s is not a single expression" % name)
        cx.inlining = set(getattr(cx, "inlining", ())) | {name}
        try:
            return ex(subst(b[2], dict(zip(names, args))), cx)
        finally:
            cx.inlining = cx.inlining - {name}
    raise Untranslatable("call of %s" % "::".join(path))


def subst(t, m):
    if isinstance(t, tuple):
        if len(t) == 2 and t[0] == "var" and t[1] in m:
            return m[t[1]]
        if t and t[0] == "closure":
            return t
        return tuple(subst(x, m) for x in t)
    if isinstance(t, list):
        return [subst(x, m) for x in t]
    return t


def list_like(t):
    return (isinstance(t, tuple) and t[0] == "list") or t in ("assoc_sn", "assoc_sw", "assoc_ns", "assoc_sb", "pmodel")


def mcall(e, cx):
    recv, name, args = e[1], e[2], e[3]
    if name == "with" and recv[0] == "var" and recv[1] in cx.shared["gnames"] and len(args) == 1 and args[0][0] == "closure" \
            and len(args[0][1]) == 1 and args[0][1][0][0] == "pvar":
        # a (thread-local) static: explicit state named after it
        g = recv[1]
        if g not in cx.shared["globals"]:
            cx.shared["globals"].append(g)
        cx.types[g] = "gmap"
        return ex(subst(args[0][2], {args[0][1][0][1]: ("var", g)}), cx)
    b = builder_of(recv, cx)
    if b is not None:
        return builder_call(b, name, args, cx)
    if name in IDENT_M and not args:
        return ex(recv, cx)
    if name == "unique_variables" and not args:
        return "(Ser.sortedNames %s.uniqueVariables)" % ex(recv, cx)[0], ("list", "str")
    if name == "variable_mapping" and not args:
        return "%s.variableMapping" % ex(recv, cx)[0], "assoc_sn"
    if name == "to_var_order" and len(args) == 1 and recv == ("var", "config") and "to_var_order" in cx.local_fns:
        return cx.local_fns["to_var_order"](args, cx)
    if name == "min_fill_order" and not args:
        r, t = ex(recv, cx)
        return "(Orders.minFillOrder %s %s_num_vars)" % (r, r), "order"
    if name == "force_order" and not args:
        r, t = ex(recv, cx)
        return cx.part("Orders.forceOrderFloat %s %s_num_vars" % (r, r)), "order"
    if name == "count_nodes" and not args:
        return "(Bdd.countNodes %s)" % ex(recv, cx)[0], "nat"
    if name == "unsmoothed_wmc" and len(args) == 1:
        r, tr = ex(recv, cx)
        w, tw = ex(args[0], cx)
        if tr != "bdd":
            raise Untranslatable("unsmoothed_wmc of %r" % (tr,))
        st = tw[1] if isinstance(tw, tuple) and tw[0] == "weights" else None
        return "(Bdd.wmc %s %s %s)" % (sem_ops(cx, st), w, r), st
    if name == "set_weight" and len(args) == 3:
        r, tr = ex(recv, cx)
        a = [ex(x, cx)[0] for x in args]
        return "(FfiAux.setWeight %s %s %s %s)" % (r, a[0], a[1], a[2]), tr
    if name == "var_weight" and len(args) == 1:
        r, tr = ex(recv, cx)
        st = tr[1] if isinstance(tr, tuple) else None
        return "(%s %s)" % (r, ex(args[0], cx)[0]), ("tuple", [st, st])
    r, tr = ex(recv, cx)
    if name == "abs" and not args and tr == "real":
        cx.shared["R"] = True
        return "(R.abs %s)" % r, "real"
    if name in ("values", "keys", "into_values", "into_keys") and not args and tr in ("assoc_sn", "assoc_sw", "assoc_ns", "assoc_sb"):
        el = elem_of(tr)[1]
        i = 1 if "key" in name else 2
        return "(%s.map (·.%d))" % (r, i), ("list", el[i - 1])
    if name in ("all", "any") and len(args) == 1 and list_like(tr):
        f, tf = closure_lean(args[0], cx, elem_of(tr))
        return "(%s.%s %s)" % (r, name, f), "bool"
    if name == "count" and not args and list_like(tr):
        return "%s.length" % r, "nat"
    if name == "contains_key" and len(args) == 1 and tr in ("assoc_sn", "assoc_ns", "assoc_sb", "assoc_sw", "gmap"):
        return "(CliAux.lookup %s %s).isSome" % (r, ex(args[0], cx)[0]), "bool"
    if name == "contains_key" and len(args) == 1 and isinstance(tr, tuple) and tr[0] == "table":
        return "(%s %s).isSome" % (r, ex(args[0], cx)[0]), "bool"
    if name == "get" and len(args) == 1 and tr == "gmap":
        return "(CliAux.lookup %s %s)" % (r, ex(args[0], cx)[0]), ("opt", None)
    if name == "len" and not args:
        return "%s.length" % r, "nat"
    if name == "min" and len(args) == 1:
        return "(min %s %s)" % (r, ex(args[0], cx)[0]), "nat"
    if name == "max" and len(args) == 1:
        return "(max %s %s)" % (r, ex(args[0], cx)[0]), "nat"
    if name == "is_none" and not args:
        return "%s.isNone" % r, "bool"
    if name == "is_some" and not args:
        return "%s.isSome" % r, "bool"
    if name == "is_null" and not args:
        if tr in ("cptr", "cbuf", "handle") or (isinstance(tr, tuple) and tr[0] == "opt"):
            return "%s.isNone" % r, "bool"
        if tr == "clist":
            return "false", "bool"
        raise Untranslatable("is_null of %r" % (tr,))
    if name == "is_empty" and not args:
        return "%s.isEmpty" % r, "bool"
    if name == "get" and len(args) == 1:
        k, _ = ex(args[0], cx)
        if isinstance(tr, tuple) and tr[0] == "table":
            return "(%s %s)" % (r, k), ("opt", ("tuple", [tr[1], tr[1]]))
        if tr in ("assoc_sn", "assoc_ns", "assoc_sb", "assoc_sw"):
            inner = {"assoc_sn": "nat", "assoc_ns": "str", "assoc_sb": "bool", "assoc_sw": "vweight"}[tr]
            return "(CliAux.lookup %s %s)" % (r, k), ("opt", inner)
        raise Untranslatable("get on %r" % (tr,))
    if name == "map" and len(args) == 1:
        if isinstance(tr, tuple) and tr[0] == "opt":
            f, tf = closure_lean(args[0], cx, tr[1])
            return "(%s.map %s)" % (r, f), ("opt", tf)
        if list_like(tr):
            f, tf = closure_lean(args[0], cx, elem_of(tr))
            return "(%s.map %s)" % (r, f), ("list", tf)
        raise Untranslatable("map on %r" % (tr,))
    if name == "filter" and len(args) == 1 and list_like(tr):
        f, tf = closure_lean(args[0], cx, elem_of(tr))
        return "(%s.filter %s)" % (r, f), tr
    if name in ("unwrap", "expect"):
        if tr == "bddtable" and recv[0] == "call" and recv[1][0] == "path" and recv[1][1][0] == "serde_json":
            return r, tr
        if isinstance(tr, tuple) and tr[0] == "opt":
            return "(%s.getD default)" % r, tr[1]
        raise Untranslatable("unwrap of %r" % (tr,))
    if name == "unwrap_or" and len(args) == 1:
        return "(%s.getD %s)" % (r, ex(args[0], cx)[0]), tr[1] if isinstance(tr, tuple) else None
    if name == "unwrap_or_else" and len(args) == 1 and args[0][0] == "closure":
        v = closure_value(args[0])
        inner = tr[1] if isinstance(tr, tuple) and tr[0] == "opt" else None
        if v is None:
            return "(%s.getD default)" % r, inner
        d, td = ex(v, cx)
        return "(%s.getD %s)" % (r, d), inner or td
    if name == "map_or" and len(args) == 2 and args[1][0] == "closure":
        inner = tr[1] if isinstance(tr, tuple) and tr[0] == "opt" else None
        d, td = ex(args[0], cx)
        f, tf = closure_lean(args[1], cx, inner)
        if d == "none":
            return "(%s.map %s)" % (r, f), ("opt", tf)
        return "((%s.map %s).getD %s)" % (r, f, d), tf or td
    raise Untranslatable("method %s on %r" % (name, tr))


def builder_call(b, name, args, cx):
    ops = "(Bdd.ops C %s %s)" % (b["lvl"], b["fuel"])
    if name == "compile_logical_expr" and len(args) == 1:
        a, _ = ex(args[0], cx)
        r = cx.part("Compile.compileExpr %s %s (Cli.toCompileExpr %s)" % (ops, b["st"], a))
        b["st"] = r + ".1"
        return r + ".2", "bdd"
    if name == "compile_plan" and len(args) == 1:
        a, _ = ex(args[0], cx)
        r = cx.part("Compile.compilePlan %s %s %s" % (ops, b["st"], a))
        b["st"] = r + ".1"
        return r + ".2", "bdd"
    if name == "compile_cnf" and len(args) == 1:
        a, _ = ex(args[0], cx)
        r = cx.part("Compile.compileCnf %s %s (Compile.sortClauses %s %s)" % (ops, b["st"], b["lvl"], a))
        b["st"] = r + ".1"
        return r + ".2", "bdd"
    if name == "smooth" and len(args) == 2:
        p, tp = ex(args[0], cx)
        n, _ = ex(args[1], cx)
        if tp != "bdd":
            raise Untranslatable("smooth of %r" % (tp,))
        return "(Bdd.smooth %s %s %s %s)" % (b["lvl"], b["varAt"], p, n), "bdd"
    if name == "condition_model" and len(args) == 2:
        p, tp = ex(args[0], cx)
        m, _ = ex(args[1], cx)
        return "(Bdd.condModel %s %s (Bdd.assignmentIter %s))" % (b["lvl"], p, m), "bdd"
    if name == "num_vars" and not args:
        if not b.get("numVars"):
            raise Untranslatable("num_vars of a fresh builder")
        return b["numVars"], "nat"
    raise Untranslatable("builder method " + name)


# ---------------------------------------------------------------------------------------------
# statements
# ---------------------------------------------------------------------------------------------

def assigned(stmts):
    """names of locals assigned / mutated by method call in a statement list (in order)"""
    out = []

    def add(x):
        if x not in out:
            out.append(x)

    def lhs_root(l):
        while l[0] in ("field", "index"):
            l = l[1]
        if l[0] == "un":
            return lhs_root(l[2])
        return l[1] if l[0] == "var" else None

    def walk(s):
        if s[0] == "assign":
            r = lhs_root(s[2])
            if r:
                add(r)
        elif s[0] == "expr":
            e = s[1]
            if e[0] == "mcall" and e[2] in ("insert", "push", "push_back", "clear", "remove"):
                rr = e[1]
                while rr[0] == "mcall" and rr[2] in IDENT_M and not rr[3]:
                    rr = rr[1]
                if rr[0] == "var":
                    add(rr[1])
            if e[0] in ("if",):
                for t in e[2][1]:
                    walk(t)
                if e[3] is not None and e[3][0] == "block":
                    for t in e[3][1]:
                        walk(t)
            if e[0] == "iflet":
                for t in e[3][1]:
                    walk(t)
            if e[0] == "block":
                for t in e[1]:
                    walk(t)
        elif s[0] == "for":
            for t in s[3][1]:
                walk(t)
    for s in stmts:
        walk(s)
    return out


def has_return(stmts):
    def w(s):
        if s[0] == "return":
            return True
        if s[0] == "expr" and s[1][0] in ("if", "iflet"):
            e = s[1]
            blk = e[2] if e[0] == "if" else e[3]
            els = e[3] if e[0] == "if" else e[4]
            if any(w(t) for t in blk[1]):
                return True
            if els is not None and els[0] == "block" and any(w(t) for t in els[1]):
                return True
            if els is not None and els[0] in ("if", "iflet") and w(("expr", els)):
                return True
        return False
    return any(w(s) for s in stmts)


def tup(names):
    return names[0] if len(names) == 1 else "(" + ", ".join(names) + ")"


def seq(stmts, tail, cx, fin, value_needed=False, special=None):
    """translate a statement list; `fin(cx, (lean, tag))` renders the end of the block from the value
    of the tail / a `return`; with tail None and value_needed False, fin gets None.
    Returns (lean, tag)."""
    if not stmts:
        if tail is not None:
            v = ex(tail, cx)
            return fin_flush(cx, fin, v)
        if value_needed:
            raise Untranslatable("block without a value")
        return fin(cx, None)
    s, rest = stmts[0], stmts[1:]

    def cont(c):
        return seq(rest, tail, c, fin, value_needed, special)

    if special is not None:
        r = special(s, rest, tail, cx, fin)
        if r is not None:
            return r
    if skippable(s):
        return cont(cx)
    k = s[0]
    if k == "let":
        pat, e, ty = s[1], s[3], s[4] if len(s) > 4 else None
        if pat[0] == "pvar" and pat[1] in cx.builders and e[0] == "call" and e[1] == ("var", "robdd_builder_from_ptr"):
            return cont(cx)
        if pat[0] == "pvar" and e[0] == "call" and e[1][0] == "path" and e[1][1][0] == "RobddBuilder" and e[1][1][-1] == "new" and len(e[2]) == 1:
            o, to = ex(e[2][0], cx)
            if to != "order":
                raise Untranslatable("builder over %r" % (to,))
            cx.builders[pat[1]] = {"lvl": "%s.get" % o, "varAt": "%s.varAtLevel" % o, "st": "C.empty", "fuel": "fuel", "numVars": None}
            return cont(cx)
        if ty and "WmcParams" in ty:
            cx.types["<elem>"] = "ff" if "FiniteField" in ty else "real" if "RealSemiring" in ty else "cx" if "Complex" in ty else None
        if ty and ty.startswith("HashMap") and e[0] == "mcall" and e[2] == "collect":
            v, tv = range_table(e[1], cx)
        else:
            v, tv = ex(e, cx)
        if not getattr(cx, "keep_elem", False):
            cx.types.pop("<elem>", None)
        pre = cx.hoist
        cx.hoist = []
        if pat[0] == "pvar":
            cx.types[pat[1]] = tv
            body = cont(cx)
            txt = "let %s := %s\n  %s" % (ln(pat[1]), v, body[0])
        elif pat[0] == "ptuple":
            p = pat_lean(pat, cx, tv)
            body = cont(cx)
            txt = "(match %s with\n  | %s =>\n  %s)" % (v, p, body[0])
        else:
            raise Untranslatable("let pattern")
        cx.hoist = pre
        return wrap_partial(cx, txt, body[1])
    if k == "return":
        if s[1] is None:
            if value_needed:
                raise Untranslatable("return without a value")
            return fin(cx, ("()", "<return>"))
        v = ex(s[1], cx)
        return fin_flush(cx, fin, v)
    if k == "assign":
        op, lhs, rhs = s[1], s[2], s[3]
        r, tr = ex(rhs, cx)
        pre = cx.hoist
        cx.hoist = []
        if lhs[0] == "var":
            x = ln(lhs[1])
            new = r if op == "=" else "(%s %s %s)" % (x, op[0], r)
        elif lhs[0] == "field" and lhs[1][0] == "var" and cx.types.get(lhs[1][1]) == "polyv" and lhs[2] == "len" and op == "=":
            x = ln(lhs[1][1])
            new = "{ %s with len := %s }" % (x, r)
        elif lhs[0] == "index" and lhs[1][0] == "field" and lhs[1][1][0] == "var" and cx.types.get(lhs[1][1][1]) == "polyv" \
                and lhs[1][2] == "coefficients" and op == "=":
            x = ln(lhs[1][1][1])
            i, _ = ex(lhs[2], cx)
            new = "{ %s with coeffs := %s.coeffs.set %s %s }" % (x, x, i, r)
        elif lhs[0] == "index" and lhs[1][0] == "var" and cx.types.get(lhs[1][1]) == "buf" and op == "=":
            x = ln(lhs[1][1])
            i, _ = ex(lhs[2], cx)
            new = "(%s.set %s %s)" % (x, i, r)
        else:
            raise Untranslatable("assignment target")
        body = cont(cx)
        cx.hoist = pre
        return wrap_partial(cx, "let %s := %s\n  %s" % (x, new, body[0]), body[1])
    if k == "for":
        return for_loop(s, cont, cx)
    if k == "expr":
        e = s[1]
        if e[0] == "mcall" and e[2] == "with" and e[1][0] == "var" and e[1][1] in cx.shared["gnames"] and len(e[3]) == 1 \
                and e[3][0][0] == "closure" and len(e[3][0][1]) == 1 and e[3][0][1][0][0] == "pvar":
            g = e[1][1]
            if g not in cx.shared["globals"]:
                cx.shared["globals"].append(g)
            cx.types[g] = "gmap"
            inner = subst(e[3][0][2], {e[3][0][1][0][1]: ("var", g)})
            body_stmts = list(inner[1]) + ([("expr", inner[2])] if inner[2] is not None else []) if inner[0] == "block" else [("expr", inner)]
            return seq(body_stmts + rest, tail, cx, fin, value_needed, special)
        if e[0] == "mcall" and e[2] in ("insert", "push", "push_back", "clear", "remove"):
            rr = e[1]
            while rr[0] == "mcall" and rr[2] in IDENT_M and not rr[3]:
                rr = rr[1]
            if rr[0] == "var":
                e = ("mcall", rr, e[2], e[3])
        if e[0] == "mcall" and e[1][0] == "var" and e[2] in ("clear", "remove") and cx.types.get(e[1][1]) == "gmap":
            x = e[1][1]
            a = [ex(y, cx)[0] for y in e[3]]
            new = "[]" if e[2] == "clear" else "(%s.filter fun p => !(p.1 == %s))" % (ln(x), a[0])
            body = cont(cx)
            return "let %s := %s\n  %s" % (ln(x), new, body[0]), body[1]
        if e[0] == "mcall" and e[1][0] == "var" and e[2] in ("insert", "push", "push_back") and e[1][1] not in cx.builders:
            x = e[1][1]
            tx = cx.types.get(x)
            a = [ex(y, cx)[0] for y in e[3]]
            if e[2] == "insert" and len(a) == 2 and isinstance(tx, tuple) and tx[0] == "table":
                new = "(CliAux.Table.insert %s %s %s)" % (ln(x), a[0], a[1])
            elif e[2] == "insert" and len(a) == 2 and tx in ("assoc_sn", "assoc_ns", "assoc_sb", "gmap"):
                new = "(CliAux.assocInsert %s %s %s)" % (ln(x), a[0], a[1])
            elif e[2] in ("push", "push_back") and len(a) == 1 and isinstance(tx, tuple) and tx[0] == "list":
                new = "(%s ++ [%s])" % (ln(x), a[0])
            else:
                raise Untranslatable("%s on %r" % (e[2], tx))
            pre = cx.hoist
            cx.hoist = []
            body = cont(cx)
            cx.hoist = pre
            return wrap_partial(cx, "let %s := %s\n  %s" % (ln(x), new, body[0]), body[1])
        if e[0] == "mcall" and e[2] == "set_weight":
            # `(*weights).set_weight(..)` as a statement: the table is the result
            v = ex(e, cx)
            root = e[1]
            while root[0] == "un":
                root = root[2]
            if root[0] != "var":
                raise Untranslatable("set_weight receiver")
            pre = cx.hoist
            cx.hoist = []
            body = cont(cx)
            cx.hoist = pre
            val = "(some %s)" % v[0] if root[1] in getattr(cx, "ptrs", ()) else v[0]
            return wrap_partial(cx, "let %s := %s\n  %s" % (ln(root[1]), val, body[0]), body[1])
        if e[0] == "if":
            return if_stmt(e, rest, tail, cx, fin, value_needed, special)
        if e[0] == "iflet":
            return iflet_stmt(e, rest, tail, cx, fin, value_needed, special)
        raise Untranslatable("statement %s" % (e[0] if e[0] != "mcall" else "call of ." + e[2]))
    raise Untranslatable("statement kind %s" % k)


def fin_flush(cx, fin, v):
    if cx.hoist and not getattr(cx, "partial_ok", False):
        raise Untranslatable("partial call in a total context")
    pending, cx.hoist = cx.hoist, []
    r = fin(cx, v)
    if pending:
        cx.hoist = pending
        r = (flush(cx, r[0]), r[1])
    return r


def wrap_partial(cx, txt, tag):
    """`txt` is the rest of the function (already rendered through fin); put the pending binds around it"""
    if cx.hoist:
        if not getattr(cx, "partial_ok", False):
            raise Untranslatable("partial call in a total context")
        txt = flush(cx, txt)
    return txt, tag


def if_stmt(e, rest, tail, cx, fin, value_needed, special):
    c, _ = ex(e[1], cx)
    if cx.hoist:
        raise Untranslatable("partial condition")
    blk, els = e[2], e[3]

    def cont(c2):
        return seq(rest, tail, c2, fin, value_needed, special)
    if has_return(blk[1]) or (els is not None and els[0] == "block" and has_return(els[1])) or blk[2] is not None:
        if blk[2] is not None and (rest or tail is not None):
            raise Untranslatable("if with a value in statement position")
        a = seq(list(blk[1]), None, cx.fork_keep(), lambda c2, v: fin(c2, v) if v is not None else cont(c2), False, special) \
            if blk[2] is None else seq(list(blk[1]), blk[2], cx.fork_keep(), fin, value_needed, special)
        if els is None:
            b = cont(cx.fork_keep())
        elif els[0] == "block":
            b = seq(list(els[1]), els[2], cx.fork_keep(),
                    (lambda c2, v: fin(c2, v) if v is not None else cont(c2)) if els[2] is None else fin, False, special)
        else:
            raise Untranslatable("else if")
        return "(if %s then\n  %s\n  else\n  %s)" % (c, a[0], b[0]), a[1] or b[1]
    # no return: a state update of the assigned locals
    muts = assigned(blk[1]) + [m for m in (assigned(els[1]) if els is not None and els[0] == "block" else []) if m not in assigned(blk[1])]
    muts = [m for m in muts if m not in cx.builders]
    if not muts:
        if all(skippable(x) for x in blk[1]):
            return cont(cx)
        raise Untranslatable("if without effect on the tracked state")
    st = tup([ln(m) for m in muts])
    a = seq(list(blk[1]), None, cx.fork_keep(), lambda c2, v: (st, None))
    b = (st, None) if els is None else seq(list(els[1]), None, cx.fork_keep(), lambda c2, v: (st, None))
    body = cont(cx)
    if len(muts) == 1:
        return "let %s := (if %s then\n  %s\n  else %s)\n  %s" % (st, c, a[0], b[0], body[0]), body[1]
    return "(match (if %s then\n  %s\n  else %s) with\n  | %s =>\n  %s)" % (c, a[0], b[0], st, body[0]), body[1]


def iflet_stmt(e, rest, tail, cx, fin, value_needed, special):
    pat, scrut, blk, els = e[1], e[2], e[3], e[4]
    s, ts = ex(scrut, cx)
    if cx.hoist:
        raise Untranslatable("partial scrutinee")

    def cont(c2):
        return seq(rest, tail, c2, fin, value_needed, special)
    c1 = cx.fork_keep()
    p = opt_pat(pat, c1, ts)
    if has_return(blk[1]) or blk[2] is not None or (els is not None and els[0] == "block" and (has_return(els[1]) or els[2] is not None)):
        a = seq(list(blk[1]), blk[2], c1, (lambda c2, v: fin(c2, v) if v is not None else cont(c2)) if blk[2] is None else fin, False, special)
        if els is None:
            b = cont(cx.fork_keep())
        elif els[0] == "block":
            b = seq(list(els[1]), els[2], cx.fork_keep(),
                    (lambda c2, v: fin(c2, v) if v is not None else cont(c2)) if els[2] is None else fin, False, special)
        else:
            raise Untranslatable("else if let")
        return "(match %s with\n  | %s =>\n  %s\n  | _ =>\n  %s)" % (s, p, a[0], b[0]), a[1] or b[1]
    raise Untranslatable("if let without return in statement position")


def _fork_keep(self):
    ok = getattr(self, "partial_ok", False)
    c = self.fork()
    c.partial_ok = ok
    c.n = self.n + 100
    return c


Cx.fork_keep = _fork_keep


def for_loop(s, cont, cx):
    pat, it, blk = s[1], s[2], s[3]
    muts = [m for m in assigned(blk[1]) if m not in cx.builders]
    if not muts or blk[2] is not None:
        raise Untranslatable("for loop without tracked state")
    st = tup([ln(m) for m in muts])
    c2 = cx.fork()
    # iterator
    enum = False
    itx = it
    if itx[0] == "mcall" and itx[2] == "enumerate" and not itx[3]:
        enum = True
        itx = itx[1]
    li, tl = ex(itx, cx)
    if cx.hoist:
        raise Untranslatable("partial iterator")
    if not list_like(tl):
        raise Untranslatable("for over %r" % (tl,))
    el = elem_of(tl)
    if enum:
        if pat[0] != "ptuple" or len(pat[1]) != 2:
            raise Untranslatable("enumerate pattern")
        pi = pat_lean(pat[1][0], c2, "nat")
        pv = pat_lean(pat[1][1], c2, el)
        li = "(List.zipIdx %s)" % li
        p = "(%s, %s)" % (pv, pi)
    else:
        p = pat_lean(pat, c2, el)
    body = seq(list(blk[1]), None, c2, lambda c3, v: (st, None))
    if c2.hoist:
        raise Untranslatable("partial call in a loop body")
    after = cont(cx)
    loop = "(%s.foldl (fun %s %s =>\n  %s) %s)" % (li, st, p, body[0], st)
    if len(muts) == 1:
        return "let %s := %s\n  %s" % (st, loop, after[0]), after[1]
    return "(match %s with\n  | %s =>\n  %s)" % (loop, st, after[0]), after[1]


# ---------------------------------------------------------------------------------------------
# tail distribution (a `match` / `if` in tail position whose branches have statements)
# ---------------------------------------------------------------------------------------------

def needs_dist(t):
    if t is None:
        return False
    if t[0] == "match":
        return any(b[0] == "block" and b[1] for _, _, b in t[2])
    return False


_seq_plain = seq


def seq(stmts, tail, cx, fin, value_needed=False, special=None):  # noqa: F811
    if not stmts and needs_dist(tail):
        s, ts = ex(tail[1], cx)
        if cx.hoist:
            raise Untranslatable("partial scrutinee")
        arms = []
        tag = None
        for pat, guard, body in canon_arms(tail[2]):
            if guard is not None:
                raise Untranslatable("match guard")
            c2 = cx.fork_keep()
            p = opt_pat(pat, c2, ts)
            if body[0] == "block":
                r = _seq_plain(list(body[1]), body[2], c2, fin, value_needed, special)
            else:
                r = _seq_plain([], body, c2, fin, value_needed, special)
            tag = tag or r[1]
            arms.append("| %s =>\n  %s" % (p, r[0]))
        return "(match %s with\n  %s)" % (s, "\n  ".join(arms)), tag
    return _seq_plain(stmts, tail, cx, fin, value_needed, special)


# ---------------------------------------------------------------------------------------------
# functions
# ---------------------------------------------------------------------------------------------

CLI_B = "{α : Type} (C : Bdd.CacheImpl) (fuel : Nat) (S : SROps α) (P : Nat)"
T_EXPR, T_ORDER, T_W = "Ser.LogicalExpr", "Orders.VarOrder", "Spec.Weights α"
T_PM = "List (List (Option Bool))"
T_INV, T_MAP = "List (Nat × String)", "List (String × Nat)"
FLAGS = ("verbose", "silent")

SINGLE_PARAMS = [("expr", T_EXPR, "expr"), ("num_vars", "Nat", "nat"), ("order", T_ORDER, "order"), ("params", T_W, ("weights", "real"))]
PARTIAL_PARAMS = SINGLE_PARAMS + [("partials", T_PM, ("list", "pmodel")), ("inverse_mapping", T_INV, "assoc_ns")]
GPA_PARAMS = [("partials", "List (List (String × Bool))", ("list", "assoc_sb")), ("inverse_mapping", T_INV, "assoc_ns"), ("num_vars", "Nat", "nat")]
TVO_PARAMS = [("config_order", "Option (List String)", ("opt", ("list", "str"))), ("mapping", T_MAP, "assoc_sn")]


def local_call(lean, prefix, callee_params, partial):
    """a call of another translated function of the same file: positional, flags dropped"""
    def f(args, cx):
        names = callee_params()
        if len(args) != len(names):
            raise Untranslatable("arity of the call of " + lean)
        a = [ex(x, cx)[0] for x, n in zip(args, names) if n not in FLAGS]
        pre = prefix
        if USES_R.get(lean):
            cx.shared["R"] = True
            pre = prefix + " R"
        txt = "%s %s %s" % (lean, pre, " ".join(a))
        if partial:
            return cx.part(txt), None
        return "(" + txt + ")", None
    return f


def normalize(t):
    """a block whose last item is an `if` / `if let` without `else` (or a skipped macro) written without `;`:
    that item is a statement, not the block's value"""
    if isinstance(t, tuple):
        t = tuple(normalize(x) for x in t)
        if len(t) == 3 and t[0] == "block" and isinstance(t[1], list) and t[2] is not None:
            tl = t[2]
            if (tl[0] == "if" and tl[3] is None) or (tl[0] == "iflet" and tl[4] is None) or (tl[0] == "macro" and tl[1] in SKIP_MACROS):
                return ("block", t[1] + [("expr", tl)], None)
        return t
    if isinstance(t, list):
        return [normalize(x) for x in t]
    return t


_parse_body_raw = parse_body


def parse_body(text):  # noqa: F811
    return normalize(_parse_body_raw(text))


def split_macro_args(raw):
    parts, cur, depth = [], [], 0
    for t in raw:
        if t in "([{":
            depth += 1
        elif t in ")]}":
            depth -= 1
        if t == "," and depth == 0:
            parts.append(cur)
            cur = []
        else:
            cur.append(t)
    if cur:
        parts.append(cur)
    return parts


def parse_tokens(toks):
    from rustmini_cli import Parser
    p = Parser(list(toks))
    e = p.expr()
    if not p.at_end():
        raise Untranslatable("macro argument")
    return e


def typed_params(text):
    """`a: T, mut b: &U` -> [(name, type text)]"""
    out, depth, cur = [], 0, ""
    for ch in text + ",":
        if ch in "<([":
            depth += 1
        elif ch in ">)]":
            depth -= 1
        if ch == "," and depth == 0:
            cur = cur.strip()
            if cur:
                nm, _, ty = cur.partition(":")
                nm = re.sub(r"^(&\s*)?('[a-z_]+\s+)?(mut\s+)?", "", nm.strip()).strip()
                out.append((nm, ty.strip()))
            cur = ""
        else:
            cur += ch
    return out


PLAIN_TYPES = {"bool": ("Bool", "bool"), "usize": ("Nat", "nat"), "u64": ("Nat", "nat"), "u32": ("Nat", "nat"), "u128": ("Nat", "nat"),
               "f64": ("α", "real"), "String": ("String", "str"), "&str": ("String", "str"), "&String": ("String", "str"),
               "VarLabel": ("Nat", "nat")}


def bind_params(ps, table, drop=FLAGS):
    """binders and tags of a function from its Rust parameter list: the parameters of `table` keep the table's
    Lean type; a parameter the table does not know gets a binder from its Rust type (bool / integer / f64 / String),
    so a NEW parameter shows up as a definition of a different type.  Returns (binder text, tags, names)."""
    known = {n: (t, g) for n, t, g in table}
    out, tags, names = [], {}, []
    for nm, ty in typed_params(ps):
        if nm in drop or nm in ("self", "&self"):
            continue
        if nm in known:
            t, g = known[nm]
        elif ty.replace(" ", "") in PLAIN_TYPES or ty in PLAIN_TYPES:
            t, g = PLAIN_TYPES.get(ty, PLAIN_TYPES.get(ty.replace(" ", "")))
        else:
            raise Untranslatable("parameter %s of a type without a model counterpart: %s" % (nm, ty))
        out.append("(%s : %s)" % (ln(nm), t))
        tags[nm] = g
        names.append(nm)
    return " ".join(out), tags, names


def find_globals(src):
    """names of `static` items (also inside `thread_local!`): state that outlives a call"""
    return set(re.findall(r"\bstatic\s+(?:mut\s+)?([A-Z_][A-Z0-9_]*)\s*:", strip_comments(src)))


USES_R = {}


class Result:
    """outcome of one translation: the body, the binders read from the source, what else it needs"""

    def __init__(self, body, binders=None, extra="", cx=None):
        self.body, self.binders, self.extra = body, binders, extra
        self.R = bool(cx and cx.shared["R"])
        self.globals = list(cx.shared["globals"]) if cx else []


def check_params(ps, expected):
    got = [p for p in parse_params(ps) if p not in FLAGS]
    if got != expected:
        raise Untranslatable("parameter list %r (expected %r)" % (got, expected))


def tr_single_wmc(src):
    ps, body = find_fn(src, "single_wmc")
    binders, tags, _ = bind_params(ps, SINGLE_PARAMS)
    ast = parse_body(body)
    cx = Cx(tags)
    cx.shared["gnames"] = find_globals(src)
    cx.partial_ok = True
    state = {"labels": None}

    def special(s, rest, tail, c, fin):
        if s[0] == "expr" and s[1][0] == "if" and s[1][3] is None and only_flags(s[1][1]):
            blk = s[1][2]
            ms = [x for x in blk[1]] + ([blk[2]] if blk[2] is not None else [])
            ms = [x[1] if x[0] == "expr" else x for x in ms]
            if len(ms) == 1 and ms[0][0] == "macro" and ms[0][1] == "println" and "model count" in ms[0][2][0]:
                if s[1][1] != ("un", "!", ("var", "silent")):
                    raise Untranslatable("result line under another condition than `!silent`")
                parts = split_macro_args(ms[0][2])
                fmt = parts[0][0]
                labels = fmt[1:-1].split("{}")
                if len(labels) != len(parts) or labels[-1] != "":
                    raise Untranslatable("format string / argument count")
                vals = [ex(parse_tokens(a), c)[0] for a in parts[1:]]
                if c.hoist:
                    raise Untranslatable("partial call in the result line")
                state["labels"] = labels[:-1]
                r = seq(rest, tail, c, fin, False, special)
                return "let out_ := (%s)\n  %s" % (", ".join(vals), r[0]), r[1]
        return None

    def fin(c, v):
        if state["labels"] is None:
            raise Untranslatable("result line not found")
        return "some out_", None
    txt, _ = seq(list(ast[1]), ast[2], cx, fin, False, special)
    txt = flush(cx, txt)
    return Result(txt, binders, "def singleWmcLabels : List String := [%s]\n" % ", ".join('"%s"' % x for x in state["labels"]), cx)


def tr_partial_wmcs(src):
    ps, body = find_fn(src, "partial_wmcs")
    binders, tags, _ = bind_params(ps, PARTIAL_PARAMS)
    ast = parse_body(body)
    cx = Cx(tags)
    cx.shared["gnames"] = find_globals(src)
    cx.partial_ok = True
    cx.local_fns = {"serialize_partial_model": lambda args, c: ("()", None)}
    txt, _ = seq(list(ast[1]), ast[2], cx, lambda c, v: ("some %s" % v[0], None), True)
    return Result(flush(cx, txt), binders, "", cx)


def tr_total(src, name, params, hint=None, self_as="config", real="S", extra_types=None):
    ps, body = find_fn(src, name, hint)
    ast = parse_body(body)
    has_self = any(n in ("self", "&self") for n, _ in typed_params(ps))
    binders, tags, _ = bind_params(ps, params)
    if has_self:   # the fields of `self` that the table lists come first
        selfp = [p for p in params if p[0].startswith(self_as + "_")]
        binders = " ".join("(%s : %s)" % (p[0], p[1]) for p in selfp) + " " + binders
        tags.update({p[0]: p[2] for p in selfp})
    cx = Cx(tags, real=real, self_as=self_as)
    cx.shared["gnames"] = find_globals(src)
    if extra_types:
        cx.types.update(extra_types)
    txt, _ = seq(list(ast[1]), ast[2], cx, lambda c, v: v, True)
    if cx.hoist:
        raise Untranslatable("partial call in a total function")
    return Result(txt, binders, "", cx)


def tr_wmc_main(src):
    ps, body = find_fn(src, "main")
    ast = parse_body(body)
    inputs = {"sexpr": "sexpr", "weights": "assoc_sw", "config_order": ("opt", ("list", "str")),
              "config_partials": ("opt", ("list", "assoc_sb"))}
    cx = Cx(inputs)
    cx.shared["gnames"] = find_globals(src)
    cx.partial_ok = True
    callee = {}
    for nm, tbl in (("single_wmc", SINGLE_PARAMS), ("partial_wmcs", PARTIAL_PARAMS), ("generate_partial_assignments", GPA_PARAMS)):
        callee[nm] = (lambda n: (lambda: parse_params(find_fn(src, n)[0])))(nm)
    cx.local_fns = {
        "single_wmc": local_call("singleWmcOut", "C fuel S P", callee["single_wmc"], True),
        "partial_wmcs": local_call("partialWmcs", "C fuel S P", callee["partial_wmcs"], True),
        "generate_partial_assignments": local_call("generatePartialAssignments", "", callee["generate_partial_assignments"], False),
        "to_var_order": lambda args, c: ("(toVarOrder config_order %s)" % ex(args[0], c)[0], ("opt", "order")),
    }
    SKIP = {"args", "file", "config", "weights", "sexpr"}
    done = {"dispatch": False}

    def special(s, rest, tail, c, fin):
        if s[0] == "let" and s[1][0] == "pvar" and s[1][1] in SKIP:
            return seq(rest, tail, c, fin, False, special)
        # the weight table: a `map` closure that mutates captured locals
        if s[0] == "let" and s[1][0] == "pvar" and s[3][0] == "call" and s[3][1] == ("path", ["HashMap", "from_iter"]) \
                and len(s[3][2]) == 1 and s[3][2][0][0] == "mcall" and s[3][2][0][2] == "map" \
                and s[3][2][0][3] and s[3][2][0][3][0][0] == "closure":
            m = s[3][2][0]
            cl = m[3][0]
            bodyb = cl[2]
            if bodyb[0] == "block":
                inner = list(bodyb[1])
                mt = bodyb[2]
                allst = inner + ([("expr", mt)] if mt is not None else [])
                muts = []
                for st_ in allst:
                    if st_[0] == "expr" and st_[1][0] == "match":
                        for _, _, b in st_[1][2]:
                            if b[0] == "block":
                                muts += [x for x in assigned(b[1]) if x not in muts]
                    else:
                        muts += [x for x in assigned([st_]) if x not in muts]
                if muts:
                    recv = m[1]
                    while recv[0] == "mcall" and recv[2] in IDENT_M:
                        recv = recv[1]
                    r, tr_ = ex(recv, c)
                    c2 = c.fork()
                    if len(cl[1]) != 1:
                        raise Untranslatable("closure arity")
                    p = pat_lean(cl[1][0], c2, elem_of(tr_))
                    sem = {"t": None}

                    def cfin(c3, v):
                        t = v[1]
                        if isinstance(t, tuple) and t[0] == "tuple" and isinstance(t[1][1], tuple):
                            sem["t"] = t[1][1][1][0]
                        return "(%s, CliAux.Table.insert tbl_ %s.1 %s.2)" % (", ".join(ln(x) for x in muts), v[0], v[0]), None
                    b, _ = seq(inner, mt, c2, cfin, True)
                    if c2.hoist:
                        raise Untranslatable("partial call in the weight closure")
                    x = s[1][1]
                    c.types[x] = ("table", sem["t"])
                    after = seq(rest, tail, c, fin, False, special)
                    st = ", ".join(ln(y) for y in muts)
                    return ("(match (%s.foldl (fun (%s, tbl_) %s =>\n  %s) (%s, CliAux.Table.empty)) with\n  | (%s, %s) =>\n  %s)"
                            % (r, st, p, b, st, st, ln(x), after[0])), after[1]
        if s[0] == "expr" and s[1][0] == "iflet" and s[1][2] == ("field", ("var", "config"), "partials"):
            e = s[1]
            if not all(skippable(x) for x in rest) or tail is not None:
                raise Untranslatable("statements with effect after the dispatch")
            c1 = c.fork_keep()
            p = opt_pat(e[1], c1, c.types.get("config_partials"))

            def sp2(s2, rest2, tail2, c3, fin2):
                if s2[0] == "expr" and s2[1][0] == "iflet" and s2[1][2] == ("field", ("var", "args"), "output"):
                    return seq(rest2, tail2, c3, fin2, False, sp2)   # writing the JSON file
                return None
            a = seq(list(e[3][1]), e[3][2], c1, lambda c3, v: ("some (Sum.inl output)", None), False, sp2)
            els = e[4]
            if els is None or els[0] != "block":
                raise Untranslatable("dispatch without else")
            st2 = [x for x in els[1] if not skippable(x)]
            last = els[2] if els[2] is not None else (st2[-1][1] if st2 and st2[-1][0] == "expr" else None)
            if last is None or len(st2) > (0 if els[2] is not None else 1):
                raise Untranslatable("else branch of the dispatch")
            c4 = c.fork_keep()
            v, _ = ex(last, c4)
            b = flush(c4, "some (Sum.inr %s)" % v)
            done["dispatch"] = True
            return "(match config_partials with\n  | %s =>\n  %s\n  | _ =>\n  %s)" % (p, a[0], b), None
        return None

    def fin(c, v):
        raise Untranslatable("dispatch on `config.partials` not found")
    txt, _ = seq(list(ast[1]), ast[2], cx, fin, False, special)
    return Result(flush(cx, txt), None, "", cx)


def tr_formula_main(src):
    ps, body = find_fn(src, "main")
    ast = parse_body(body)
    cx = Cx({"sexpr": "sexpr", "args_ordering": "str", "config": ("opt", "cfg1")})
    cx.shared["gnames"] = find_globals(src)
    cx.partial_ok = True
    SKIP = {"args", "file", "config:top", "sexpr"}
    top = {"config": True}

    def special(s, rest, tail, c, fin):
        if s[0] == "let" and s[1][0] == "pvar" and (s[1][1] in SKIP or (s[1][1] == "config" and top["config"] and s[4] and "Option" in s[4])):
            return seq(rest, tail, c, fin, False, special)
        if s[0] == "expr" and s[1][0] == "macro" and s[1][1] == "println" and tail is None and not rest:
            parts = split_macro_args(s[1][2])
            if len(parts) != 2 or parts[0] != ['"{}"']:
                raise Untranslatable("output line")
            v = ex(parse_tokens(parts[1]), c)
            return fin(c, v)
        return None
    txt, _ = seq(list(ast[1]), ast[2], cx, lambda c, v: ("some %s" % v[0], None), False, special)
    return Result(flush(cx, txt), None, "", cx)


def tr_cnf_main(src):
    ps, body = find_fn(src, "main")
    ast = parse_body(body)
    cx = Cx({"file": "str", "args_order": "str", "args_strategy": "str"})
    cx.shared["gnames"] = find_globals(src)
    cx.partial_ok = True

    def special(s, rest, tail, c, fin):
        if s[0] == "let" and s[1][0] == "pvar" and s[1][1] in ("args", "file"):
            return seq(rest, tail, c, fin, False, special)
        if s[0] == "expr" and s[1][0] == "macro" and s[1][1] == "println" and tail is None and not rest:
            parts = split_macro_args(s[1][2])
            if len(parts) != 2 or parts[0] != ['"{}"']:
                raise Untranslatable("output line")
            v = ex(parse_tokens(parts[1]), c)
            return fin(c, v)
        return None
    txt, _ = seq(list(ast[1]), ast[2], cx, lambda c, v: ("some %s" % v[0], None), False, special)
    return Result(flush(cx, txt), None, "", cx)


# ---------------------------------------------------------------------------------------------
# the C interface
# ---------------------------------------------------------------------------------------------

def tr_ffi(src, name, types, real="S", ptrs=(), builders=None, fin=None, value_needed=True, partial=False, elem=None,
           local_fns=None, expect=None):
    ps, body = find_fn(src, name)
    extra_b = ""
    if expect is not None:
        got = typed_params(ps)
        missing = [n for n in expect if n not in [g[0] for g in got]]
        if missing:
            raise Untranslatable("parameter list %r (expected %r)" % ([g[0] for g in got], expect))
        new = [(n, t) for n, t in got if n not in expect]
        if new:   # a parameter the model's wrapper does not have: a binder from its Rust type
            extra_b, tags, _ = bind_params(", ".join("%s: %s" % x for x in new), [])
            types = dict(types, **tags)
    ast = parse_body(body)
    cx = Cx(types, real=real, builders=builders)
    cx.shared["gnames"] = find_globals(src)
    cx.src = src
    cx.ptrs = set(ptrs)
    cx.partial_ok = partial
    cx.local_fns = local_fns or {}
    if elem:
        cx.types["<elem>"] = elem
        cx.keep_elem = True
    f = fin or ((lambda c, v: ("some (%s)" % v[0], None)) if partial else (lambda c, v: v))
    txt, _ = seq(list(ast[1]), ast[2], cx, f, value_needed)
    if cx.hoist:
        if not partial:
            raise Untranslatable("partial call in a total function")
        txt = flush(cx, txt)
    r = Result(txt, None, "", cx)
    r.extra_binders = extra_b
    return r


MGR = {"builder": {"lvl": "lvl", "varAt": "varAt", "st": "st", "fuel": "fuel", "numVars": "numVars"}}
FCP = {"from_c_parts": lambda args, c: ("(fromCParts S M %s)" % " ".join(ex(a, c)[0] for a in args), "polyv")}
FCP2 = {"from_c_parts": lambda args, c: ("(fromCParts' S M %s)" % " ".join(ex(a, c)[0] for a in args), "polyv")}
OPOLY = ("opt", "polyv")


def poly_fns(src, suffix, fcp):
    """(lean name, binders, thunk, fallback) of the polynomial helpers of one file"""
    B = "{α : Type} (S : SROps α) (M : Nat)"
    return [
        ("from_c_parts", "fromCParts" + suffix, B + " (coeffs : Option (List α)) (len : Nat)",
         lambda: tr_ffi(src, "from_c_parts", {"coeffs": "cptr", "len": "nat"}, expect=["coeffs", "len"]),
         "FfiAux.fromCPartsLit S M coeffs len"),
        ("new_polynomial", "newPolynomial" + suffix, B + " (coeffs : Option (List α)) (len : Nat)",
         lambda: tr_ffi(src, "new_polynomial", {"coeffs": "cptr", "len": "nat"}, local_fns=fcp, expect=["coeffs", "len"]),
         "FfiAux.fromCPartsLit S M coeffs len"),
        ("polynomial_len", "polynomialLen" + suffix, "{α : Type} (p : Option (Sem.Poly α))",
         lambda: tr_ffi(src, "polynomial_len", {"p": OPOLY}, ptrs=["p"], expect=["p"]),
         "FfiAux.polynomialLen p"),
        ("polynomial_get_coeffs", "polynomialGetCoeffs" + suffix,
         B + " (p : Option (Sem.Poly α)) (buffer : Option (List α)) (max_len : Nat)",
         lambda: tr_ffi(src, "polynomial_get_coeffs", {"p": OPOLY, "buffer": "cbuf", "max_len": "nat"}, ptrs=["p"],
                        fin=lambda c, v: ("(%s, %s)" % (v[0], "dest" if "dest" in c.types else "(buffer.getD [])"), None),
                        expect=["p", "buffer", "max_len"]),
         "FfiAux.polynomialGetCoeffs S p buffer max_len"),
        ("wmc_param_poly_set_weight", "polySetWeight" + suffix,
         B + " (weights : Option (Spec.Weights (Sem.Poly α))) (var : Nat) (low_coeffs : Option (List α)) (low_len : Nat) "
             "(high_coeffs : Option (List α)) (high_len : Nat)",
         lambda: tr_ffi(src, "wmc_param_poly_set_weight",
                        {"weights": ("opt", ("weights", "poly")), "var": "nat", "low_coeffs": "cptr", "low_len": "nat",
                         "high_coeffs": "cptr", "high_len": "nat"}, ptrs=["weights"], local_fns=fcp,
                        fin=lambda c, v: ("weights", None), value_needed=False),
         "FfiAux.polySetWeight S M weights var low_coeffs low_len high_coeffs high_len"),
    ]


def ffi_fns(read):
    bdd, wmc, cnf, var = "src/ffi/bdd.rs", "src/ffi/wmc.rs", "src/ffi/cnf.rs", "src/ffi/var.rs"
    A = "{α : Type}"
    W = "(weights : Spec.Weights α) (var : Nat)"
    out = [
        (bdd, "robdd_model_count", "modelCount", "(P : Nat) (lvl varAt : Nat → Nat) (numVars : Nat) (bdd : Bdd.Ptr)",
         lambda: tr_ffi(read(bdd), "robdd_model_count", {"bdd": "bdd"}, real="Sem.realOps", builders=MGR, expect=["builder", "bdd"]),
         "FfiAux.modelCountLit P lvl varAt numVars bdd"),
        (bdd, "robdd_builder_compile_cnf", "compileCnf",
         "(C : Bdd.CacheImpl) (lvl varAt : Nat → Nat) (numVars : Nat) (fuel : Nat) (st : C.σ) (cnf : Spec.Cnf)",
         lambda: tr_ffi(read(bdd), "robdd_builder_compile_cnf", {"cnf": "cnf"}, builders=MGR, partial=True, expect=["builder", "cnf"]),
         "FfiAux.compileCnf C lvl fuel st cnf"),
        (bdd, "var_order_linear", "varOrderLinear", "(num_vars : Nat)",
         lambda: tr_ffi(read(bdd), "var_order_linear", {"num_vars": "nat"}), "Orders.VarOrder.linear num_vars"),
        (bdd, "cnf_from_dimacs", "cnfFromDimacs", "(dimacs_str : String)",
         lambda: tr_ffi(read(bdd), "cnf_from_dimacs", {"dimacs_str": "str"}, partial=True), "Ser.cnfFromDimacs dimacs_str"),
        (bdd, "bdd_wmc", "bddWmc", A + " (S : SROps α) (bdd : Bdd.Ptr) (wmc : Spec.Weights α)",
         lambda: tr_ffi(read(bdd), "bdd_wmc", {"bdd": "bdd", "wmc": ("weights", "real")}, expect=["bdd", "wmc"]), "Bdd.wmc S wmc bdd"),
        (bdd, "bdd_wmc_complex", "bddWmcComplex", "(bdd : Bdd.Ptr) (wmc : Spec.Weights Sem.Cx)",
         lambda: tr_ffi(read(bdd), "bdd_wmc_complex", {"bdd": "bdd", "wmc": ("weights", "cx")}, expect=["bdd", "wmc"]),
         "Bdd.wmc Sem.cxOps wmc bdd"),
        (cnf, "cnf_new", "cnfNew", "(clauses : List (List Spec.Lit)) (len : Nat)",
         lambda: tr_ffi(read(cnf), "cnf_new", {"clauses": "cnfc", "len": "nat"}, expect=["clauses", "len"]), "FfiAux.cnfNew clauses len"),
        (cnf, "cnf_min_fill_order", "cnfMinFillOrder", "(cnf : Spec.Cnf) (cnf_num_vars : Nat)",
         lambda: tr_ffi(read(cnf), "cnf_min_fill_order", {"cnf": "cnf"}), "Orders.minFillOrder cnf cnf_num_vars"),
        (var, "var_order_new", "varOrderNew", "(order : List Nat) (len : Nat)",
         lambda: tr_ffi(read(var), "var_order_new", {"order": "carr", "len": "nat"}, expect=["order", "len"]), "FfiAux.varOrderNew order len"),
        (var, "literal_new", "literalNew", "(label : Nat) (polarity : Bool)",
         lambda: tr_ffi(read(var), "literal_new", {"label": "nat", "polarity": "bool"}, expect=["label", "polarity"]),
         "Spec.Lit.mk label polarity"),
        ("src/ffi/dtree.rs", "dtree_from_cnf", "dtreeFromCnf", "(cnf : Spec.Cnf) (elim_order : Orders.VarOrder)",
         lambda: tr_ffi(read("src/ffi/dtree.rs"), "dtree_from_cnf", {"cnf": "cnf", "elim_order": "order"}, partial=True,
                        expect=["cnf", "elim_order"]),
         "VT.DTree.fromCnf cnf elim_order.posToVar"),
        ("src/ffi/vtree.rs", "vtree_from_dtree", "vtreeFromDtree", "(dtree : VT.DTree)",
         lambda: tr_ffi(read("src/ffi/vtree.rs"), "vtree_from_dtree", {"dtree": "dtree"}), "VT.VTree.fromDtree dtree"),
        (wmc, "new_wmc_params_f64", "newWmcParams", A + " (S : SROps α)",
         lambda: tr_ffi(read(wmc), "new_wmc_params_f64", {}, elem="real"), "FfiAux.newParams S"),
        (wmc, "new_wmc_params_complex", "newWmcParamsComplex", A + " (S : SROps α)",
         lambda: tr_ffi(read(wmc), "new_wmc_params_complex", {}, elem="real"), "FfiAux.newParams S"),
        (wmc, "wmc_param_f64_set_weight", "setWeight", A + " " + W + " (low high : α)",
         lambda: tr_ffi(read(wmc), "wmc_param_f64_set_weight", {"weights": ("weights", "real"), "var": "nat", "low": "real", "high": "real"},
                        expect=["weights", "var", "low", "high"]),
         "FfiAux.setWeight weights var low high"),
        (wmc, "wmc_param_complex_set_weight", "setWeightComplex", A + " " + W + " (low high : α)",
         lambda: tr_ffi(read(wmc), "wmc_param_complex_set_weight", {"weights": ("weights", "real"), "var": "nat", "low": "real", "high": "real"},
                        expect=["weights", "var", "low", "high"]),
         "FfiAux.setWeight weights var low high"),
        (wmc, "wmc_param_f64_var_weight", "varWeight", A + " " + W,
         lambda: tr_ffi(read(wmc), "wmc_param_f64_var_weight", {"weights": ("weights", "real"), "var": "nat"}, expect=["weights", "var"]),
         "FfiAux.varWeight weights var"),
        (wmc, "wmc_param_complex_var_weight", "varWeightComplex", A + " " + W,
         lambda: tr_ffi(read(wmc), "wmc_param_complex_var_weight", {"weights": ("weights", "real"), "var": "nat"}, expect=["weights", "var"]),
         "FfiAux.varWeight weights var"),
        (wmc, "weight_f64_lo", "weightLo", A + " (w : α × α)",
         lambda: tr_ffi(read(wmc), "weight_f64_lo", {"w": "wpair"}), "w.1"),
        (wmc, "weight_f64_hi", "weightHi", A + " (w : α × α)",
         lambda: tr_ffi(read(wmc), "weight_f64_hi", {"w": "wpair"}), "w.2"),
    ]
    for file, suffix, fcp in ((wmc, "", FCP), ("src/util/semirings/ffi_polynomial_semiring.rs", "'", FCP2)):
        for rust, lean, binders, thunk, fb in poly_fns(None, suffix, fcp):
            # bind the source lazily
            def mk(file=file, rust=rust, suffix=suffix, fcp=fcp):
                return lambda: dict((r, t) for r, _, _, t, _ in poly_fns(read(file), suffix, fcp))[rust]()
            out.append((file, rust, lean, binders, mk(), fb))
    return out


# ---------------------------------------------------------------------------------------------
# output
# ---------------------------------------------------------------------------------------------

HEADER = """import RsddModel.Lemmas.TieCliAux
/-!
# Generated by tools/gen_cli.py from bin/*.rs, src/ffi/*.rs, src/util/semirings/ffi_polynomial_semiring.rs — do not edit

Compared with the hand-written model (`Cli.*`, `Ffi.modelCount`, `Ffi.fromCParts`) and the literal mirrors
`CliAux.*` / `FfiAux.*` (Lemmas/TieCliAux.lean) in `Props/TieCli.lean`.  `Option` results: `none` = the model's
fuel ran out or the Rust panics.
-/
set_option linter.unusedVariables false
"""

UN = "UNTRANSLATED (translator route not available, tied by correspondence only): %s"


def write_if_changed(path, text):
    old = open(path).read() if os.path.exists(path) else None
    if old != text:
        open(path, "w").write(text)


DIFF = "DIFFERS (new state): %s"


def elaborate(path):
    """[(line, message)] of the errors `lean` reports for the generated file; None if lean cannot be run"""
    import subprocess
    lean_dir = os.path.join(ROOT, "lean")
    try:
        r = subprocess.run(["lake", "env", "lean", os.path.relpath(path, lean_dir)], cwd=lean_dir, capture_output=True, text=True, timeout=600)
    except (OSError, subprocess.SubprocessError):
        return None
    errs = []
    for m in re.finditer(r"^[^\n]*GenCli\.lean:(\d+):\d+: error:? ?([^\n]*)", r.stdout + r.stderr, re.M):
        errs.append((int(m.group(1)), m.group(2).strip()))
    if r.returncode != 0 and not errs:
        return None
    return errs


def main():
    FLAG_LOCALS.clear()
    USES_R.clear()
    status = {}
    cache = {}

    def read(rel):
        if rel not in cache:
            try:
                cache[rel] = open(os.path.join(REPO, rel)).read()
            except OSError as e:
                cache[rel] = e
        if isinstance(cache[rel], Exception):
            raise Untranslatable(str(cache[rel]))
        return cache[rel]

    entries = []   # dict(key, lean, prefix, table, thunk, fallback, post, alpha, ns)

    def add(ns, key, lean, prefix, table, thunk, fallback, post="", alpha="α"):
        entries.append(dict(ns=ns, key=key, lean=lean, prefix=prefix, table=table, thunk=thunk, fallback=fallback, post=post,
                            alpha=alpha, forced=None))

    WMC, FORM, CNF = "bin/weighted_model_count.rs", "bin/bottomup_formula_to_bdd.rs", "bin/bottomup_cnf_to_bdd.rs"
    sp = lambda ps: " ".join("(%s : %s)" % (ln(n), t) for n, t, _ in ps)  # noqa: E731
    add("Cli", "weighted_model_count::single_wmc", "singleWmcOut", CLI_B, sp(SINGLE_PARAMS), lambda: tr_single_wmc(read(WMC)),
        "CliAux.singleWmcOut C fuel S P expr num_vars order params",
        "def singleWmcLabels : List String := CliAux.singleWmcLabels\n")
    add("Cli", "weighted_model_count::partial_wmcs", "partialWmcs", CLI_B, sp(PARTIAL_PARAMS), lambda: tr_partial_wmcs(read(WMC)),
        "CliAux.partialWmcs C fuel S P expr num_vars order params partials inverse_mapping")
    add("Cli", "weighted_model_count::Config::to_var_order", "toVarOrder", "", sp(TVO_PARAMS),
        lambda: tr_total(read(WMC), "to_var_order", TVO_PARAMS, r"impl\s+Config"), "CliAux.toVarOrder config_order mapping")
    add("Cli", "weighted_model_count::generate_partial_assignments", "generatePartialAssignments", "", sp(GPA_PARAMS),
        lambda: tr_total(read(WMC), "generate_partial_assignments", GPA_PARAMS),
        "CliAux.generatePartialAssignments partials inverse_mapping num_vars")
    add("Cli", "weighted_model_count::main", "wmcMain", CLI_B,
        "(sexpr : Ser.LogicalSExpr) (weights : List (String × (α × α))) (config_order : Option (List String)) "
        "(config_partials : Option (List (List (String × Bool))))",
        lambda: tr_wmc_main(read(WMC)), "CliAux.wmcMain C fuel S P sexpr weights config_order config_partials")
    add("Cli", "bottomup_formula_to_bdd::main", "formulaMain", "(C : Bdd.CacheImpl) (fuel : Nat)",
        "(args_ordering : String) (config : Option (Option (List String))) (sexpr : Ser.LogicalSExpr)",
        lambda: tr_formula_main(read(FORM)), "CliAux.formulaMain C fuel args_ordering config sexpr", alpha=None)
    add("Cli", "bottomup_cnf_to_bdd::main", "cnfMain", "(C : Bdd.CacheImpl) (fuel : Nat)",
        "(args_order args_strategy : String) (file : String) (cnf_num_vars : Nat)",
        lambda: tr_cnf_main(read(CNF)), "CliAux.cnfMain C fuel args_order args_strategy file cnf_num_vars", alpha=None)
    fns = ffi_fns(read)
    fns.sort(key=lambda f: 0 if f[1] == "from_c_parts" else 1)   # the other polynomial helpers call it
    for file, rust, lean, binders, thunk, fb in fns:
        alpha = "α" if "{α : Type}" in binders else ("Rat" if rust == "robdd_model_count" else None)
        add("FfiMore", "%s::%s" % (file.split("/")[-1][:-3], rust), lean, "", binders, thunk, fb, alpha=alpha)

    # 1. translate
    for e in entries:
        try:
            r = e["thunk"]()
            if not isinstance(r, Result):
                r = Result(r)
            e["result"] = r
            if r.R:
                USES_R[e["lean"]] = True
        except (Untranslatable, KeyError, IndexError, ValueError, TypeError, AttributeError, RecursionError, AssertionError) as ex_:
            e["result"] = None
            e["error"] = str(ex_).replace("\n", " ")

    # 2. render (and re-render while a generated definition does not elaborate)
    def render():
        lines_of = []
        text = HEADER
        cur = None
        for e in entries:
            if e["ns"] != cur:
                if cur:
                    text += "end Gen.%s\n\n" % cur
                text += "namespace Gen.%s\nopen _root_.Bdd\n\n" % e["ns"]
                cur = e["ns"]
            r = e["result"]
            tbl_binders = " ".join(x for x in (e["prefix"], e["table"]) if x)
            if e["forced"] or r is None:
                why = e["forced"] or e["error"]
                status[e["key"]] = UN % why
                chunk = "-- TRANSLATOR ROUTE NOT AVAILABLE for %s: %s\ndef %s %s :=\n  %s\n%s\n" % (
                    e["key"], why[:300], e["lean"], tbl_binders, e["fallback"], e["post"])
            elif r.globals:
                status[e["key"]] = DIFF % ("static %s (state that outlives the call; read and/or written by the function; the model's "
                                           "definition has no such argument or result)" % ", ".join(r.globals))
                body = "\n".join("--   " + x for x in r.body.splitlines())
                chunk = "-- DIFFERS (new state) %s: the source was read, it threads the static(s) %s:\n%s\ndef %s %s :=\n  %s\n%s\n" % (
                    e["key"], ", ".join(r.globals), body, e["lean"], tbl_binders, e["fallback"], e["post"])
            else:
                status[e["key"]] = "translated"
                pre = e["prefix"]
                tab = r.binders if r.binders is not None else e["table"]
                if getattr(r, "extra_binders", ""):
                    tab = tab + " " + r.extra_binders
                rb = ""
                if r.R:
                    if not e["alpha"]:
                        status[e["key"]] = UN % "f64 arithmetic in a function without weights"
                    rb = "(R : CliAux.RealOps %s)" % (e["alpha"] or "Rat")
                if pre:
                    b = " ".join(x for x in (pre, rb, tab) if x)
                else:   # no model prefix: after the leading implicit / semiring binders of the table
                    m = re.match(r"((?:\{[^}]*\}\s*|\(S : SROps α\)\s*|\(M : Nat\)\s*|\(P : Nat\)\s*)*)(.*)", tab, re.S)
                    b = " ".join(x for x in (m.group(1).strip(), rb, m.group(2)) if x)
                chunk = "def %s %s :=\n  %s\n%s\n" % (e["lean"], b, r.body, r.extra)
            start = text.count("\n") + 1
            text += chunk
            lines_of.append((start, text.count("\n"), e))
        text += "end Gen.%s\n" % cur
        return text, lines_of

    text, lines_of = render()
    old = open(OUT).read() if os.path.exists(OUT) else None
    if old != text:
        for _ in range(5):
            open(OUT, "w").write(text)
            errs = elaborate(OUT)
            if not errs:
                break
            progress = False
            for ln_, msg in errs:
                for a, b, e in lines_of:
                    if a <= ln_ <= b and not e["forced"] and e["result"] is not None and not e["result"].globals:
                        e["forced"] = "the generated definition does not elaborate: " + msg[:200]
                        progress = True
            if not progress:
                break
            text, lines_of = render()
        write_if_changed(OUT, text)
    return status


if __name__ == "__main__":
    for k, v in main().items():
        print(k, "->", v)
