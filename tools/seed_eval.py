#!/usr/bin/env python3
"""Evaluate a seeded change: tools/seed_eval.py <seed-dir> <name> <property> [more properties…]

<seed-dir> holds patch.diff, demo.rs, README.md as written by a seeding sub-agent.
1. confirm it in a scratch worktree of /repo: patched tree builds, the pinned suite passes,
   the demo fails with the patch and passes without it;
2. apply the patch to /repo, run the quick check of each listed property, undo it;
3. store patch, demo and meta.json under /verif/seeded/<name>/.
"""
import json, os, shutil, subprocess, sys, time

ROOT = os.path.dirname(os.path.dirname(os.path.abspath(__file__)))


def sh(cmd, cwd=None, timeout=3600):
    e = dict(os.environ, CARGO_NET_OFFLINE="true")
    p = subprocess.run(cmd, cwd=cwd, stdout=subprocess.PIPE, stderr=subprocess.STDOUT, text=True, timeout=timeout, env=e)
    return p.returncode, p.stdout


def main():
    if sys.argv[1] == "--recheck":
        return recheck(sys.argv[2], sys.argv[3:])
    if sys.argv[1] == "--harmless":
        return harmless(sys.argv[2], sys.argv[3], sys.argv[4:])
    confirm_only = False
    if sys.argv[1] == "--confirm":
        # confirmation in a scratch worktree only (parallelisable); the checks are run later by --recheck
        confirm_only = True
        sys.argv.pop(1)
    seed, name, props = sys.argv[1], sys.argv[2], sys.argv[3:]
    patch = os.path.join(seed, "patch.diff")
    demo = os.path.join(seed, "demo.rs")
    wt = "/tmp/seedcheck_" + name
    meta = {"name": name, "breaks": props[0] if props else None, "checked_properties": props, "ran": []}
    sh(["git", "-C", "/repo", "worktree", "remove", "--force", wt])
    rc, o = sh(["git", "-C", "/repo", "worktree", "add", "--detach", wt, "HEAD"])
    assert rc == 0, o
    try:
        feats = []
        text = open(demo).read()
        fl = []
        if "ffi" in text or "extern \"C\"" in text:
            fl.append("ffi")
        if "CARGO_BIN_EXE" in text or "feature = \"cli\"" in text or "--features cli" in text:
            fl.append("cli")
        if fl:
            feats = ["--features", " ".join(fl)]
        td = ["--target-dir", wt + "/target"]
        os.makedirs(os.path.join(wt, "tests"), exist_ok=True)
        shutil.copy(demo, os.path.join(wt, "tests", "seed_demo.rs"))
        # demo without the patch
        rc0, o0 = sh(["cargo", "test", "--offline", "--test", "seed_demo"] + feats + td, cwd=wt)
        meta["demo_passes_without_patch"] = rc0 == 0
        meta["ran"].append("cargo test --offline --test seed_demo (clean tree): rc=%d" % rc0)
        rc, o = sh(["git", "apply", patch], cwd=wt)
        meta["patch_applies"] = rc == 0
        if rc != 0:
            meta["error"] = o[-400:]
        else:
            rc1, o1 = sh(["cargo", "test", "--offline", "--test", "seed_demo"] + feats + td, cwd=wt)
            meta["demo_fails_with_patch"] = rc1 != 0
            meta["ran"].append("cargo test --offline --test seed_demo (patched): rc=%d" % rc1)
            os.remove(os.path.join(wt, "tests", "seed_demo.rs"))
            rc2, o2 = sh(["cargo", "test", "--workspace", "--no-fail-fast", "--offline"] + td, cwd=wt)
            lines = [l for l in o2.split("\n") if l.startswith("test result")]
            meta["suite_passes_with_patch"] = rc2 == 0
            meta["suite_summary"] = lines
            meta["ran"].append("cargo test --workspace --no-fail-fast --offline (patched): rc=%d" % rc2)
    finally:
        sh(["git", "-C", "/repo", "worktree", "remove", "--force", wt])
    confirmed = meta.get("demo_passes_without_patch") and meta.get("demo_fails_with_patch") and meta.get("suite_passes_with_patch")
    meta["confirmed"] = bool(confirmed)
    # run our checks against it
    results = {}
    if confirmed and props and not confirm_only:
        rc, o = sh(["git", "-C", "/repo", "apply", os.path.abspath(patch)])
        assert rc == 0, o
        try:
            for p in props:
                t0 = time.time()
                rc, o = sh([sys.executable, os.path.join(ROOT, "tools", "check.py"), "--property", p, "--tier", "quick"], cwd=ROOT)
                viol = [l for l in o.split("\n") if l.startswith("VIOLATION")]
                verdict = ""
                rp = os.path.join(ROOT, "evidence", "replay", "%s-1.json" % p)
                if viol and os.path.exists(rp):
                    d = json.load(open(rp))
                    verdict = (d.get("case") or {}).get("verdict", "") or "; ".join(d.get("no_longer_checks", []))[:300]
                results[p] = {"exit": rc, "violation_line": viol[:1], "verdict": verdict[:400], "wall_s": round(time.time() - t0, 1)}
        finally:
            sh(["git", "-C", "/repo", "checkout", "--", "."])
            # evidence files must describe the unchanged tree again
            for p in ([] if os.environ.get("SEED_EVAL_NO_REFRESH") else props):
                sh([sys.executable, os.path.join(ROOT, "tools", "check.py"), "--property", p, "--tier", "quick"], cwd=ROOT)
    meta["check_results"] = results
    meta["caught_by"] = [p for p, r in results.items() if r["exit"] != 0]
    out = os.path.join(ROOT, "seeded", name)
    os.makedirs(out, exist_ok=True)
    shutil.copy(patch, os.path.join(out, "patch.diff"))
    shutil.copy(demo, os.path.join(out, "demo.rs"))
    if os.path.exists(os.path.join(seed, "README.md")):
        shutil.copy(os.path.join(seed, "README.md"), os.path.join(out, "README.md"))
    json.dump(meta, open(os.path.join(out, "meta.json"), "w"), indent=1)
    print(json.dumps({k: meta[k] for k in ["name", "confirmed", "caught_by"]}, indent=1))
    for p, r in results.items():
        print(p, r["exit"], r["verdict"][:200])


def run_checks(patch, props):
    results = {}
    rc, o = sh(["git", "-C", "/repo", "apply", os.path.abspath(patch)])
    assert rc == 0, o
    try:
        for p in props:
            t0 = time.time()
            rc, o = sh([sys.executable, os.path.join(ROOT, "tools", "check.py"), "--property", p, "--tier", "quick"], cwd=ROOT)
            viol = [l for l in o.split("\n") if l.startswith("VIOLATION")]
            verdict = ""
            rp = os.path.join(ROOT, "evidence", "replay", "%s-1.json" % p)
            if viol and os.path.exists(rp):
                d = json.load(open(rp))
                verdict = (d.get("case") or {}).get("verdict", "") or "; ".join(d.get("no_longer_checks", []))[:300]
            results[p] = {"exit": rc, "violation_line": viol[:1], "verdict": verdict[:400], "wall_s": round(time.time() - t0, 1)}
    finally:
        sh(["git", "-C", "/repo", "checkout", "--", "."])
        for p in ([] if os.environ.get("SEED_EVAL_NO_REFRESH") else props):
            sh([sys.executable, os.path.join(ROOT, "tools", "check.py"), "--property", p, "--tier", "quick"], cwd=ROOT)
    return results


def harmless(seed, name, props):
    """tools/seed_eval.py --harmless <dir> <name> <property>…: a BEHAVIOUR-PRESERVING change
    (refactoring).  Confirm in a scratch worktree that the pinned suite and the author's demo pass
    with it, then apply it to /repo, run the quick checks and record which of them raise an alarm
    (none should)."""
    patch = os.path.join(seed, "patch.diff")
    demo = os.path.join(seed, "demo.rs")
    wt = "/tmp/seedcheck_" + name
    meta = {"name": name, "kind": "harmless", "checked_properties": props, "ran": []}
    sh(["git", "-C", "/repo", "worktree", "remove", "--force", wt])
    rc, o = sh(["git", "-C", "/repo", "worktree", "add", "--detach", wt, "HEAD"])
    assert rc == 0, o
    try:
        td = ["--target-dir", wt + "/target"]
        rc, o = sh(["git", "apply", patch], cwd=wt)
        meta["patch_applies"] = rc == 0
        if rc == 0:
            feats = []
            if os.path.exists(demo):
                text = open(demo).read()
                fl = [f for f, k in (("ffi", "extern \"C\""), ("cli", "CARGO_BIN_EXE")) if k in text]
                if fl:
                    feats = ["--features", " ".join(fl)]
                os.makedirs(os.path.join(wt, "tests"), exist_ok=True)
                shutil.copy(demo, os.path.join(wt, "tests", "seed_demo.rs"))
                rc1, o1 = sh(["cargo", "test", "--offline", "--test", "seed_demo"] + feats + td, cwd=wt)
                meta["demo_passes_with_patch"] = rc1 == 0
                meta["ran"].append("cargo test --offline --test seed_demo (patched): rc=%d" % rc1)
                os.remove(os.path.join(wt, "tests", "seed_demo.rs"))
            rc2, o2 = sh(["cargo", "test", "--workspace", "--no-fail-fast", "--offline"] + td, cwd=wt)
            meta["suite_passes_with_patch"] = rc2 == 0
            meta["suite_summary"] = [l for l in o2.split("\n") if l.startswith("test result")]
            meta["ran"].append("cargo test --workspace --no-fail-fast --offline (patched): rc=%d" % rc2)
    finally:
        sh(["git", "-C", "/repo", "worktree", "remove", "--force", wt])
    meta["confirmed"] = bool(meta.get("patch_applies") and meta.get("suite_passes_with_patch") and meta.get("demo_passes_with_patch", True))
    results = run_checks(patch, props) if meta["confirmed"] else {}
    meta["check_results"] = results
    meta["alarms"] = [p for p, r in results.items() if r["exit"] != 0]
    out = os.path.join(ROOT, "seeded", name)
    os.makedirs(out, exist_ok=True)
    shutil.copy(patch, os.path.join(out, "patch.diff"))
    for f in ("demo.rs", "README.md"):
        if os.path.exists(os.path.join(seed, f)):
            shutil.copy(os.path.join(seed, f), os.path.join(out, f))
    json.dump(meta, open(os.path.join(out, "meta.json"), "w"), indent=1)
    print(json.dumps({k: meta[k] for k in ["name", "confirmed", "alarms"]}, indent=1))
    for p, r in results.items():
        if r["exit"] != 0:
            print(p, r["exit"], (r["violation_line"] or [""])[0][-60:], r["verdict"][:200])


def recheck(name, props):
    """tools/seed_eval.py --recheck <name> <property>…: run the quick checks again against an
    already confirmed seed (after a check was strengthened); earlier results are kept."""
    out = os.path.join(ROOT, "seeded", name)
    meta = json.load(open(os.path.join(out, "meta.json")))
    assert meta.get("confirmed"), "not a confirmed seed"
    results = run_checks(os.path.join(out, "patch.diff"), props)
    meta.setdefault("earlier_runs", []).append({"check_results": meta.get("check_results"), "caught_by": meta.get("caught_by")})
    merged = dict(meta.get("check_results") or {})
    merged.update(results)
    meta["check_results"] = merged
    meta["caught_by"] = [p for p, r in merged.items() if r["exit"] != 0]
    for p in props:
        if p not in meta["checked_properties"]:
            meta["checked_properties"].append(p)
    json.dump(meta, open(os.path.join(out, "meta.json"), "w"), indent=1)
    print(json.dumps({k: meta[k] for k in ["name", "confirmed", "caught_by"]}, indent=1))
    for p, r in results.items():
        print(p, r["exit"], r["verdict"][:200])


if __name__ == "__main__":
    main()
