#!/bin/bash
# usage: runtest.sh <label> <scratch-repo>   -> prints status lines + failing theorems
W=/tmp/tw/dnnf/verif
label=$1; repo=$2
st=$(cd $W && VERIF_REPO=$repo python3 tools/gen_dnnf.py 2>&1 | grep -v WARNING)
out=$(cd $W/lean && lake build RsddModel.Props.TieDnnf 2>&1)
untr=$(echo "$st" | grep UNTRANSLATED | sed 's/ -> UNTRANSLATED.*: / UNTR: /' | cut -c1-110 | tr '\n' ';')
if echo "$out" | grep -q "Build completed successfully"; then res="BUILD OK"; else
  if echo "$out" | grep -q "error: RsddModel/Model/GenDnnf"; then res="GEN FILE DOES NOT COMPILE"; else
  lines=$(echo "$out" | grep -o "error: RsddModel/Props/TieDnnf.lean:[0-9]*" | sed 's/.*://' | sort -un)
  ths=""
  for l in $lines; do th=$(head -n $l $W/lean/RsddModel/Props/TieDnnf.lean | grep -o "^theorem [a-z_A-Z0-9]*" | tail -1 | sed 's/theorem //'); ths="$ths $th"; done
  res="TIE FAILS:$(echo $ths | tr ' ' '\n' | sort -u | tr '\n' ' ')"; fi
fi
diff=$(echo "$st" | grep DIFFERS | cut -c1-120 | tr '\n' ';')
echo "$label | $res | ${untr:-${diff:-all translated}}${untr:+$diff}"
