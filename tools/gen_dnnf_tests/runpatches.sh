#!/bin/bash
S=/tmp/tw/dnnf/scratch_repo
for id in "$@"; do
  rm -rf $S; mkdir -p $S; cp -r /tmp/tw/repo_pristine/src $S/src
  (cd $S && patch -p1 -s < /tmp/tw/dnnf/verif/seeded/$id/patch.diff >/dev/null 2>&1) || echo "PATCH FAILED $id"
  /tmp/tw/dnnf/runtest.sh $id $S
done
rm -rf $S
