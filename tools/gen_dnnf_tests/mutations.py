import os, shutil, subprocess, sys
B='src/builder/decision_nnf/builder.rs'; ST='src/builder/decision_nnf/standard.rs'; SE='src/builder/decision_nnf/semantic.rs'
M=[
# (id, file, old, new, count_index, expect) expect: 'fail' or 'ok'
('m1-cond-wrong-branch',B,'let r = if value { bdd.high_raw() } else { bdd.low_raw() };','let r = if value { bdd.low_raw() } else { bdd.high_raw() };','fail'),
('m2-cond-eq-to-ne',B,'if l == h {','if l != h {','fail'),
('m3-cond-or-to-and',B,'l != bdd.low_raw() || h != bdd.high_raw()','l != bdd.low_raw() && h != bdd.high_raw()','fail'),
('m4-cond-node-children-swapped',B,'BddNode::new(node.var, l, h)','BddNode::new(node.var, h, l)','fail'),
('m5-cond-guard-negated',B,'if node.var == lbl =>','if node.var != lbl =>','fail'),
('m5b-cond-neg-dropped',B,'''                if bdd.is_neg() {
                    r.neg()
                } else {
                    r
                }
            }
            BddPtr::Reg(node) | BddPtr::Compl(node) => {''','''                r
            }
            BddPtr::Reg(node) | BddPtr::Compl(node) => {''','fail'),
('m6-conjoin-isfalse-to-istrue',B,'if nnf.is_false() {','if nnf.is_true() {','fail'),
('m7-conjoin-polarity-negated',B,'''        for l in literals {
            let node = if l.polarity() {''','''        for l in literals {
            let node = if !l.polarity() {''','fail'),
('m7b-conjoin-early-return-removed',B,'''        if nnf.is_false() {
            return BddPtr::false_ptr();
        }
        let mut sub = nnf;''','''        let mut sub = nnf;''','fail'),
('m8-topdown-ge-to-gt',B,'level >= cnf.num_vars()','level > cnf.num_vars()','fail'),
('m9-topdown-issat-dropped',B,'if level >= cnf.num_vars() || sat.is_sat() {','if level >= cnf.num_vars() {','fail'),
('m10-topdown-high-decides-false',B,'let high_bdd = match sat.decide(Literal::new(cur_v, true))','let high_bdd = match sat.decide(Literal::new(cur_v, false))','fail'),
('m11-topdown-filter-eq',B,'x.label() != cur_v','x.label() == cur_v','fail'),
('m12-topdown-cache-insert-removed',B,'        cache.insert(hashed, r);\n','','fail'),
('m13-topdown-node-children-swapped',B,'BddNode::new(cur_v, low_bdd, high_bdd)','BddNode::new(cur_v, high_bdd, low_bdd)','fail'),
('m15-topdown-skip-two-levels',B,'return self.topdown_h(cnf, sat, level + 1, cache);','return self.topdown_h(cnf, sat, level + 2, cache);','fail'),
('m16-topdown-pop-removed',B,'''                let r = self.conjoin_implied(new_assgn, BddPtr::true_ptr());
                sat.pop();''','''                let r = self.conjoin_implied(new_assgn, BddPtr::true_ptr());''','fail'),
('m17-compile-start-level-1',B,'self.topdown_h(cnf, &mut sat, 0,','self.topdown_h(cnf, &mut sat, 1,','fail'),
('m18-compile-unsat-returns-true',B,'None => return BddPtr::false_ptr(),','None => return BddPtr::true_ptr(),','fail'),
('m19-condition-value-negated',B,'let r = self.cond_helper(bdd, lbl, value);','let r = self.cond_helper(bdd, lbl, !value);','fail'),
('m20-var-polarity-negated',B,'''        if polarity {
            r
        }''','''        if !polarity {
            r
        }''','fail'),
('m21-topdown-cached-value-changed',B,'cache.insert(hashed, r);','cache.insert(hashed, high_bdd);','fail'),
('m22-topdown-cache-key-changed',B,'''        let hashed = sat.cur_hash();
        match cache.get(&hashed) {''','''        let hashed = sat.cur_hash();
        match cache.get(&sat.cur_hash()) {''','ok'),
('m23-topdown-unsat-arm-true',B,'''        let low_bdd = match sat.decide(Literal::new(cur_v, false)) {
            DecisionResult::UNSAT => BddPtr::false_ptr(),''','''        let low_bdd = match sat.decide(Literal::new(cur_v, false)) {
            DecisionResult::UNSAT => BddPtr::true_ptr(),''','fail'),
('s1-std-test-low',ST,'if bdd.high.is_neg() {','if bdd.low.is_neg() {','fail'),
('s2-std-neg-dropped',ST,'BddNode::new(bdd.var, bdd.low.neg(), bdd.high.neg())','BddNode::new(bdd.var, bdd.low, bdd.high.neg())','fail'),
('s3-std-compl-to-reg',ST,'BddPtr::Compl(tbl.get_or_insert(bdd))','BddPtr::Reg(tbl.get_or_insert(bdd))','fail'),
('s4-std-reg-to-compl',ST,'BddPtr::Reg(tbl.get_or_insert(bdd))','BddPtr::Compl(tbl.get_or_insert(bdd))','fail'),
('s5-std-test-negated',ST,'if bdd.high.is_neg() {','if !bdd.high.is_neg() {','fail'),
('s6-std-children-swapped',ST,'BddNode::new(bdd.var, bdd.low, bdd.high)','BddNode::new(bdd.var, bdd.high, bdd.low)','fail'),
('e1-sem-hit-reg-to-compl',SE,'return Some(BddPtr::Reg(bdd));','return Some(BddPtr::Compl(bdd));','fail'),
('e2-sem-neghit-compl-to-reg',SE,'return Some(BddPtr::Compl(bdd));','return Some(BddPtr::Reg(bdd));','fail'),
('e3-sem-negate-removed',SE,'        let semantic_hash = semantic_hash.negate();\n','','fail'),
('e4-sem-insert-compl',SE,'BddPtr::Reg(tbl.get_or_insert_by_hash(hash, bdd, true))','BddPtr::Compl(tbl.get_or_insert_by_hash(hash, bdd, true))','fail'),
('e5-sem-early-return-removed',SE,'''        if let Some(bdd) = self.check_cached_hash_and_neg(semantic_hash) {
            return bdd;
        }
''','','fail'),
('e6-sem-store-under-negated-hash',SE,'''            bdd.semantic_hash(&self.order, &self.map)
                .value()''','''            bdd.semantic_hash(&self.order, &self.map)
                .negate()
                .value()''','fail'),
# behaviour-preserving re-arrangements (robustness)
('r1-topdown-then-branch-low',B,'''        let r = if high_bdd == low_bdd {
            high_bdd''','''        let r = if high_bdd == low_bdd {
            low_bdd''','ok'),
('r2-cond-eq-commuted',B,'if l == h {','if h == l {','ok'),
('r3-conjoin-return-nnf',B,'''        if nnf.is_false() {
            return BddPtr::false_ptr();''','''        if nnf.is_false() {
            return nnf;''','ok'),
('r5-topdown-iflet-cache',B,'''        match cache.get(&hashed) {
            None => (),
            Some(v) => {
                return *v;
            }
        }''','''        if let Some(v) = cache.get(&hashed) {
            return *v;
        }''','ok'),
('r6-std-branches-flipped',ST,'''            if bdd.high.is_neg() {
                let bdd = BddNode::new(bdd.var, bdd.low.neg(), bdd.high.neg());
                BddPtr::Compl(tbl.get_or_insert(bdd))
            } else {
                let bdd = BddNode::new(bdd.var, bdd.low, bdd.high);
                BddPtr::Reg(tbl.get_or_insert(bdd))
            }''','''            if !bdd.high.is_neg() {
                let bdd = BddNode::new(bdd.var, bdd.low, bdd.high);
                BddPtr::Reg(tbl.get_or_insert(bdd))
            } else {
                let bdd = BddNode::new(bdd.var, bdd.low.neg(), bdd.high.neg());
                BddPtr::Compl(tbl.get_or_insert(bdd))
            }''','ok'),
('r7-sem-match-instead-of-iflet',SE,'''            if let Some(bdd) = tbl.get_by_hash(hash) {
                return Some(BddPtr::Reg(bdd));
            }''','''            match tbl.get_by_hash(hash) {
                Some(bdd) => return Some(BddPtr::Reg(bdd)),
                None => (),
            }''','ok'),
('r8-cond-early-return-to-else',B,'''                if l == h {
                    if bdd.is_neg() {
                        return l.neg();
                    } else {
                        return l;
                    };
                };
                let res = if l != bdd.low_raw() || h != bdd.high_raw() {''','''                let res = if l == h {
                    if bdd.is_neg() {
                        l.neg()
                    } else {
                        l
                    }
                } else if l != bdd.low_raw() || h != bdd.high_raw() {''','ok'),
('r9-compile-match-to-iflet',B,'''        let mut sat = match SATSolver::new(cnf.clone()) {
            Some(v) => v,
            None => return BddPtr::false_ptr(),
        };''','''        let mut sat = match SATSolver::new(cnf.clone()) {
            None => return BddPtr::false_ptr(),
            Some(solver) => solver,
        };''','ok'),
('r10-conjoin-swapped-branches',B,'''        for l in literals {
            let node = if l.polarity() {
                BddNode::new(l.label(), BddPtr::false_ptr(), sub)
            } else {
                BddNode::new(l.label(), sub, BddPtr::false_ptr())
            };''','''        for lit in literals {
            let lbl = lit.label();
            let node = if !lit.polarity() {
                BddNode::new(lbl, sub, BddPtr::false_ptr())
            } else {
                BddNode::new(lbl, BddPtr::false_ptr(), sub)
            };
            let l = lit;''','ok'),
('o1-bdd-low-no-neg','src/repr/bdd.rs','Compl(x) => x.low.neg(),','Compl(x) => x.low,','fail'),
('o2-bdd-high-reg-neg','src/repr/bdd.rs','Compl(x) => x.high.neg(),\n            Reg(x) => x.high,','Compl(x) => x.high.neg(),\n            Reg(x) => x.high.neg(),','fail'),
('o3-bdd-lowraw-returns-high','src/repr/bdd.rs','Compl(x) => x.low,\n            Reg(x) => x.low,','Compl(x) => x.high,\n            Reg(x) => x.low,','fail'),
('o4-bdd-isneg-reg-true','src/repr/bdd.rs','Compl(_) => true,\n            Reg(_) => false,','Compl(_) => true,\n            Reg(_) => true,','fail'),
('o5-bdd-neg-true-to-true','src/repr/bdd.rs','PtrTrue => PtrFalse,\n            PtrFalse => PtrTrue,','PtrTrue => PtrTrue,\n            PtrFalse => PtrTrue,','fail'),
('o6-bdd-neg-compl-stays','src/repr/bdd.rs','Compl(x) => Reg(x),\n            Reg(x) => Compl(x),','Compl(x) => Compl(x),\n            Reg(x) => Compl(x),','fail'),
('o7-bdd-isfalse-swapped','src/repr/bdd.rs','Compl(_) | Reg(_) | PtrTrue => false,\n            PtrFalse => true,','Compl(_) | Reg(_) | PtrFalse => false,\n            PtrTrue => true,','fail'),
('o8-bdd-varsafe-const-some','src/repr/bdd.rs','Compl(n) | Reg(n) => Some(n.var),\n            _ => None,','Compl(n) => Some(n.var),\n            _ => None,','fail'),
('ro1-bdd-isneg-wildcard','src/repr/bdd.rs','Compl(_) => true,\n            Reg(_) => false,\n            PtrTrue => false,\n            PtrFalse => false,','Compl(_) => true,\n            _ => false,','ok'),
('ro2-bdd-highraw-or-pattern','src/repr/bdd.rs','Compl(x) => x.high,\n            Reg(x) => x.high,','Compl(x) | Reg(x) => x.high,','ok'),
('r12-topdown-filter-not-eq','src/builder/decision_nnf/builder.rs','let new_assgn = sat.difference_iter().filter(|x| x.label() != cur_v);\n                let r = self.conjoin_implied(new_assgn, BddPtr::true_ptr());','let new_assgn = sat.difference_iter().filter(|x| !(x.label() == cur_v));\n                let r = self.conjoin_implied(new_assgn, BddPtr::true_ptr());','ok'),
('r16-condition-unused-map-or','src/builder/decision_nnf/builder.rs','let r = self.cond_helper(bdd, lbl, value);','let _is_top = bdd.var_safe().map_or(false, |top| top == lbl);\n        let r = self.cond_helper(bdd, lbl, value);','ok'),
('r17-compile-loop-over-collected-vec','src/builder/decision_nnf/builder.rs','for l in sat.difference_iter() {','let implied: Vec<Literal> = sat.difference_iter().collect();\n        for l in implied.iter() {','ok'),
('m24-compile-root-chain-reversed','src/builder/decision_nnf/builder.rs','for l in sat.difference_iter() {','for l in sat.difference_iter().rev() {','fail'),
('m25-topdown-filter-drops-all','src/builder/decision_nnf/builder.rs','let new_assgn = sat.difference_iter().filter(|x| x.label() != cur_v);\n                let r = self.conjoin_implied(new_assgn, sub);','let new_assgn = sat.difference_iter().skip(1);\n                let r = self.conjoin_implied(new_assgn, sub);','fail'),
('g1-guard-illtyped-cache-insert','src/builder/decision_nnf/builder.rs','cache.insert(hashed, r);','cache.insert(hashed, cur_v);','untr'),
('r18-cond-matches-macro','src/builder/decision_nnf/builder.rs','let r = self.cond_helper(bdd, lbl, value);','if matches!(bdd, BddPtr::PtrTrue | BddPtr::PtrFalse) {\n            return bdd;\n        }\n        let r = self.cond_helper(bdd, lbl, value);','ok'),
('r19-cond-tuple-let','src/builder/decision_nnf/builder.rs','let r = if value { bdd.high_raw() } else { bdd.low_raw() };','let (r, _other) = if value { (bdd.high_raw(), bdd.low_raw()) } else { (bdd.low_raw(), bdd.high_raw()) };','ok'),
('m26-compile-cache-into-builder-field','src/builder/decision_nnf/builder.rs','let mut r = self.topdown_h(cnf, &mut sat, 0, &mut FxHashMap::default());','let mut r = self.topdown_h(cnf, &mut sat, 0, &mut self.shared_cache().borrow_mut());','differs'),
]
S='/tmp/tw/dnnf/scratch_repo'
sel=sys.argv[1:]
for (mid,f,old,new,exp) in M:
    if sel and not any(mid.startswith(x) for x in sel): continue
    shutil.rmtree(S,ignore_errors=True); os.makedirs(S); shutil.copytree('/tmp/tw/repo_pristine/src',S+'/src')
    src=open(S+'/'+f).read()
    if old not in src:
        print(mid,'| PATTERN NOT FOUND'); continue
    src=src.replace(old,new,1)
    if mid.startswith('m26'): src=src.replace('fn stats(&self) -> DecisionNNFBuilderStats;','fn stats(&self) -> DecisionNNFBuilderStats;\n    fn shared_cache(&\'a self) -> &\'a std::cell::RefCell<FxHashMap<u128, BddPtr<\'a>>>;',1)
    open(S+'/'+f,'w').write(src)
    out=subprocess.run(['/tmp/tw/dnnf/runtest.sh',mid,S],capture_output=True,text=True).stdout.strip()
    res=out.split('|')[1].strip()
    good = (exp=='fail' and res.startswith('TIE FAILS')) or (exp=='ok' and res=='BUILD OK' and 'all translated' in out) or (exp=='untr' and res=='BUILD OK' and 'UNTR' in out) or (exp=='differs' and 'DIFFERS' in out)
    print(out,'| expected',exp,'|','PASS' if good else '***CHECK***',flush=True)
shutil.rmtree(S,ignore_errors=True)
