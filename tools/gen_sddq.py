#!/usr/bin/env python3
"""Translator route for the queries on SDD pointers and the semantic SDD builder
(src/repr/sdd.rs, src/repr/sdd/binary_sdd.rs, src/repr/sdd/sdd_or.rs, src/builder/sdd/semantic.rs,
the closure of `unsmoothed_wmc` in src/repr/ddnnf.rs): regenerates
`lean/RsddModel/Model/GenSddQ.lean` from the Rust text on every run; `Props/TieSddQ.lean` proves the
regenerated definitions equal to the hand-written model (`Model/Sdd.lean`, `Model/SddWmc.lean`,
`Model/ScratchSdd.lean`, `Model/SddSemantic.lean`; literal mirrors in `Lemmas/TieSddQAux.lean`).

The Rust is parsed by tools/rustmini_sddq.py.  Every function is located by name in its `impl`
block and its body is translated statement by statement / arm by arm by a small symbolic
interpreter (`E` expressions, `seq` statements in continuation style, `pmatch` patterns):

  * `let x = e;` / `x = e;` / `x += e;` bind the Rust local to the Lean term of `e`;
  * a call with an effect on the modelled state (scratch cells `σ`, the `semantic_hash` cache `c`,
    the node tables) is let-bound: `let a1 := f x σ` – its value is `a1.1`, the state after it `a1.2`;
    effects are sequenced in Rust evaluation order (left to right);
  * `if c { return e; } rest` ↦ `if c then e else rest`; `if let P = e { return x; } rest` and `match`
    are compiled by *shape enumeration*: the scrutinee's type is expanded into its constructor shapes
    (the 7 variants of `SddPtr`; `None`/`Some`; pairs; `Ordering`; integer literals) and for each shape
    the first arm that matches is taken, guards becoming `if g then body else <next matching arm>`;
    or-patterns, wildcards and the order of non-overlapping arms therefore do not matter;
  * a non-diverging `if` with effects / assignments is merged: `let r := if c then (…new…) else (…old…)`;
  * `for x in it { body }` becomes a separate structurally recursive definition over the list
    (`continue` = the recursive call); `.iter().map(|x| e).sum()` a recursive sum;
  * `panic!` ↦ `none` in an `Option`-valued (partial) function; `debug_assert!` is skipped.

Pointer views (the hand-written model has three representations of `SddPtr`):
  T  tree level  `Sdd.Ptr`         PtrTrue ↦ .tru, PtrFalse ↦ .fls, Var(l,p) ↦ .lit l p, BDD(b) ↦ .bdd false l i lo hi,
                                   ComplBDD(b) ↦ .bdd true …, Reg(o) ↦ .dec false i es, Compl(o) ↦ .dec true i es
  S  scratch store `ScratchSdd.SRef` over `SStore` (newest node first); BDD/Reg ↦ .reg i, ComplBDD/Compl ↦ .compl i,
                                   the node kind is that of the node (`SNode.bdd l lo hi` / `SNode.or es`)
  H  hash-cache store `Sdd.Ref` over `Sdd.Store` with `HashCache`
  B  builder level (`SddSem.Params`, tables keyed by hash value), pointers are `Sdd.Ptr`
In the store views a function that matches on `self` is emitted inside the model's *dereference
scaffold* (trusted): `| [] => dangling` / `| n :: rest => match r.idx? with | none => leaf arms |
some i => if i = rest.length then node arms else f rest r σ`; a dangling `.reg`/`.compl` is read as
False/True (the convention of `Model/Scratch.lean`).  Recursive calls on children go to `f rest`.

Mapping table (trusted, kept small)
  VarLabel, VTreeIndex, usize, u128                ↦ Nat
  FiniteField<P>: new(x) ↦ Sem.ffNew P x, a * b ↦ Sem.ffMul P a b, a + b ↦ Sem.ffAdd P a b, x.negate() ↦ Sem.ffNegate P x, x.value() ↦ x
     (builder view: π.mulH, π.negH)
  map.var_weight(l) ↦ w l  (a pair (low, high));  params.one / params.zero ↦ S.one / S.zero;  l + r, l * r on T ↦ S.add / S.mul
  bdd.low()/high()/label()/index(), or.iter(), or.nodes, and.prime()/sub()/.prime/.sub ↦ the fields of the node / pair
  f(DDNNF::True/False/Lit(v,p)/And(a,b)/Or(a,b,VarSet::new())) ↦ A.tru / A.fls / A.lit v p / A.and a b / A.or a b
  ptr.node_iter() (S) ↦ n.elems;  ptr.is_neg() (S) ↦ r.isNeg;  x.neg() ↦ SRef.neg (S) / neg (T, the generated one) / Ptr.neg (B)
  scratch cell: ptr.scratch::<usize>() ↦ (σ i).asCount, ptr.scratch::<DDNNFCache<T>>() ↦ (σ i).asPair t,
     set_scratch::<usize>(k) ↦ σ.set i (.count k), set_scratch::<DDNNFCache<T>>((a,b)) ↦ σ.set i (.pair t a b),
     *(self.scratch.borrow_mut()) = None ↦ σ.set i .empty
  hash cache: *(self.semantic_hash.borrow()) ↦ c i;  *(self.semantic_hash.borrow_mut()) = Some(v) ↦ fun j => if j = i then some v else c j
  builder: x.cached_semantic_hash(&self.vtree, &self.map) and node.semantic_hash(&self.vtree, &self.map) ↦ π.h x (ONLY with exactly
     these arguments); `let mut hasher = FxHasher::default(); v.hash(&mut hasher); hasher.finish()` ↦ v (the table key is the hash
     value, see the header of Model/SddSemantic.lean); tbl.get_by_hash(k) ↦ getByHash tbl k; tbl.get_or_insert_by_hash(k, n, true)
     ↦ getOrInsertByHash tbl k n; SddPtr::BDD(x)/Reg(x) of a table entry ↦ x (tables hold regular pointers);
     app_cache.get(&k).copied() ↦ ListCache.get app k; app_cache.insert(k, v) ↦ (k, v) :: app; the statistics counters are not modelled
  helper methods of the same file that are not in the table of translated functions are inlined at the call site.
"""
import os, re, sys

sys.path.insert(0, os.path.dirname(os.path.abspath(__file__)))
from rustmini_sddq import Untranslatable, Parser, find_fn, parse_body, parse_params, strip_comments  # noqa: E402

ROOT = os.path.dirname(os.path.dirname(os.path.abspath(__file__)))
REPO = os.environ.get("VERIF_REPO", "/repo")
OUT = os.path.join(ROOT, "lean", "RsddModel", "Model", "GenSddQ.lean")

SDD_RS, BIN_RS, OR_RS, SEM_RS, DDNNF_RS = ("src/repr/sdd.rs", "src/repr/sdd/binary_sdd.rs", "src/repr/sdd/sdd_or.rs",
                                           "src/builder/sdd/semantic.rs", "src/repr/ddnnf.rs")
RESERVED = {"and", "or", "not", "at", "from", "fun", "end", "open", "show", "have", "then", "do", "by", "in", "with", "if",
            "else", "match", "let", "some", "none", "true", "false", "id", "max", "min", "neg", "low", "high", "rank", "π", "σ",
            "c", "i", "n", "r", "s", "t", "w", "P", "A", "S", "rc", "f", "rest", "es", "l", "lo", "hi", "st", "e"}


class Val:
    def __init__(self, term, ty, extra=None):
        self.term, self.ty, self.extra = term, ty, extra

    def __repr__(self):
        return "Val(%r, %r)" % (self.term, self.ty)


def balanced(s):
    d = 0
    for ch in s:
        if ch in "([⟨":
            d += 1
        elif ch in ")]⟩":
            d -= 1
            if d < 0:
                return False
    return d == 0


def paren(e):
    e = e.strip()
    if re.match(r"^[A-Za-z0-9_.'?σπ]+$", e):
        return e
    if e[0] == "(" and e[-1] == ")" and balanced(e[1:-1]):
        return e
    return "(" + e + ")"


def indent(s, n=2):
    pad = " " * n
    return "\n".join(pad + ln if ln else ln for ln in s.split("\n"))


def alias(name, binders, ty, model):
    return "def %s %s : %s := %s\n" % (name, binders, ty, model)


def strip_refs(a):
    while a[0] == "un" and a[1] in ("&", "*"):
        a = a[2]
    return a


def lname(name):
    """Lean name of a Rust local"""
    return name + "_" if name in RESERVED else name


class Cx:
    def __init__(self, view, env=None, st=None):
        self.view = view
        self.env = dict(env or {})
        self.st = st              # Lean term of the current state (None: pure function)
        self.stname = "σ"
        self.lets = []
        self.cnt = [0]
        self.fin = None           # fin(cx, val) -> term : finish with a `return` value
        self.cont = None          # cont(cx) -> term     : `continue`
        self.partial = False
        self.x = {}               # view-specific data (shared by reference)
        self.loops = []           # generated loop definitions (shared)
        self.closures = {}
        self.forbidden = set()

    def sub(self):
        c = Cx(self.view, self.env, self.st)
        c.stname, c.cnt, c.fin, c.cont, c.partial, c.x, c.loops = self.stname, self.cnt, self.fin, self.cont, self.partial, self.x, self.loops
        c.closures = self.closures
        c.forbidden = self.forbidden
        return c

    def fresh(self, base="a"):
        self.cnt[0] += 1
        return "%s%d" % (base, self.cnt[0])

    def let(self, term, base="a"):
        v = self.fresh(base)
        self.lets.append((v, term))
        return v

    def wrap(self, term):
        out = "".join(("let %s := %s\n" % (v, t)) if "\n" not in t else ("let %s := (\n%s)\n" % (v, indent(t, 4)))
                      for v, t in self.lets) + term
        self.lets = []
        return out

    def effect_vs(self, call):
        """a call returning (value, state): `call` is the term without the trailing state argument"""
        a = self.let("%s %s" % (call, paren(self.st)))
        self.st = a + ".2"
        return a + ".1"

    def effect_s(self, term):
        """a state-only effect: `term` is the new state"""
        a = self.let(term, self.stname)
        self.st = a


# ---------------------------------------------------------------- shapes and patterns

PTR_VARIANTS = ["PtrTrue", "PtrFalse", "Var", "BDD", "ComplBDD", "Reg", "Compl"]
ORD_VARIANTS = {"Less": "lt", "Equal": "eq", "Greater": "gt"}


def pat_alts(p):
    while p[0] == "pref":
        p = p[1]
    if p[0] == "por":
        out = []
        for q in p[1]:
            out += pat_alts(q)
        return out
    return [p]


def is_ctor_pat(p):
    return p[0] in ("pctor", "ptuple", "plit", "pstruct")


def expand(ty, pats, cx, hint="x"):
    """shapes of a scrutinee of type `ty`, refined as far as the patterns `pats` (all alternatives at this position) look"""
    alts = []
    for p in pats:
        alts += pat_alts(p)
    if not any(is_ctor_pat(p) for p in alts):
        return [("leaf", cx.fresh(hint[0]) if hint else cx.fresh("x"), ty)]
    if isinstance(ty, tuple) and ty[0] == "opt":
        subs = [p[2][0] for p in alts if p[0] == "pctor" and p[1][-1] == "Some" and len(p[2]) == 1]
        return [("none",)] + [("some", s) for s in expand(ty[1], subs, cx, "v")]
    if isinstance(ty, tuple) and ty[0] == "pair":
        a = expand(ty[1], [p[1][0] for p in alts if p[0] == "ptuple" and len(p[1]) == 2], cx, "u")
        b = expand(ty[2], [p[1][1] for p in alts if p[0] == "ptuple" and len(p[1]) == 2], cx, "v")
        return [("pair", x, y) for x in a for y in b]
    if ty == "ordering":
        return [("ord", "lt"), ("ord", "eq"), ("ord", "gt")]
    if ty == "nat":
        lits = []
        for p in alts:
            if p[0] == "plit" and p[1][0] == "num" and p[1][1] not in lits:
                lits.append(p[1][1])
        return [("natlit", k) for k in lits] + [("natdefault",)]
    if ty == "bool":
        return [("boollit", True), ("boollit", False)]
    if ty == "ptr":
        split = any(p[0] == "pctor" and p[1][-1] == "Var" and len(p[2]) == 2 and strip_pref(p[2][1])[0] == "plit" for p in alts)
        return ptr_shapes(cx, split)
    raise Untranslatable("match on a scrutinee of type %r" % (ty,))


def ptr_shapes(cx, split_var=False):
    if cx.view in ("T", "B"):
        out = []
        for k in PTR_VARIANTS:
            if k == "Var" and split_var:
                out += [("ptr", "Var", True), ("ptr", "Var", False)]
            else:
                out.append(("ptr", k))
        return out
    return [("ref", "PtrTrue"), ("ref", "PtrFalse"), ("ref", "Var"), ("ref", "reg"), ("ref", "compl")]


def shape_term(sh, cx):
    k = sh[0]
    if k == "leaf":
        return sh[1]
    if k == "none":
        return "none"
    if k == "some":
        return "some %s" % paren(shape_term(sh[1], cx))
    if k == "pair":
        return "(%s, %s)" % (shape_term(sh[1], cx), shape_term(sh[2], cx))
    if k == "ord":
        return "Ordering." + sh[1]
    if k == "ptr":
        if sh[1] == "Var" and len(sh) > 2:
            return "Ptr.lit v %s" % ("true" if sh[2] else "false")
        return {"PtrTrue": "Ptr.tru", "PtrFalse": "Ptr.fls", "Var": "Ptr.lit v p", "BDD": "Ptr.bdd false l i lo hi",
                "ComplBDD": "Ptr.bdd true l i lo hi", "Reg": "Ptr.dec false i es", "Compl": "Ptr.dec true i es"}[sh[1]]
    raise Untranslatable("term of shape " + k)


def shape_ty(sh):
    k = sh[0]
    if k == "leaf":
        return sh[2]
    if k == "none":
        return ("opt", None)
    if k == "some":
        return ("opt", shape_ty(sh[1]))
    if k == "pair":
        return ("pair", shape_ty(sh[1]), shape_ty(sh[2]))
    if k == "ord":
        return "ordering"
    if k == "ptr":
        return "ptr"
    return None


def shape_pat(sh, cx):
    """Lean pattern of a shape"""
    k = sh[0]
    if k == "leaf":
        return sh[1]
    if k == "none":
        return "none"
    if k == "some":
        return "some %s" % paren(shape_pat(sh[1], cx))
    if k == "pair":
        return "(%s, %s)" % (shape_pat(sh[1], cx), shape_pat(sh[2], cx))
    if k == "ord":
        return "." + sh[1]
    if k == "ptr":
        if sh[1] == "Var" and len(sh) > 2:
            return ".lit v %s" % ("true" if sh[2] else "false")
        return {"PtrTrue": ".tru", "PtrFalse": ".fls", "Var": ".lit v p", "BDD": ".bdd false l i lo hi",
                "ComplBDD": ".bdd true l i lo hi", "Reg": ".dec false i es", "Compl": ".dec true i es"}[sh[1]]
    if k == "ref":
        lit = ".var v p" if cx.view == "S" else ".lit v p"
        return {"PtrTrue": ".tru", "PtrFalse": ".fls", "Var": lit, "reg": ".reg j", "compl": ".compl j"}[sh[1]]
    if k == "boollit":
        return "true" if sh[1] else "false"
    raise Untranslatable("pattern of shape " + k)


BDD_PAYLOAD = ("bddnode", {"label": ("l", "nat"), "index": ("i", "nat"), "low": ("lo", "ptr"), "high": ("hi", "ptr")})
OR_PAYLOAD = ("ornode", {"index": ("i", "nat"), "nodes": ("es", ("list", "and"))})


def pmatch(pat, sh, cx):
    """bindings (dict name -> Val) if `pat` matches the shape, else None"""
    k = pat[0]
    if k == "pwild":
        return {}
    if k == "pref":
        return pmatch(pat[1], sh, cx)
    if k == "por":
        for q in pat[1]:
            b = pmatch(q, sh, cx)
            if b is not None:
                return b
        return None
    if k == "pvar":
        if sh[0] in ("ref", "natlit", "natdefault", "boollit", "selfnode"):
            raise Untranslatable("variable pattern on an unexpanded scrutinee")
        return {pat[1]: Val(shape_term(sh, cx), shape_ty(sh))}
    if k == "ptuple":
        if sh[0] == "pair" and len(pat[1]) == 2:
            a = pmatch(pat[1][0], sh[1], cx)
            b = pmatch(pat[1][1], sh[2], cx)
            if a is None or b is None:
                return None
            a.update(b)
            return a
        if sh[0] == "leaf":
            raise Untranslatable("tuple pattern on an unexpanded scrutinee")
        return None
    if k == "plit":
        e = pat[1]
        if sh[0] == "natlit":
            return {} if (e[0] == "num" and e[1] == sh[1]) else None
        if sh[0] == "natdefault":
            return None
        if sh[0] == "boollit":
            return {} if (e[0] == "bool" and e[1] == sh[1]) else None
        raise Untranslatable("literal pattern")
    if k == "pctor":
        name, args = pat[1][-1], pat[2]
        if name == "Some":
            if sh[0] == "some":
                return pmatch(args[0], sh[1], cx)
            if sh[0] == "none":
                return None
            raise Untranslatable("Some pattern on a non-option")
        if name == "None":
            if sh[0] == "none":
                return {}
            if sh[0] == "some":
                return None
            raise Untranslatable("None pattern on a non-option")
        if name in ORD_VARIANTS:
            if sh[0] != "ord":
                raise Untranslatable("Ordering pattern")
            return {} if sh[1] == ORD_VARIANTS[name] else None
        if name in PTR_VARIANTS:
            return pmatch_ptr(name, args, sh, cx)
        raise Untranslatable("constructor pattern " + name)
    raise Untranslatable("pattern kind " + k)


def pmatch_ptr(name, args, sh, cx):
    if sh[0] == "ptr" or sh[0] == "selfnode":
        if sh[1] != name:
            return None
        if name in ("PtrTrue", "PtrFalse"):
            return {}
        if name == "Var":
            if len(args) != 2:
                raise Untranslatable("Var pattern arity")
            out = {}
            b = pmatch(args[0], ("leaf", "v", "nat"), cx)
            if b is None:
                return None
            out.update(b)
            pol = sh[2] if len(sh) > 2 else None
            b = pmatch(args[1], ("boollit", pol) if pol is not None else ("leaf", "p", "bool"), cx)
            if b is None:
                return None
            out.update(b)
            return out
        payload = cx.x.get("bddpayload", BDD_PAYLOAD) if name in ("BDD", "ComplBDD") else cx.x.get("orpayload", OR_PAYLOAD)
        if len(args) != 1:
            raise Untranslatable("node pattern arity")
        a = args[0]
        while a[0] == "pref":
            a = a[1]
        if a[0] == "pwild":
            return {}
        if a[0] == "pvar":
            return {a[1]: Val(None, payload[0], payload[1])}
        raise Untranslatable("node payload pattern")
    if sh[0] == "ref":
        # store views: .reg stands for BDD and Reg, .compl for ComplBDD and Compl (the caller checks that an arm names both)
        kind = {"PtrTrue": "PtrTrue", "PtrFalse": "PtrFalse", "Var": "Var", "BDD": "reg", "Reg": "reg", "ComplBDD": "compl",
                "Compl": "compl"}[name]
        if sh[1] != kind:
            return None
        if name == "Var":
            out = {}
            for a, (nm, ty) in zip(args, (("v", "nat"), ("p", "bool"))):
                out.update(pmatch(a, ("leaf", nm, ty), cx))
            return out
        if name in ("PtrTrue", "PtrFalse"):
            return {}
        if args and strip_pref(args[0])[0] != "pwild":
            raise Untranslatable("node payload of a child pointer (store view)")
        return {}
    raise Untranslatable("SddPtr pattern on a non-pointer")


def strip_pref(p):
    while p[0] == "pref":
        p = p[1]
    return p


def check_ref_arms(arms, cx):
    """store views: an arm that names BDD must name Reg (and ComplBDD/Compl) – node kinds of a child are not visible"""
    if cx.view not in ("S", "H"):
        return
    for pat, _, _ in arms:
        names = set(p[1][-1] for p in pat_alts(pat) if p[0] == "pctor")
        for a, b in (("BDD", "Reg"), ("ComplBDD", "Compl")):
            if (a in names) != (b in names):
                raise Untranslatable("store view: arm distinguishes %s from %s on a child pointer" % (a, b))


# ---------------------------------------------------------------- expressions

def lean_ty(ty, cx):
    if ty in ("nat", "ff"):
        return "Nat"
    if ty == "bool":
        return "Bool"
    if ty == "set":
        return "List Nat"
    if ty == "V":
        return cx.x["Vty"]
    if ty == "ptr":
        return cx.x["ptrty"]
    if ty == "and":
        return "%s × %s" % (cx.x["ptrty"], cx.x["ptrty"])
    if isinstance(ty, tuple) and ty[0] == "list":
        return "List (%s)" % lean_ty(ty[1], cx)
    if isinstance(ty, tuple) and ty[0] == "opt":
        return "Option (%s)" % lean_ty(ty[1], cx)
    raise Untranslatable("Lean type of %r" % (ty,))


def E(a, cx):
    k = a[0]
    if k == "\x02val":
        return a[1]
    if k == "num":
        return Val(a[1], "nat")
    if k == "bool":
        return Val("true" if a[1] else "false", "bool")
    if k == "var":
        if a[1] == "None":
            return Val("none", ("opt", None))
        if a[1] in cx.env:
            return cx.env[a[1]]
        if a[1] in PTR_VARIANTS:
            return E(("path", ["SddPtr", a[1]]), cx)
        raise Untranslatable("unknown local %r" % a[1])
    if k == "path":
        h = cx.x.get("path")
        if h:
            r = h(a[1], cx)
            if r is not None:
                return r
        if a[1][-1] == "PtrTrue":
            return Val(cx.x["ptrns"] + ".tru", "ptr")
        if a[1][-1] == "PtrFalse":
            return Val(cx.x["ptrns"] + ".fls", "ptr")
        if a[1][-1] in ORD_VARIANTS:
            return Val("Ordering." + ORD_VARIANTS[a[1][-1]], "ordering")
        raise Untranslatable("path " + "::".join(a[1]))
    if k == "un" and a[1] in ("*", "&"):
        return E(a[2], cx)
    if k == "un" and a[1] == "!":
        v = E(a[2], cx)
        return Val("!" + paren(v.term), "bool")
    if k == "tuple":
        vs = [E(x, cx) for x in a[1]]
        if len(vs) == 2:
            return Val("(%s, %s)" % (vs[0].term, vs[1].term), ("pair", vs[0].ty, vs[1].ty))
        raise Untranslatable("tuple arity")
    if k == "cast":
        return E(a[1], cx)
    if k == "field":
        return E_field(a, cx)
    if k == "index":
        v, i = E(a[1], cx), E(a[2], cx)
        if isinstance(v.ty, tuple) and v.ty[0] == "list":
            # out of range = panic: partial functions only
            if not cx.partial:
                raise Untranslatable("indexing in a total function")
            return Val("%s[%s]?" % (paren(v.term), i.term), ("opt", v.ty[1]), "index")
        raise Untranslatable("indexing")
    if k == "bin":
        return E_bin(a, cx)
    if k == "call":
        return E_call(a, cx)
    if k == "mcall":
        return E_mcall(a, cx)
    if k == "macro":
        return E_macro(a, cx)
    if k in ("if", "iflet", "match"):
        return E_branch(a, cx)
    if k == "struct" and cx.x.get("struct"):
        r = cx.x["struct"](a, cx)
        if r is not None:
            return r
    if k == "block":
        out = []
        t = seq(a[1], a[2], cx, lambda c, v: out.append(v) or "\x01")
        if t != "\x01" or len(out) != 1:
            raise Untranslatable("block with control flow in value position")
        return out[0] if out[0] is not None else Val("()", "unit")
    raise Untranslatable("expression kind " + k)


def E_bin(a, cx):
    op = a[1]
    l = E(a[2], cx)
    if op in ("&&", "||"):
        sub = cx.sub()
        r = E(a[3], sub)
        if sub.lets or sub.st != cx.st:
            raise Untranslatable("effect under a short-circuit operator")
        return Val("%s %s %s" % (paren(l.term), op, paren(r.term)), "bool")
    r = E(a[3], cx)
    if op in ("+", "*", "-"):
        t = l.ty if l.ty != "nat" or r.ty == "nat" else r.ty
        if l.ty == "ff" or r.ty == "ff":
            f = cx.x.get("ffops", {"+": "Sem.ffAdd P", "*": "Sem.ffMul P"}).get(op)
            if f is None:
                raise Untranslatable("operator %s on FiniteField" % op)
            return Val("%s %s %s" % (f, paren(l.term), paren(r.term)), "ff")
        if l.ty == "V" or r.ty == "V":
            f = {"+": "S.add", "*": "S.mul"}.get(op)
            if f is None:
                raise Untranslatable("operator %s on a semiring value" % op)
            return Val("%s %s %s" % (f, paren(l.term), paren(r.term)), "V")
        if l.ty == "nat" and r.ty == "nat":
            return Val("%s %s %s" % (paren(l.term) if op != "+" else l.term if re.match(r"^[\w.' +]+$", l.term) else paren(l.term), op, paren(r.term)), "nat")
        raise Untranslatable("operator %s on %r, %r" % (op, l.ty, r.ty))
    if op in ("==", "!="):
        return Val("%s %s %s" % (paren(l.term), op, paren(r.term)), "bool")
    if op in ("<", "<=", ">", ">="):
        lop = {"<": "<", "<=": "≤", ">": ">", ">=": "≥"}[op]
        return Val("decide (%s %s %s)" % (paren(l.term), lop, paren(r.term)), "bool")
    raise Untranslatable("operator " + op)


def E_field(a, cx):
    base = E(a[1], cx)
    f = a[2]
    h = cx.x.get("field")
    if h:
        r = h(base, f, cx)
        if r is not None:
            return r
    if base.ty in ("bddnode", "ornode") and f in base.extra:
        nm, ty = base.extra[f]
        return Val(nm, ty)
    if base.ty == "and" and f in ("prime", "sub"):
        return Val(paren(base.term) + (".1" if f == "prime" else ".2"), "ptr")
    raise Untranslatable("field .%s of %r" % (f, base.ty))


def closure1(cl, cx, argval):
    """apply a one-parameter closure (or a constructor path) to a value, purely"""
    if cl[0] == "closure":
        if len(cl[1]) != 1:
            raise Untranslatable("closure arity")
        p = strip_pref(cl[1][0])
        sub = cx.sub()
        if p[0] == "pvar":
            sub.env[p[1]] = argval
        elif p[0] != "pwild":
            raise Untranslatable("closure pattern")
        v = E(cl[2], sub)
        if sub.lets or sub.st != cx.st:
            raise Untranslatable("effect inside a closure")
        return v
    if cl[0] in ("path", "var"):
        return E(("call", cl, [("\x02val", argval)]), cx)
    raise Untranslatable("closure expected")


def E_call(a, cx):
    f, args = a[1], a[2]
    h = cx.x.get("call")
    if h:
        r = h(f, args, cx)
        if r is not None:
            return r
    name = f[1] if f[0] == "var" else (f[1][-1] if f[0] == "path" else None)
    if name == "Some" and len(args) == 1:
        v = E(args[0], cx)
        return Val("some %s" % paren(v.term), ("opt", v.ty))
    if f[0] == "path" and f[1][-2:] == ["FiniteField", "new"] and len(args) == 1:
        v = E(args[0], cx)
        return Val("Sem.ffNew P %s" % paren(v.term), "ff")
    if f[0] == "path" and f[1][-2:] == ["VarSet", "new"] and not args:
        return Val("∅", "varset")
    if f[0] == "path" and f[1][-2:] == ["SddAnd", "new"] and len(args) == 2:
        p, s = E(args[0], cx), E(args[1], cx)
        return Val("(%s, %s)" % (p.term, s.term), "and")
    if name == "Var" and len(args) == 2:
        l, p = E(args[0], cx), E(args[1], cx)
        return Val("%s.%s %s %s" % (cx.x["ptrns"], cx.x["litctor"], paren(l.term), paren(p.term)), "ptr")
    if name in ("BDD", "ComplBDD", "Reg", "Compl") and len(args) == 1:
        v = E(args[0], cx)
        c = "true" if name.startswith("Compl") else "false"
        if cx.view in ("T",) and v.ty == "bddnode" and name in ("BDD", "ComplBDD"):
            return Val("Ptr.bdd %s l i lo hi" % c, "ptr")
        if cx.view in ("T",) and v.ty == "ornode" and name in ("Reg", "Compl"):
            return Val("Ptr.dec %s i es" % c, "ptr")
        if cx.view == "B" and v.ty == "ptr" and name in ("BDD", "Reg"):
            return v               # the tables hold regular pointers
        raise Untranslatable("constructor %s in this view" % name)
    raise Untranslatable("call of %s" % (name,))


def E_macro(a, cx):
    name, raw = a[1], a[2]
    if name == "matches":
        p = Parser(raw)
        scrut = p.expr()
        p.eat(",")
        pat = p.pattern()
        if not p.at_end():
            raise Untranslatable("matches! with a guard")
        arms = [(pat, None, ("bool", True)), (("pwild",), None, ("bool", False))]
        return E_branch(("match", scrut, arms), cx)
    raise Untranslatable("macro %s!" % name)


def E_mcall(a, cx):
    recv_ast, name, args = a[1], a[2], a[3]
    tf = a[4] if len(a) > 4 else None
    h = cx.x.get("mcall")
    if h:
        r = h(recv_ast, name, args, tf, cx)
        if r is not None:
            return r
    recv = E(recv_ast, cx)
    if recv.ty == "ornode" and name == "iter" and not args:
        return Val(*recv.extra["nodes"])
    if name in ("clone", "copied", "cloned", "iter", "borrow", "borrow_mut", "as_ref", "into_iter") and not args:
        return recv
    if name == "value" and not args and recv.ty in ("ff", "nat"):
        return Val(recv.term, "nat")
    if name == "negate" and not args and recv.ty == "ff":
        return Val("%s %s" % (cx.x.get("ffneg", "Sem.ffNegate P"), paren(recv.term)), "ff")
    if name in ("is_some", "is_none") and not args and isinstance(recv.ty, tuple) and recv.ty[0] == "opt":
        return Val("%s.%s" % (paren(recv.term), "isSome" if name == "is_some" else "isNone"), "bool")
    if name == "len" and not args:
        return Val("%s.length" % paren(recv.term), "nat")
    if name in ("prime", "sub") and not args and recv.ty == "and":
        return Val(paren(recv.term) + (".1" if name == "prime" else ".2"), "ptr")
    if recv.ty in ("bddnode", "ornode") and not args and name in recv.extra:
        nm, ty = recv.extra[name]
        return Val(nm, ty)
    if recv.ty == "ornode" and name == "iter" and not args:
        return Val(*recv.extra["nodes"])
    if name == "neg" and not args and recv.ty == "ptr":
        return Val("%s %s" % (cx.x["negfn"], paren(recv.term)) if not cx.x["negfn"].startswith(".") else paren(recv.term) + cx.x["negfn"], "ptr")
    if name == "cmp" and len(args) == 1:
        o = E(args[0], cx)
        if recv.ty in ("nat", "bool"):
            return Val("compare %s %s" % (paren(recv.term), paren(o.term)), "ordering")
        if recv.ty == "ptr":
            return Val("cmpP %s %s" % (paren(recv.term), paren(o.term)), "ordering")
        if recv.ty == ("list", "and"):
            return Val("cmpE %s %s" % (paren(recv.term), paren(o.term)), "ordering")
        raise Untranslatable("cmp on %r" % (recv.ty,))
    if name == "then_with" and len(args) == 1 and args[0][0] == "closure" and not args[0][1] and recv.ty == "ordering":
        sub = cx.sub()
        v = E(args[0][2], sub)
        if sub.lets:
            raise Untranslatable("effect in then_with")
        return Val("%s.then %s" % (paren(recv.term), paren(v.term)), "ordering")
    if name == "map" and len(args) == 1 and isinstance(recv.ty, tuple) and recv.ty[0] == "opt":
        x = cx.fresh("x")
        v = closure1(args[0], cx, Val(x, recv.ty[1]))
        return Val("%s.map (fun %s => %s)" % (paren(recv.term), x, v.term), ("opt", v.ty))
    raise Untranslatable("method .%s on %r" % (name, recv.ty))


# ---------------------------------------------------------------- branching

def returns_inside(a):
    """does the expression / statement tree contain `return` / `continue` / panic (outside closures and loops)?"""
    if a is None:
        return False
    k = a[0]
    if k in ("return", "continue", "retexpr", "contexpr"):
        return True
    if k == "macro":
        return a[1] in ("panic", "todo", "unreachable")
    if k in ("closure", "for", "while", "loop", "fnitem", "use"):
        return False
    if k == "block":
        return any(returns_inside(x) for x in a[1]) or returns_inside(a[2])
    if k == "if":
        return returns_inside(a[1]) or returns_inside(a[2]) or returns_inside(a[3])
    if k == "iflet":
        return returns_inside(a[2]) or returns_inside(a[3]) or returns_inside(a[4])
    if k == "match":
        return returns_inside(a[1]) or any(returns_inside(b) or returns_inside(g) for _, g, b in a[2])
    if k == "let":
        return returns_inside(a[3])
    if k == "expr":
        return returns_inside(a[1])
    if k == "assign":
        return returns_inside(a[3])
    return False


EMPTY = ("block", [], None)


def build_match(scrut, arms, cx, leaf):
    pats = [p for p, _, _ in arms]

    def chain(items, idx):
        if idx >= len(items):
            raise Untranslatable("non-exhaustive match (after guards)")
        b, g, body = items[idx]
        sub = cx.sub()
        for nm, v in b.items():
            sub.env[nm] = v
        if g is None:
            return leaf(sub, body)
        gv = E(g, sub)
        if sub.lets or sub.st != cx.st:
            raise Untranslatable("effect in a guard")
        return "if %s then\n%s\nelse\n%s" % (gv.term, indent(leaf(sub.sub(), body)), indent(chain(items, idx + 1)))

    def items_for(sh):
        items = []
        for pat, g, body in arms:
            b = pmatch(pat, sh, cx)
            if b is not None:
                items.append((b, g, body))
                if g is None:
                    break
        return items

    if scrut.ty == "selfnode":
        return chain(items_for(("selfnode", scrut.extra)), 0)
    if scrut.ty == "ptr":
        check_ref_arms(arms, cx)
    shapes = expand(scrut.ty, pats, cx)
    if shapes[0][0] in ("natlit", "natdefault"):
        out = ""
        for sh in shapes:
            body = chain(items_for(sh), 0)
            if sh[0] == "natlit":
                out += "if %s = %s then\n%s\nelse " % (paren(scrut.term), sh[1], indent(body))
            else:
                out += "\n" + indent(body)
        return out
    if len(shapes) == 1 and shapes[0][0] == "leaf":
        sub_arms = items_for(shapes[0])
        # a single irrefutable shape: bind the variable to the scrutinee itself
        items = []
        for pat, g, body in arms:
            b = pmatch(pat, ("leaf", scrut.term, scrut.ty), cx)
            if b is not None:
                items.append((b, g, body))
                if g is None:
                    break
        return chain(items, 0)
    lines = []
    for sh in shapes:
        lines.append("| %s =>\n%s" % (shape_pat(sh, cx), indent(chain(items_for(sh), 0), 4)))
    return "match %s with\n%s" % (scrut.term, "\n".join(lines))


def build_branch(a, cx, leaf):
    k = a[0]
    if k == "if":
        c = E(a[1], cx)
        t = leaf(cx.sub(), a[2])
        e = leaf(cx.sub(), a[3] if a[3] is not None else EMPTY)
        return "if %s then\n%s\nelse\n%s" % (c.term, indent(t), indent(e))
    if k == "iflet":
        scrut = E(a[2], cx)
        arms = [(a[1], None, a[3]), (("pwild",), None, a[4] if a[4] is not None else EMPTY)]
        return build_match(scrut, arms, cx, leaf)
    if k == "match":
        scrut = E(a[1], cx)
        return build_match(scrut, a[2], cx, leaf)
    raise Untranslatable("branching on " + k)


def subst(struct, ph, text):
    """replace the placeholder by a (possibly multi-line) text, keeping the column of the placeholder"""
    i = struct.find(ph)
    if i < 0:
        return struct
    j = struct.rfind("\n", 0, i) + 1
    pad = " " * (i - j) if struct[j:i].strip() == "" else " " * (len(struct[j:i]) - len(struct[j:i].lstrip()) + 2)
    lines = text.split("\n")
    return struct[:i] + ("\n" + pad).join(lines) + struct[i + len(ph):]


def collapse(struct):
    if struct.startswith("if ") and "match" not in struct and "let " not in struct:
        t = " ".join(struct.split())
        if len(t) < 110:
            return t
    return struct


def tuple_term(xs):
    return xs[0] if len(xs) == 1 else "(" + ", ".join(xs) + ")"


def proj(base, n, total):
    if total == 1:
        return base
    return base + ".2" * n + (".1" if n < total - 1 else "")


def E_branch(a, cx):
    """`if` / `if let` / `match` whose branches all complete normally: merged into one value"""
    leaves = []

    def noret(c, v):
        raise Untranslatable("`return` inside a merged branch")

    def leaf(sub, body):
        sub.fin, sub.cont = noret, None
        out = []
        t = T(body, sub, lambda c, v: out.append((c, v)) or "\x01")
        if t != "\x01" or len(out) != 1:
            raise Untranslatable("control flow inside a merged branch")
        leaves.append(out[0])
        return "\x00%d\x00" % (len(leaves) - 1)

    struct = build_branch(a, cx, leaf)
    leaves = [(c, None if (v is not None and v.ty == "unit") else v) for c, v in leaves]
    if struct == "\x000\x00" and len(leaves) == 1:
        # a statically resolved match (symbolic `self`): no branching, adopt the leaf
        c, v = leaves[0]
        cx.lets += c.lets
        cx.st = c.st
        for n in list(cx.env):
            if n in c.env:
                cx.env[n] = c.env[n]
        return v
    names = [n for n in cx.env if any(n in c.env and c.env[n].term != cx.env[n].term for c, _ in leaves)]
    st_changed = any(c.st != cx.st for c, _ in leaves)
    has_val = any(v is not None for _, v in leaves)
    effectful = bool(names) or st_changed or any(c.lets for c, _ in leaves)
    vty = None
    for _, v in leaves:
        if v is not None and (vty is None or vty == ("opt", None)):
            vty = v.ty
    if not effectful:
        for n, (c, v) in enumerate(leaves):
            struct = subst(struct, "\x00%d\x00" % n, v.term if v is not None else "()")
        return Val("(" + collapse(struct) + ")", vty) if has_val else None
    ncomp = (1 if has_val else 0) + len(names) + (1 if st_changed else 0)
    for n, (c, v) in enumerate(leaves):
        comps = ([v.term] if has_val else []) + [c.env[x].term for x in names] + ([c.st] if st_changed else [])
        struct = subst(struct, "\x00%d\x00" % n, c.wrap(tuple_term(comps)))
    r = cx.let(struct, "r")
    k = 0
    res = None
    if has_val:
        res = Val(proj(r, k, ncomp), vty)
        k += 1
    for x in names:
        cx.env[x] = Val(proj(r, k, ncomp), cx.env[x].ty)
        k += 1
    if st_changed:
        cx.st = proj(r, k, ncomp)
    return res


def T(a, cx, k):
    """translate `a` in tail position; `k(cx, val)` finishes a normal completion"""
    if a is None:
        return k(cx, None)
    if a[0] == "match" and cx.x.get("match_hook"):
        r = cx.x["match_hook"](a, cx, k)
        if r is not None:
            return r
    if a[0] == "match":
        sc = strip_refs(a[1])
        if sc[0] == "var" and sc[1] in cx.env and cx.env[sc[1]].ty == "selfnode":
            return cx.wrap(build_branch(a, cx, lambda sub, body: T(body, sub, k)))
    if a[0] in ("if", "iflet", "match"):
        if not returns_inside(a):
            return k(cx, E_branch(a, cx))
        struct = build_branch(a, cx, lambda sub, body: T(body, sub, k))
        return cx.wrap(struct)
    if a[0] == "block":
        return seq(a[1], a[2], cx, k)
    if a[0] == "retexpr":
        return T(a[1], cx, lambda c, v: c.fin(c, v))
    if a[0] == "contexpr":
        return cx.cont(cx)
    if a[0] == "macro" and a[1] in ("panic", "todo", "unreachable"):
        if not cx.partial:
            raise Untranslatable("%s! in a total function" % a[1])
        return cx.wrap("none")
    return k(cx, E(a, cx))


def assigned_vars(stmts):
    out = []

    def walk(x):
        if isinstance(x, tuple):
            if x and x[0] == "assign" and x[2][0] == "var" and x[2][1] not in out:
                out.append(x[2][1])
            if x and x[0] == "mcall" and x[2] == "insert" and strip_refs(x[1])[0] == "var" and strip_refs(x[1])[1] not in out:
                out.append(strip_refs(x[1])[1])
            if x and x[0] == "closure":
                return
            for y in x:
                walk(y)
        elif isinstance(x, list):
            for y in x:
                walk(y)
    walk(stmts)
    return out


def seq(stmts, tail, cx, k, i=0):
    while i < len(stmts):
        s = stmts[i]
        kind = s[0]
        if kind in ("use", "fnitem"):
            pass
        elif kind == "let":
            do_let(s, cx)
        elif kind == "assign":
            do_assign(s, cx)
        elif kind == "return":
            return T(s[1], cx, lambda c, v: c.fin(c, v))
        elif kind == "continue":
            return cx.cont(cx)
        elif kind == "for":
            do_for(s, cx)
        elif kind == "expr":
            e = s[1]
            if e[0] == "macro" and e[1] in ("debug_assert", "debug_assert_eq", "debug_assert_ne"):
                pass
            elif e[0] == "block":
                spliced = list(e[1]) + ([("expr", e[2])] if e[2] is not None else []) + list(stmts[i + 1:])
                return seq(spliced, tail, cx, k)
            elif e[0] in ("if", "iflet", "match") and returns_inside(e):
                rest = (lambda j: lambda c, v: seq(stmts, tail, c, k, j))(i + 1)
                struct = build_branch(e, cx, lambda sub, body: T(body, sub, rest))
                return cx.wrap(struct)
            elif e[0] in ("retexpr", "contexpr") or (e[0] == "macro" and e[1] in ("panic", "todo", "unreachable")):
                return T(e, cx, k)
            else:
                E(e, cx)
        else:
            raise Untranslatable("statement kind " + kind)
        i += 1
    return T(tail, cx, k)


def do_let(s, cx):
    pat, e = strip_pref(s[1]), s[3]
    if e[0] == "closure":
        if pat[0] != "pvar":
            raise Untranslatable("closure binding")
        cx.closures[pat[1]] = e
        return
    h = cx.x.get("let")
    if h and h(pat, e, cx):
        return
    v = E(e, cx)
    if v is None:
        raise Untranslatable("let of a unit value")
    if pat[0] == "pvar":
        cx.env[pat[1]] = v
        if s[2] and v.ty in ("nat", "set", "bool"):
            cx.x.setdefault("mutvars", set()).add(pat[1])
        return
    if pat[0] == "pwild":
        return
    if pat[0] == "ptuple" and len(pat[1]) == 2 and isinstance(v.ty, tuple) and v.ty[0] == "pair":
        for n, q in enumerate(pat[1]):
            q = strip_pref(q)
            if q[0] == "pvar":
                cx.env[q[1]] = Val(paren(v.term) + (".1", ".2")[n], v.ty[1 + n])
            elif q[0] != "pwild":
                raise Untranslatable("nested let pattern")
        return
    raise Untranslatable("let pattern")


def do_assign(s, cx):
    op, tgt, e = s[1], s[2], s[3]
    h = cx.x.get("assign")
    if h and h(op, tgt, e, cx):
        return
    t = strip_refs(tgt)
    if t[0] == "var" and t[1] in cx.env:
        v = E(e, cx)
        old = cx.env[t[1]]
        if op == "=":
            cx.env[t[1]] = Val(v.term, old.ty if v.ty is None else v.ty)
        elif op == "+=":
            cx.env[t[1]] = E_bin_vals("+", old, v, cx)
        else:
            raise Untranslatable("assignment operator " + op)
        return
    raise Untranslatable("assignment target")


def E_bin_vals(op, l, r, cx):
    sub = cx.sub()
    sub.env = {"\x03l": l, "\x03r": r}
    return E_bin(("bin", op, ("var", "\x03l"), ("var", "\x03r")), sub)


IDENT = re.compile(r"(?<![.\w'])([A-Za-zσπ_][\w']*)")


def check_free(term, cx, allowed, cnt_before):
    for m in IDENT.finditer(term):
        w = m.group(1)
        if w in allowed:
            continue
        if w in cx.forbidden:
            raise Untranslatable("loop body captures `%s`" % w)
        m2 = re.match(r"^(a|r|σ|x|v|u|p|l|h)(\d+)$", w)
        if m2 and int(m2.group(2)) <= cnt_before:
            raise Untranslatable("loop body captures `%s`" % w)


def do_for(s, cx):
    pat, it, body = strip_pref(s[1]), s[2], s[3]
    specs = cx.x.get("loops")
    if not specs:
        raise Untranslatable("for loop (no loop scheme for this function)")
    spec = specs.pop(0)
    itv = E(it, cx)
    if not (isinstance(itv.ty, tuple) and itv.ty[0] == "list"):
        raise Untranslatable("for loop over %r" % (itv.ty,))
    if pat[0] != "pvar":
        raise Untranslatable("for loop pattern")
    am = assigned_vars(body)
    used = set()

    def walk(x):
        if isinstance(x, tuple):
            if len(x) == 2 and x[0] == "var":
                used.add(x[1])
            for y in x:
                walk(y)
        elif isinstance(x, list):
            for y in x:
                walk(y)
    walk(body)
    mutvars = cx.x.get("mutvars", set())
    muts = [m for m in cx.env if m in am or (m in mutvars and m in used)]          # declaration order
    cnt_before = cx.cnt[0]
    sub = Cx(cx.view)
    sub.cnt, sub.loops, sub.partial, sub.forbidden = cx.cnt, cx.loops, cx.partial, cx.forbidden
    sub.x = dict(cx.x)
    sub.x.update(spec.get("x", {}))
    sub.x["loops"] = []
    sub.env = dict(spec.get("env", {}))
    for nm, v in cx.env.items():
        if nm not in sub.env and nm not in muts and v.ty in ("wmap", "vtree", "fclosure", "selfnode", "selfbuilder"):
            sub.env[nm] = v
    sub.env[pat[1]] = Val("e", itv.ty[1])
    for m in muts:
        sub.env[m] = Val(lname(m), cx.env[m].ty)
    sub.stname = cx.stname
    sub.st = cx.stname if cx.st is not None else None
    name = spec["name"]

    def cont(c):
        comps = [paren(c.env[m].term) for m in muts] + ([paren(c.st)] if c.st is not None else [])
        return c.wrap("%s %s rest %s" % (name, spec["args_in"], " ".join(comps)))

    def fin(c, v):
        raise Untranslatable("`return` inside a for loop")

    sub.cont, sub.fin = cont, fin
    body_term = seq(body[1], body[2], sub, lambda c, v: cont(c))
    allowed = set(spec["allowed"]) | {"e", "rest", name} | set(lname(m) for m in muts) | {cx.stname}
    check_free(body_term, cx, allowed, cnt_before)
    st_pats = [lname(m) for m in muts] + ([cx.stname] if cx.st is not None else [])
    st_tys = [lean_ty(cx.env[m].ty, sub) for m in muts] + ([sub.x["stty"]] if cx.st is not None else [])
    ret = " × ".join(paren(t) if " " in t and n < len(st_tys) - 1 else t for n, t in enumerate(st_tys))
    text = "def %s %s :\n    List (%s) → %s → %s\n  | [], %s => %s\n  | e :: rest, %s =>\n%s\n" % (
        name, spec["binders"], lean_ty(itv.ty[1], sub), " → ".join(paren(t) for t in st_tys), ret,
        ", ".join(st_pats), tuple_term(st_pats), ", ".join(st_pats), indent(body_term, 4))
    cx.loops.append(text)
    init = [paren(cx.env[m].term) for m in muts] + ([paren(cx.st)] if cx.st is not None else [])
    r = cx.let("%s %s %s %s" % (name, spec["args_out"], paren(itv.term), " ".join(init)), "r")
    total = len(st_pats)
    for n, m in enumerate(muts):
        cx.env[m] = Val(proj(r, n, total), cx.env[m].ty)
    if cx.st is not None:
        cx.st = proj(r, total - 1, total)


# ---------------------------------------------------------------- sources

_SRC = {}


def source(rel):
    if rel not in _SRC:
        try:
            _SRC[rel] = open(os.path.join(REPO, rel)).read()
        except OSError as e:
            raise Untranslatable(str(e))
    return _SRC[rel]


IMPL_SDDPTR = r"impl\s*<\s*'a\s*>\s*SddPtr\s*<\s*'a\s*>\s*\{"
IMPL_DDNNF_SDD = r"impl\s*<\s*'a\s*>\s*DDNNFPtr\s*<\s*'a\s*>\s*for\s+SddPtr"
IMPL_BIN = r"impl\s*<\s*'a\s*>\s*BinarySDD\s*<\s*'a\s*>\s*\{"
IMPL_BIN_ORD = r"impl\s*<\s*'a\s*>\s*Ord\s+for\s+BinarySDD"
IMPL_OR = r"impl\s*<\s*'a\s*>\s*SddOr\s*<\s*'a\s*>\s*\{"
IMPL_OR_ORD = r"impl\s*<\s*'a\s*>\s*Ord\s+for\s+SddOr"
IMPL_AND = r"impl\s*<\s*'a\s*>\s*SddAnd\s*<\s*'a\s*>\s*\{"
IMPL_ITER = r"impl\s*<\s*'a\s*>\s*Iterator\s+for\s+SddNodeIter"
IMPL_SEM_TRAIT = r"impl\s*<\s*'a\s*,\s*const\s+P\s*:\s*u128\s*>\s*SddBuilder\s*<\s*'a\s*>\s*for\s+SemanticSddBuilder"
IMPL_SEM = r"impl\s*<\s*'a\s*,\s*const\s+P\s*:\s*u128\s*>\s*SemanticSddBuilder\s*<\s*'a\s*,\s*P\s*>\s*\{"


def get_fn(rel, name, impl):
    ps, body = find_fn(source(rel), name, impl)
    return parse_params(ps), parse_body(body)


# ---------------------------------------------------------------- view T: Sdd.Ptr

def cx_T(partial=False):
    cx = Cx("T")
    cx.x = {"ptrns": "Ptr", "litctor": "lit", "negfn": "neg", "ptrty": "Ptr"}
    cx.partial = partial
    cx.fin = (lambda c, v: c.wrap("some %s" % paren(v.term))) if partial else (lambda c, v: c.wrap(v.term))
    return cx


def gen_T_simple(rust, lean, ret, impl, partial=False, rel=SDD_RS):
    params, ast = get_fn(rel, rust, impl)
    if params != ["self"]:
        raise Untranslatable("parameters of " + rust)
    cx = cx_T(partial)
    cx.env["self"] = Val("q", "ptr")
    term = seq(ast[1], ast[2], cx, cx.fin)
    return "def %s (q : Ptr) : %s :=\n%s\n" % (lean, ret, indent(term))


# ---------------------------------------------------------------- view S: ScratchSdd

S_BDD = ("bddnode", {"label": ("l", "nat"), "low": ("lo", "ptr"), "high": ("hi", "ptr")})
S_OR = ("ornode", {"nodes": ("es", ("list", "and"))})
SEC_S = "{Tag : Type} [DecidableEq Tag] {U : Tag → Type}"


def s_mcall(recv_ast, name, args, tf, cx):
    recv0 = strip_refs(recv_ast)
    if recv0[0] == "var" and recv0[1] in cx.env and cx.env[recv0[1]].ty in ("selfnode", "selfroot"):
        me = cx.env[recv0[1]]
        if me.ty == "selfroot":
            if name == "clear_scratch" and not args:
                cx.effect_s("%s %s" % (cx.x["clear_root"], paren(cx.st)))
                return Val("()", "unit")
            raise Untranslatable("method .%s on the root pointer" % name)
        if name == "is_neg" and not args:
            return Val(cx.x["isneg"], "bool")
        if name == "node_iter" and not args:
            return Val(cx.x["elems"], ("list", "and"))
        if name == "scratch" and not args:
            if "cell" not in cx.x:
                raise Untranslatable("scratch() outside a node arm")
            cell = "(%s %s)" % (paren(cx.st), cx.x["i"])
            if tf is not None and tf.replace(" ", "") == "usize":
                return Val(cell + ".asCount", ("opt", "nat"))
            if tf is not None and tf.replace(" ", "").startswith("DDNNFCache<"):
                return Val(cell + ".asPair t", ("opt", ("pair", ("opt", "V"), ("opt", "V"))))
            raise Untranslatable("scratch::<%s>" % tf)
        if name == "set_scratch" and len(args) == 1:
            if "cell" not in cx.x:
                raise Untranslatable("set_scratch outside a node arm")
            a0 = strip_refs(args[0])
            tfs = (tf or "").replace(" ", "")
            if tfs.startswith("DDNNFCache<") and a0[0] == "tuple" and len(a0[1]) == 2:
                x, y = E(a0[1][0], cx), E(a0[1][1], cx)
                cx.effect_s("%s.set %s (.pair t %s %s)" % (paren(cx.st), cx.x["i"], paren(x.term), paren(y.term)))
                return Val("()", "unit")
            if tfs == "usize":
                v = E(a0, cx)
                cx.effect_s("%s.set %s (.count %s)" % (paren(cx.st), cx.x["i"], paren(v.term)))
                return Val("()", "unit")
            raise Untranslatable("set_scratch::<%s>" % tf)
        raise Untranslatable("method .%s on the matched pointer" % name)
    if name == "clear_scratch" and not args:
        recv = E(recv_ast, cx)
        if recv.ty == "ptr":
            cx.effect_s("%s %s %s" % (cx.x["rc"], paren(recv.term), paren(cx.st)))
            return Val("()", "unit")
        if recv.ty == "bddnode":
            cx.effect_s("bddClear %s l lo hi %s %s" % (cx.x["rc"], cx.x["i"], paren(cx.st)))
            return Val("()", "unit")
        if recv.ty == "ornode":
            cx.effect_s("orClear %s es %s %s" % (cx.x["rc"], cx.x["i"], paren(cx.st)))
            return Val("()", "unit")
    return None


def s_call(f, args, cx):
    name = f[1] if f[0] == "var" else None
    if name in ("bottomup_pass_h", "count_h") and name == cx.x.get("recname"):
        want = 2 if name == "bottomup_pass_h" else 1
        if len(args) != want:
            raise Untranslatable("arity of " + name)
        if want == 2:
            fv = E(args[1], cx)
            if fv.ty != "fclosure":
                raise Untranslatable("second argument of bottomup_pass_h")
        x = E(args[0], cx)
        if x.ty == "selfroot":
            return Val(cx.effect_vs(cx.x["rc_root"]), cx.x["rety"])
        if x.ty != "ptr":
            raise Untranslatable("recursive call on %r" % (x.ty,))
        return Val(cx.effect_vs("%s %s" % (cx.x["rc"], paren(x.term))), cx.x["rety"])
    if name is not None and name in cx.env and cx.env[name].ty == "fclosure" and len(args) == 1:
        d = strip_refs(args[0])
        if d[0] == "path" and d[1][-1] in ("True", "False"):
            return Val("A.tru" if d[1][-1] == "True" else "A.fls", "V")
        if d[0] == "call" and d[1][0] == "path":
            ctor, dargs = d[1][1][-1], [E(x, cx) for x in d[2]]
            if ctor == "Lit" and len(dargs) == 2:
                return Val("A.lit %s %s" % (paren(dargs[0].term), paren(dargs[1].term)), "V")
            if ctor == "And" and len(dargs) == 2:
                return Val("A.and %s %s" % (paren(dargs[0].term), paren(dargs[1].term)), "V")
            if ctor == "Or" and len(dargs) == 3 and dargs[2].ty == "varset" and dargs[2].term == "∅":
                return Val("A.or %s %s" % (paren(dargs[0].term), paren(dargs[1].term)), "V")
        raise Untranslatable("argument of the fold closure")
    return None


def s_assign(op, tgt, e, cx):
    t = strip_refs(tgt)
    while t[0] == "mcall" and t[2] in ("borrow_mut",) or (t[0] == "un"):
        t = t[1] if t[0] == "mcall" else t[2]
    if t[0] == "field" and t[2] == "scratch" and strip_refs(t[1]) == ("var", "self") and cx.env.get("self") is not None \
            and cx.env["self"].ty in ("bddnode", "ornode"):
        if op != "=" or strip_refs(e) != ("var", "None"):
            raise Untranslatable("assignment to the scratch cell")
        cx.effect_s("%s.set %s .empty" % (paren(cx.st), cx.x["i"]))
        return True
    return False


def cx_S(extra):
    cx = Cx("S")
    cx.st = "σ"
    cx.x = {"ptrns": "SRef", "litctor": "var", "negfn": ".neg", "ptrty": "SRef", "stty": "Scr U", "bddpayload": S_BDD,
            "orpayload": S_OR, "mcall": s_mcall, "call": s_call, "assign": s_assign, "i": "i", "isneg": "r.isNeg",
            "elems": "n.elems"}
    cx.x.update(extra)
    return cx


def scaffold_S(bodies, name, rec_args, leaf_r="r"):
    """assemble the dereference scaffold of `Model/ScratchSdd.lean` from the per-variant bodies"""
    lt, lf, lv = bodies["PtrTrue"], bodies["PtrFalse"], bodies["Var"]
    if lt == lf == lv:
        leaf = lt
    else:
        leaf = "match r with\n| .tru =>\n%s\n| .fls =>\n%s\n| .var v p =>\n%s\n| .reg _ =>\n%s\n| .compl _ =>\n%s" % (
            indent(lt, 4), indent(lf, 4), indent(lv, 4), indent(lf, 4), indent(lt, 4))

    def pick(a, b):
        return bodies[a] if bodies[a] == bodies[b] else "if r.isNeg then\n%s\nelse\n%s" % (indent(bodies[b]), indent(bodies[a]))
    nb, no = pick("BDD", "ComplBDD"), pick("Reg", "Compl")
    node = nb if nb == no else "match n with\n| .bdd l lo hi =>\n%s\n| .or es =>\n%s" % (indent(nb, 4), indent(no, 4))
    return ("  | [], r, σ =>\n%s\n  | n :: rest, r, σ =>\n    match r.idx? with\n    | none =>\n%s\n    | some i =>\n"
            "      if i = rest.length then\n%s\n      else %s rest r σ\n") % (
        indent(leaf, 4), indent(leaf, 6), indent(node, 8), (name + " " + rec_args).strip())


def bodies_S(ast, params, mk_cx):
    """translate the body once per variant of `SddPtr` (the matched pointer is symbolic)"""
    out = {}
    for variant in PTR_VARIANTS:
        cx = mk_cx(variant)
        me = Val(None, "selfnode", variant)
        cx.env[params[0]] = me
        if variant in ("BDD", "ComplBDD", "Reg", "Compl"):
            cx.x["cell"] = True
        out[variant] = seq(ast[1], ast[2], cx, cx.fin)
    return out


def gen_S_clear():
    defs = []
    # BinarySDD::clear_scratch
    params, ast = get_fn(BIN_RS, "clear_scratch", IMPL_BIN)
    cx = cx_S({"rc": "rc"})
    cx.env["self"] = Val(None, "bddnode", S_BDD[1])
    cx.fin = lambda c, v: c.wrap(c.st)
    t = seq(ast[1], ast[2], cx, cx.fin)
    defs.append("def bddClear %s (rc : SRef → Scr U → Scr U) (l : Nat) (lo hi : SRef) (i : Nat) (σ : Scr U) : Scr U :=\n%s\n" % (SEC_S, indent(t)))
    # SddOr::clear_scratch
    params, ast = get_fn(OR_RS, "clear_scratch", IMPL_OR)
    cx = cx_S({"rc": "rc", "loops": [dict(name="orClearLoop", binders=SEC_S + " (rc : SRef → Scr U → Scr U)", args_in="rc",
                                           args_out="rc", allowed={"rc"}, env={}, x={})]})
    cx.forbidden = {"i", "es", "n", "r", "s"}
    cx.env["self"] = Val(None, "ornode", S_OR[1])
    cx.fin = lambda c, v: c.wrap(c.st)
    t = seq(ast[1], ast[2], cx, cx.fin)
    defs += cx.loops
    defs.append("def orClear %s (rc : SRef → Scr U → Scr U) (es : List (SRef × SRef)) (i : Nat) (σ : Scr U) : Scr U :=\n%s\n" % (SEC_S, indent(t)))
    # SddPtr::clear_scratch
    params, ast = get_fn(SDD_RS, "clear_scratch", IMPL_SDDPTR)

    def mk(variant):
        cx = cx_S({"rc": "(clearS rest)"})
        cx.fin = lambda c, v: c.wrap(c.st)
        return cx
    bodies = bodies_S(ast, params, mk)
    defs.append("def clearS %s : SStore → SRef → Scr U → Scr U\n%s" % (SEC_S, scaffold_S(bodies, "clearS", "")))
    return defs


def fin_vs(c, v):
    return c.wrap("(%s, %s)" % (v.term, c.st))


def gen_S_count():
    defs = []
    # count_h (nested in count_nodes)
    src = source(SDD_RS)
    params, ast = get_fn(SDD_RS, "count_h", IMPL_DDNNF_SDD)
    loops = []

    def mk(variant):
        cx = cx_S({"rc": "(countHS rest)", "recname": "count_h", "rety": "nat",
                   "loops": [dict(name="countLoop", binders=SEC_S + " (rc : SRef → Scr U → Nat × Scr U)", args_in="rc",
                                  args_out="(countHS rest)", allowed={"rc"}, env={}, x={"rc": "rc", "recname": "count_h", "rety": "nat"})]})
        cx.forbidden = {"i", "es", "n", "r", "s", "l", "lo", "hi", "rest"}
        cx.fin = fin_vs
        cx.loops = loops
        return cx
    bodies = bodies_S(ast, params, mk)
    seen = []
    for t in loops:
        if t not in seen:
            seen.append(t)
    if len(seen) > 1:
        raise Untranslatable("the loop of count_h differs between Reg and Compl")
    defs += seen
    defs.append("def countHS %s : SStore → SRef → Scr U → Nat × Scr U\n%s" % (SEC_S, scaffold_S(bodies, "countHS", "")))
    # count_nodes
    params, ast = get_fn(SDD_RS, "count_nodes", IMPL_DDNNF_SDD)
    cx = cx_S({"recname": "count_h", "rety": "nat", "rc_root": "countHS s r", "clear_root": "clearS s r"})
    cx.env["self"] = Val(None, "selfroot")
    cx.fin = fin_vs
    t = seq(ast[1], ast[2], cx, cx.fin)
    defs.append("def countNodesS %s (s : SStore) (r : SRef) (σ : Scr U) : Nat × Scr U :=\n%s\n" % (SEC_S, indent(t)))
    return defs


PROBE_TY = ("opt", ("pair", ("opt", "V"), ("opt", "V")))


def gen_S_fold():
    defs = []
    params, ast = get_fn(SDD_RS, "bottomup_pass_h", IMPL_DDNNF_SDD)
    if len(params) != 2:
        raise Untranslatable("parameters of bottomup_pass_h")
    loops, probes = [], []

    def match_hook(a, cx, k):
        """`match ptr.scratch::<DDNNFCache<T>>() { … }` whose arms are values or calls of the local closure"""
        sc = a[1]
        if not (sc[0] == "mcall" and sc[2] == "scratch" and cx.closures):
            return None
        scrut = E(sc, cx)
        if scrut.ty != PROBE_TY:
            return None
        if len(cx.closures) != 1:
            raise Untranslatable("several local closures")
        cname, cl = list(cx.closures.items())[0]
        # (1) the arms as a function `neg → cell → Probe`
        pcx = cx_S({"isneg": "neg", "Vty": "V"})
        pcx.st = None
        pcx.env[params[0]] = Val(None, "selfnode", cx.env[params[0]].extra)

        def pcall(f, args, c):
            if f == ("var", cname) and len(args) == 1:
                v = E(args[0], c)
                return Val(".miss %s" % paren(v.term), "probe")
            return None
        pcx.x["call"] = pcall

        def pk(c, v):
            if c.lets:
                raise Untranslatable("effect in a probe arm")
            return v.term if v.ty == "probe" else ".hit %s" % paren(v.term)
        pcx.fin = pk
        body = build_match(Val("x", PROBE_TY), a[2], pcx, lambda sub, b: T(b, sub, pk))
        probes.append("def foldProbe {V : Type} (neg : Bool) (x : Option (Option V × Option V)) : Scratch.Probe V :=\n%s\n" % indent(body))
        # (2) the closure body on a miss
        if len(cl[1]) != 1 or strip_pref(cl[1][0])[0] != "pvar":
            raise Untranslatable("closure parameters")
        sub = cx.sub()
        sub.env[strip_pref(cl[1][0])[1]] = Val("cached", ("opt", "V"))
        sub.closures = {}
        miss = T(cl[2], sub, k)
        hit = k(cx.sub(), Val("v", "V"))
        return cx.wrap("match foldProbe r.isNeg %s with\n| .hit v =>\n%s\n| .miss cached =>\n%s" % (
            paren(scrut.term), indent(hit, 4), indent(miss, 4)))

    def mk(variant):
        cx = cx_S({"rc": "(foldDagS t A rest)", "recname": "bottomup_pass_h", "rety": "V", "Vty": "U t", "match_hook": match_hook,
                   "loops": [dict(name="foldLoop", binders="{Tag : Type} {U : Tag → Type} {V : Type} (A : SAlg V) (rc : SRef → Scr U → V × Scr U) (neg : Bool)",
                                  args_in="A rc neg", args_out="A (foldDagS t A rest) r.isNeg", allowed={"A", "rc", "neg"},
                                  env={params[0]: Val(None, "selfnode", variant), params[1]: Val("A", "fclosure")},
                                  x={"rc": "rc", "isneg": "neg", "Vty": "V", "match_hook": None})]})
        cx.forbidden = {"i", "es", "n", "r", "s", "l", "lo", "hi", "rest", "t", "cached"}
        cx.env[params[1]] = Val("A", "fclosure")
        cx.fin = fin_vs
        cx.loops = loops
        return cx
    bodies = bodies_S(ast, params, mk)
    for lst, what in ((loops, "loop"), (probes, "cache probe")):
        seen = []
        for t in lst:
            if t not in seen:
                seen.append(t)
        if len(seen) > 1:
            raise Untranslatable("the %s of bottomup_pass_h differs between the node kinds" % what)
        defs += seen
    defs.append("def foldDagS %s (t : Tag) (A : SAlg (U t)) : SStore → SRef → Scr U → U t × Scr U\n%s" % (
        SEC_S, scaffold_S(bodies, "foldDagS", "t A")))
    # fold
    params, ast = get_fn(SDD_RS, "fold", IMPL_DDNNF_SDD)
    if len(params) != 2:
        raise Untranslatable("parameters of fold")
    cx = cx_S({"recname": "bottomup_pass_h", "rety": "V", "Vty": "U t", "rc_root": "foldDagS t A s r", "clear_root": "clearS s r"})
    cx.env["self"] = Val(None, "selfroot")
    cx.env[params[1]] = Val("A", "fclosure")
    cx.fin = fin_vs
    t = seq(ast[1], ast[2], cx, cx.fin)
    defs.append("def foldS %s (t : Tag) (A : SAlg (U t)) (s : SStore) (r : SRef) (σ : Scr U) : U t × Scr U :=\n%s\n" % (SEC_S, indent(t)))
    return defs


# ---------------------------------------------------------------- view H: Sdd.Ref / Store / HashCache

H_BDD = ("bddnode", {"label": ("l", "nat"), "index": ("idx", "nat"), "low": ("lo", "ptr"), "high": ("hi", "ptr")})
H_OR = ("ornode", {"index": ("idx", "nat"), "nodes": ("es", ("list", "and"))})
H_F = "(f : Ref → HashCache → Nat × HashCache)"


def hash_args_ok(args, cx):
    if len(args) != 2:
        return False
    a, b = E(args[0], cx), E(args[1], cx)
    if a.ty == "vtree" and b.ty == "wmap" and b.extra == "foreign" and cx.x.get("foreign_f"):
        cx.x["f_once"] = cx.x["foreign_f"]
        return True
    return a.ty == "vtree" and b.ty == "wmap" and b.extra == cx.x.get("wmap_ok", "param")


def run_inline(ast, cx, env):
    """run a function body on `cx` (its effects are recorded there) with the given parameter bindings; one normal completion"""
    sub = cx.sub()
    sub.env = dict(env)
    sub.lets = cx.lets
    out = []

    def k(c, v):
        out.append((c, v))
        return "\x01"
    sub.fin = k
    t = seq(ast[1], ast[2], sub, k)
    if t != "\x01" or len(out) != 1:
        raise Untranslatable("inlined function with several exits")
    c, v = out[0]
    if c.lets is not cx.lets:
        cx.lets += c.lets
    cx.st = c.st
    for nm in list(cx.env):
        if nm.startswith("\x04") and nm in c.env:
            cx.env[nm] = c.env[nm]
    return v


def h_mcall(recv_ast, name, args, tf, cx):
    if name == "var_weight" and len(args) == 1:
        m = E(recv_ast, cx)
        if m.ty == "wmap":
            l = E(args[0], cx)
            return Val("(w %s)" % paren(l.term), ("pair", "ff", "ff"))
    if name in ("cached_semantic_hash", "semantic_hash"):
        recv = E(recv_ast, cx)
        if not hash_args_ok(args, cx):
            raise Untranslatable("arguments of %s" % name)
        if recv.ty == "ptr" and name == "cached_semantic_hash":
            f = cx.x.pop("f_once", None) or cx.x["f"]
            return Val(cx.effect_vs("%s %s" % (f, paren(recv.term))), "ff")
        if recv.ty == "selfnode" and name == "cached_semantic_hash":
            if cx.x.get("depth", 0) > 1:
                raise Untranslatable("recursion on the pointer itself")
            cx.x["depth"] = cx.x.get("depth", 0) + 1
            env = dict(cx.env)
            env[cx.x["selfparam"]] = recv
            v = run_inline(cx.x["selfast"], cx, env)
            cx.x["depth"] -= 1
            return v
        if recv.ty == "and" and name == "semantic_hash":
            return Val(cx.effect_vs("andSemHash P %s %s" % (cx.x["f"], paren(recv.term))), "ff")
        if recv.ty == "bddnode":
            fn = "bddSemHash P w %s l lo hi" if name == "semantic_hash" else "bddCached P w %s l lo hi i"
            return Val(cx.effect_vs(fn % cx.x["f"]), "ff")
        if recv.ty == "ornode":
            fn = "orSemHash P %s es" if name == "semantic_hash" else "orCached P %s es i"
            return Val(cx.effect_vs(fn % cx.x["f"]), "ff")
        raise Untranslatable("%s on %r" % (name, recv.ty))
    if name == "neg" and not args:
        recv = E(recv_ast, cx)
        if recv.ty == "selfnode":
            flip = {"BDD": "ComplBDD", "ComplBDD": "BDD", "Reg": "Compl", "Compl": "Reg"}
            if recv.extra not in flip:
                raise Untranslatable("neg of a constant pointer")
            return Val(None, "selfnode", flip[recv.extra])
    if name == "sum" and not args:
        r = strip_refs(recv_ast)
        if r[0] == "mcall" and r[2] == "map" and len(r[3]) == 1 and r[3][0][0] == "closure":
            lst = E(r[1], cx)
            if lst.ty != ("list", "and"):
                raise Untranslatable("sum over %r" % (lst.ty,))
            cl = r[3][0]
            if len(cl[1]) != 1 or strip_pref(cl[1][0])[0] != "pvar":
                raise Untranslatable("closure of the sum")
            specs = cx.x.get("loops")
            if not specs:
                raise Untranslatable("sum (no loop scheme)")
            spec = specs.pop(0)
            cnt_before = cx.cnt[0]
            sub = Cx(cx.view)
            sub.cnt, sub.loops, sub.forbidden, sub.stname = cx.cnt, cx.loops, cx.forbidden, cx.stname
            sub.x = dict(cx.x)
            sub.x.update(spec.get("x", {}))
            sub.st = cx.stname
            for nm, v in cx.env.items():
                if v.ty in ("wmap", "vtree"):
                    sub.env[nm] = v
            sub.env[strip_pref(cl[1][0])[1]] = Val("e", "and")
            v = E(cl[2], sub)
            if v.ty != "nat":
                raise Untranslatable("sum of %r" % (v.ty,))
            rr = sub.let("%s %s rest %s" % (spec["name"], spec["args_in"], paren(sub.st)), "r")
            body = sub.wrap("(%s + %s.1, %s.2)" % (v.term, rr, rr))
            check_free(body, cx, set(spec["allowed"]) | {"e", "rest", spec["name"], cx.stname}, cnt_before)
            cx.loops.append("def %s %s :\n    List (Ref × Ref) → HashCache → Nat × HashCache\n  | [], %s => (0, %s)\n  | e :: rest, %s =>\n%s\n" % (
                spec["name"], spec["binders"], cx.stname, cx.stname, cx.stname, indent(body, 4)))
            return Val(cx.effect_vs("%s %s %s" % (spec["name"], spec["args_out"], paren(lst.term))), "nat")
    return None


def h_field(base, f, cx):
    if base.ty in ("bddnode", "ornode") and f == "semantic_hash":
        return Val("%s i" % paren(cx.st), ("opt", "nat"))
    return None


def h_assign(op, tgt, e, cx):
    t = strip_refs(tgt)
    while (t[0] == "mcall" and t[2] == "borrow_mut") or t[0] == "un":
        t = t[1] if t[0] == "mcall" else t[2]
    if t[0] == "field" and t[2] == "semantic_hash" and strip_refs(t[1]) == ("var", "self") and cx.env["self"].ty in ("bddnode", "ornode"):
        if op != "=":
            raise Untranslatable("assignment to the hash cache")
        v = E(e, cx)
        if v.ty != ("opt", "nat"):
            raise Untranslatable("value stored in the hash cache")
        cx.effect_s("fun j => if j = i then %s else %s j" % (v.term, paren(cx.st)))
        return True
    return False


def cx_H(extra):
    cx = Cx("H")
    cx.st, cx.stname = "c", "c"
    cx.x = {"ptrns": "Ref", "litctor": "lit", "negfn": "Ref.neg", "ptrty": "Ref", "stty": "HashCache", "bddpayload": H_BDD,
            "orpayload": H_OR, "mcall": h_mcall, "field": h_field, "assign": h_assign, "f": "f"}
    cx.x.update(extra)
    cx.fin = fin_vs
    cx.forbidden = {"n", "rest"}
    return cx


def hash_env(params, cx):
    if params[1:] != ["vtree", "map"] and len(params) != 3:
        raise Untranslatable("parameters of a hash function")
    cx.env[params[1]] = Val(None, "vtree")
    cx.env[params[2]] = Val(None, "wmap", "param")


def gen_H_hash():
    defs = []
    # SddAnd::semantic_hash
    params, ast = get_fn(OR_RS, "semantic_hash", IMPL_AND)
    cx = cx_H({})
    hash_env(params, cx)
    cx.env["self"] = Val("e", "and")
    defs.append("def andSemHash (P : Nat) %s (e : Ref × Ref) (c : HashCache) : Nat × HashCache :=\n%s\n" % (H_F, indent(seq(ast[1], ast[2], cx, cx.fin))))
    # SddOr::semantic_hash
    params, ast = get_fn(OR_RS, "semantic_hash", IMPL_OR)
    cx = cx_H({"loops": [dict(name="orSumLoop", binders="(P : Nat) " + H_F, args_in="P f", args_out="P f", allowed={"P", "f"}, x={})]})
    hash_env(params, cx)
    cx.env["self"] = Val(None, "ornode", H_OR[1])
    cx.forbidden = {"es", "idx", "i", "n", "rest"}
    t = seq(ast[1], ast[2], cx, cx.fin)
    defs += cx.loops
    defs.append("def orSemHash (P : Nat) %s (es : List (Ref × Ref)) (c : HashCache) : Nat × HashCache :=\n%s\n" % (H_F, indent(t)))
    # BinarySDD::semantic_hash
    params, ast = get_fn(BIN_RS, "semantic_hash", IMPL_BIN)
    cx = cx_H({})
    hash_env(params, cx)
    cx.env["self"] = Val(None, "bddnode", H_BDD[1])
    defs.append("def bddSemHash (P : Nat) (w : Spec.Weights Nat) %s (l : Nat) (lo hi : Ref) (c : HashCache) : Nat × HashCache :=\n%s\n" % (
        H_F, indent(seq(ast[1], ast[2], cx, cx.fin))))
    # the two cached_semantic_hash
    for rel, impl, ty, payload, nm, sig in ((BIN_RS, IMPL_BIN, "bddnode", H_BDD, "bddCached", "(w : Spec.Weights Nat) %s (l : Nat) (lo hi : Ref)" % H_F),
                                            (OR_RS, IMPL_OR, "ornode", H_OR, "orCached", "%s (es : List (Ref × Ref))" % H_F)):
        params, ast = get_fn(rel, "cached_semantic_hash", impl)
        cx = cx_H({})
        hash_env(params, cx)
        cx.env["self"] = Val(None, ty, payload[1])
        defs.append("def %s (P : Nat) %s (i : Nat) (c : HashCache) : Nat × HashCache :=\n%s\n" % (nm, sig, indent(seq(ast[1], ast[2], cx, cx.fin))))
    # SddPtr::cached_semantic_hash
    params, ast = get_fn(SDD_RS, "cached_semantic_hash", IMPL_SDDPTR)
    bodies = {}
    for variant in PTR_VARIANTS:
        cx = cx_H({"f": "(cachedHash P w rest)", "selfast": ast, "selfparam": "self"})
        hash_env(params, cx)
        cx.env["self"] = Val(None, "selfnode", variant)
        bodies[variant] = seq(ast[1], ast[2], cx, cx.fin)

    def node(a, b):
        return "match n with\n| .bdd l idx lo hi =>\n%s\n| .dec idx es =>\n%s" % (indent(bodies[a], 4), indent(bodies[b], 4))
    text = ("def cachedHash (P : Nat) (w : Spec.Weights Nat) : Store → Ref → HashCache → Nat × HashCache\n"
            "  | _, .tru, c =>\n%s\n  | _, .fls, c =>\n%s\n  | _, .lit v p, c =>\n%s\n  | [], .reg _, c =>\n%s\n  | [], .compl _, c =>\n%s\n"
            "  | n :: rest, .reg i, c =>\n    if i = rest.length then\n%s\n    else cachedHash P w rest (.reg i) c\n"
            "  | n :: rest, .compl i, c =>\n    if i = rest.length then\n%s\n    else cachedHash P w rest (.compl i) c\n") % (
        indent(bodies["PtrTrue"], 4), indent(bodies["PtrFalse"], 4), indent(bodies["Var"], 4), indent(bodies["PtrFalse"], 4),
        indent(bodies["PtrTrue"], 4), indent(node("BDD", "Reg"), 6), indent(node("ComplBDD", "Compl"), 6))
    defs.append(text)
    return defs


H_HASH_FALLBACK = [
    alias("andSemHash", "(P : Nat) %s (e : Ref × Ref) (c : HashCache)" % H_F, "Nat × HashCache",
          "let a := f e.1 c; let b := f e.2 a.2; (Sem.ffMul P a.1 b.1, b.2)"),
    alias("orSumLoop", "", "(P : Nat) → (Ref → HashCache → Nat × HashCache) → List (Ref × Ref) → HashCache → Nat × HashCache", "Sdd.cachedElemsWith"),
    alias("orSemHash", "(P : Nat) %s (es : List (Ref × Ref)) (c : HashCache)" % H_F, "Nat × HashCache",
          "let a := Sdd.cachedElemsWith P f es c; (Sem.ffNew P a.1, a.2)"),
    alias("bddSemHash", "(P : Nat) (w : Spec.Weights Nat) %s (l : Nat) (lo hi : Ref) (c : HashCache)" % H_F, "Nat × HashCache",
          "let a := f lo c; let b := f hi a.2; (Sem.ffAdd P (Sem.ffMul P a.1 (w l).1) (Sem.ffMul P b.1 (w l).2), b.2)"),
    alias("bddCached", "(P : Nat) (w : Spec.Weights Nat) %s (l : Nat) (lo hi : Ref) (i : Nat) (c : HashCache)" % H_F, "Nat × HashCache",
          "Sdd.cachedNodeWith P w f (.bdd l 0 lo hi) i c"),
    alias("orCached", "(P : Nat) %s (es : List (Ref × Ref)) (i : Nat) (c : HashCache)" % H_F, "Nat × HashCache",
          "Sdd.cachedNodeWith P (fun _ => (0, 0)) f (.dec 0 es) i c"),
    alias("cachedHash", "", "(P : Nat) → (w : Spec.Weights Nat) → Store → Ref → HashCache → Nat × HashCache", "Sdd.cachedHash"),
]


# ---------------------------------------------------------------- view B: the semantic builder (SddSem.Params, two tables)

B_TABLES = {"bdd_tbl": "bdd", "sdd_tbl": "sdd", "app_cache": "app"}
B_TRANSLATED = {"get_shared_sdd_ptr": "getSharedSddPtr", "check_cached_hash_and_neg": "checkCachedHashAndNeg"}


def b_field(base, f, cx):
    if base.ty == "selfbuilder":
        if f == "vtree":
            return Val(None, "vtree")
        if f == "map":
            return Val(None, "wmap", "self")
        if f in B_TABLES:
            return cx.env["\x04" + B_TABLES[f]]
        if f.startswith("num_"):
            return Val(None, "counter")
    return None


def b_mcall(recv_ast, name, args, tf, cx):
    recv0 = strip_refs(recv_ast)
    if name in ("cached_semantic_hash", "semantic_hash"):
        recv = E(recv_ast, cx)
        if not hash_args_ok(args, cx):
            raise Untranslatable("arguments of %s (the builder hashes with its own vtree and map only)" % name)
        if recv.ty == "ptr":
            return Val("π.h %s" % paren(recv.term), "ff")
        if recv.ty == "and" and name == "semantic_hash":
            return Val("andKey π %s" % paren(recv.term), "ff")
        raise Untranslatable("%s on %r" % (name, recv.ty))
    if name == "as_ptr" and not args:
        return E(recv_ast, cx)
    if name == "get_by_hash" and len(args) == 1:
        t = E(recv_ast, cx)
        if t.ty == "tbl" and t.extra in ("bdd", "sdd"):
            k = E(args[0], cx)
            return Val("getByHash %s %s" % (paren(t.term), paren(k.term)), ("opt", "ptr"))
    if name == "get_or_insert_by_hash" and len(args) == 3:
        t = E(recv_ast, cx)
        if t.ty == "tbl" and t.extra in ("bdd", "sdd"):
            k, node, flag = E(args[0], cx), E(args[1], cx), E(args[2], cx)
            if flag.term != "true" or node.ty != "ptr":
                raise Untranslatable("get_or_insert_by_hash arguments")
            a = cx.let("getOrInsertByHash %s %s %s" % (paren(t.term), paren(k.term), paren(node.term)))
            cx.env["\x04" + t.extra] = Val(a + ".1", "tbl", t.extra)
            return Val(a + ".2", "ptr")
    if name == "get" and len(args) == 1:
        t = E(recv_ast, cx)
        if t.ty == "tbl" and t.extra == "app":
            k = E(args[0], cx)
            return Val("ListCache.get %s %s" % (paren(t.term), paren(k.term)), ("opt", "ptr"))
    if name == "insert" and len(args) == 2:
        t = E(recv_ast, cx)
        if t.ty == "tbl" and t.extra == "app":
            k, v = E(args[0], cx), E(args[1], cx)
            cx.env["\x04app"] = Val("(%s, %s) :: %s" % (k.term, v.term, paren(t.term)), "tbl", "app")
            return Val("()", "unit")
    if name == "hash" and len(args) == 1:
        hv = E(args[0], cx)
        if hv.ty == "hasher":
            v = E(recv_ast, cx)
            if v.ty != "nat" or hv.extra[0] is not None:
                raise Untranslatable("FxHasher idiom")
            hv.extra[0] = v
            return Val("()", "unit")
    if name == "finish" and not args:
        hv = E(recv_ast, cx)
        if hv.ty == "hasher":
            if hv.extra[0] is None:
                raise Untranslatable("finish() of an empty hasher")
            return Val(hv.extra[0].term, "nat")
    if recv0 == ("var", "self") and cx.env.get("self") is not None and cx.env["self"].ty == "selfbuilder":
        return b_self_call(name, args, cx)
    return None


def b_self_call(name, args, cx):
    vals = [E(x, cx) for x in args]
    if name in B_TRANSLATED:
        tabs = "%s %s" % (paren(cx.env["\x04bdd"].term), paren(cx.env["\x04sdd"].term))
        pi = "π " if name == "check_cached_hash_and_neg" else ""
        return Val("%s %s%s %s" % (B_TRANSLATED[name], pi, tabs, " ".join(paren(v.term) for v in vals)), ("opt", "ptr"))
    # a helper of the same file: inlined
    if cx.x.get("inl_depth", 0) > 3:
        raise Untranslatable("helper nesting")
    for impl in (IMPL_SEM, IMPL_SEM_TRAIT):
        try:
            params, ast = get_fn(SEM_RS, name, impl)
            break
        except Untranslatable:
            params = None
    if params is None:
        raise Untranslatable("method self.%s" % name)
    env = {k: v for k, v in cx.env.items() if k.startswith("\x04")}
    ps = list(params)
    if ps and ps[0] == "self":
        env["self"] = cx.env["self"]
        ps = ps[1:]
    if len(ps) != len(vals):
        raise Untranslatable("arity of self.%s" % name)
    for pn, v in zip(ps, vals):
        env[pn] = v
    cx.x["inl_depth"] = cx.x.get("inl_depth", 0) + 1
    v = run_inline(ast, cx, env)
    cx.x["inl_depth"] -= 1
    return v


def b_call(f, args, cx):
    if f[0] == "path" and len(f[1]) == 2 and f[1][0] == "Self":
        return b_self_call(f[1][1], args, cx)
    if f[0] == "path" and f[1] == ["FxHasher", "default"] and not args:
        return Val(None, "hasher", [None])
    return None


def b_assign(op, tgt, e, cx):
    t = strip_refs(tgt)
    while (t[0] == "mcall" and t[2] == "borrow_mut") or t[0] == "un":
        t = t[1] if t[0] == "mcall" else t[2]
    if t[0] == "field" and t[2].startswith("num_") and strip_refs(t[1]) == ("var", "self"):
        return True            # statistics counters: not modelled
    return False


def cx_B(tables):
    cx = Cx("B")
    cx.x = {"ptrns": "Ptr", "litctor": "lit", "negfn": ".neg", "ptrty": "Ptr", "mcall": b_mcall, "call": b_call, "field": b_field,
            "assign": b_assign, "ffops": {"*": "π.mulH"}, "ffneg": "π.negH", "wmap_ok": "self"}
    cx.env["self"] = Val(None, "selfbuilder")
    for nm, term in tables.items():
        cx.env["\x04" + nm] = Val(term, "tbl", nm)
    return cx


TBL = "List (Nat × Ptr)"


def gen_B_andkey():
    params, ast = get_fn(OR_RS, "semantic_hash", IMPL_AND)
    cx = cx_B({})
    cx.x["wmap_ok"] = "param"
    hash_env(params, cx)
    cx.env["self"] = Val("e", "and")
    cx.fin = lambda c, v: c.wrap(v.term)
    return ["def andKey (π : Params) (e : Ptr × Ptr) : Nat :=\n%s\n" % indent(seq(ast[1], ast[2], cx, cx.fin))]


def gen_B_shared():
    params, ast = get_fn(SEM_RS, "get_shared_sdd_ptr", IMPL_SEM)
    if len(params) != 3:
        raise Untranslatable("parameters of get_shared_sdd_ptr")
    cx = cx_B({"bdd": "bdd", "sdd": "sdd"})
    cx.env[params[1]] = Val("x", "ff")
    cx.env[params[2]] = Val("hash", "nat")
    cx.fin = lambda c, v: c.wrap(v.term)
    return ["def getSharedSddPtr (bdd sdd : %s) (x hash : Nat) : Option Ptr :=\n%s\n" % (TBL, indent(seq(ast[1], ast[2], cx, cx.fin)))]


def gen_B_check():
    params, ast = get_fn(SEM_RS, "check_cached_hash_and_neg", IMPL_SEM)
    if len(params) != 2:
        raise Untranslatable("parameters of check_cached_hash_and_neg")
    cx = cx_B({"bdd": "bdd", "sdd": "sdd"})
    cx.env[params[1]] = Val("x", "ff")
    cx.fin = lambda c, v: c.wrap(v.term)
    return ["def checkCachedHashAndNeg (π : Params) (bdd sdd : %s) (x : Nat) : Option Ptr :=\n%s\n" % (TBL, indent(seq(ast[1], ast[2], cx, cx.fin)))]


def gen_B_goi(rust, lean):
    def g():
        params, ast = get_fn(SEM_RS, rust, IMPL_SEM_TRAIT)
        if len(params) != 2:
            raise Untranslatable("parameters of " + rust)
        cx = cx_B({"bdd": "st.bdd", "sdd": "st.sdd", "app": "st.app"})
        cx.env[params[1]] = Val("node", "ptr")
        cx.fin = lambda c, v: c.wrap("(⟨%s, %s, %s⟩, %s)" % (c.env["\x04bdd"].term, c.env["\x04sdd"].term, c.env["\x04app"].term, v.term))
        return ["def %s (π : Params) (st : St2) (node : Ptr) : St2 × Ptr :=\n%s\n" % (lean, indent(seq(ast[1], ast[2], cx, cx.fin)))]
    return g


def gen_B_appget():
    params, ast = get_fn(SEM_RS, "app_cache_get", IMPL_SEM_TRAIT)
    cx = cx_B({"app": "app"})
    cx.env[params[1]] = Val("e", "and")
    cx.fin = lambda c, v: c.wrap(v.term)
    return ["def appCacheGet (π : Params) (app : %s) (e : Ptr × Ptr) : Option Ptr :=\n%s\n" % (TBL, indent(seq(ast[1], ast[2], cx, cx.fin)))]


def gen_B_appins():
    params, ast = get_fn(SEM_RS, "app_cache_insert", IMPL_SEM_TRAIT)
    if len(params) != 3:
        raise Untranslatable("parameters of app_cache_insert")
    cx = cx_B({"app": "app"})
    cx.env[params[1]] = Val("e", "and")
    cx.env[params[2]] = Val("ptr", "ptr")
    cx.fin = lambda c, v: c.wrap(c.env["\x04app"].term)
    return ["def appCacheInsert (π : Params) (app : %s) (e : Ptr × Ptr) (ptr : Ptr) : %s :=\n%s\n" % (TBL, TBL, indent(seq(ast[1], ast[2], cx, cx.fin)))]


def gen_B_eq():
    params, ast = get_fn(SEM_RS, "sdd_eq", IMPL_SEM_TRAIT)
    if len(params) != 3:
        raise Untranslatable("parameters of sdd_eq")
    cx = cx_B({})
    cx.env[params[1]] = Val("a", "ptr")
    cx.env[params[2]] = Val("b", "ptr")
    cx.fin = lambda c, v: c.wrap(v.term)
    return ["def sddEq (π : Params) (a b : Ptr) : Bool :=\n%s\n" % indent(seq(ast[1], ast[2], cx, cx.fin))]


B_UNITS = [
    ("B", dict(key="SddAnd::semantic_hash (builder view)", gen=gen_B_andkey,
               fallback=[alias("andKey", "(π : Params) (e : Ptr × Ptr)", "Nat", "appKey π e.1 e.2")])),
    ("B", dict(key="SemanticSddBuilder::get_shared_sdd_ptr", gen=gen_B_shared,
               fallback=[alias("getSharedSddPtr", "(bdd sdd : %s) (x hash : Nat)" % TBL, "Option Ptr", "shared2 ⟨bdd, sdd, []⟩ x hash")])),
    ("B", dict(key="SemanticSddBuilder::check_cached_hash_and_neg", gen=gen_B_check,
               fallback=[alias("checkCachedHashAndNeg", "(π : Params) (bdd sdd : %s) (x : Nat)" % TBL, "Option Ptr", "checkNeg π ⟨bdd, sdd, []⟩ x")])),
    ("B", dict(key="SemanticSddBuilder::get_or_insert_bdd", gen=gen_B_goi("get_or_insert_bdd", "getOrInsertBdd"),
               fallback=[alias("getOrInsertBdd", "", "Params → St2 → Ptr → St2 × Ptr", "SddSemAux.getOrInsertBdd")])),
    ("B", dict(key="SemanticSddBuilder::get_or_insert_sdd", gen=gen_B_goi("get_or_insert_sdd", "getOrInsertSdd"),
               fallback=[alias("getOrInsertSdd", "", "Params → St2 → Ptr → St2 × Ptr", "SddSemAux.getOrInsertSdd")])),
    ("B", dict(key="SemanticSddBuilder::app_cache_get", gen=gen_B_appget,
               fallback=[alias("appCacheGet", "(π : Params) (app : %s) (e : Ptr × Ptr)" % TBL, "Option Ptr", "appGetRaw π app e.1 e.2")])),
    ("B", dict(key="SemanticSddBuilder::app_cache_insert", gen=gen_B_appins,
               fallback=[alias("appCacheInsert", "(π : Params) (app : %s) (e : Ptr × Ptr) (ptr : Ptr)" % TBL, TBL, "appInsertRaw π app e.1 e.2 ptr")])),
    ("B", dict(key="SemanticSddBuilder::sdd_eq", gen=gen_B_eq,
               fallback=[alias("sddEq", "", "Params → Ptr → Ptr → Bool", "eqRaw")])),
]


# ---------------------------------------------------------------- Ord (view T)

def cmp_payload(suffix):
    b = ("bddnode", {"label": ("l" + suffix, "nat"), "index": ("i" + suffix, "nat"), "low": ("lo" + suffix, "ptr"), "high": ("hi" + suffix, "ptr")})
    o = ("ornode", {"index": ("i" + suffix, "nat"), "nodes": ("es" + suffix, ("list", "and"))})
    return b, o


def gen_T_cmp():
    defs = []
    src = strip_comments(source(SDD_RS))
    m = re.search(r"#\[derive\(([^)]*)\)\]\s*pub\s+enum\s+SddPtr\s*<'a>\s*\{(.*?)\n\}", src, re.S)
    if not m or "Ord" not in [x.strip() for x in m.group(1).split(",")]:
        raise Untranslatable("derive(Ord) on enum SddPtr not found")
    variants = re.findall(r"^\s*([A-Z][A-Za-z]*)\s*(?:\([^)]*\))?\s*,", m.group(2), re.M)
    if sorted(variants) != sorted(PTR_VARIANTS):
        raise Untranslatable("variants of SddPtr: %r" % variants)
    pats = {"PtrTrue": ".tru", "PtrFalse": ".fls", "Var": ".lit v p", "BDD": ".bdd false l i lo hi", "ComplBDD": ".bdd true l i lo hi",
            "Reg": ".dec false i es", "Compl": ".dec true i es"}
    defs.append("def rank (q : Ptr) : Nat :=\n  match q with\n" + "".join("  | %s => %d\n" % (pats[v], n) for n, v in enumerate(variants)))
    # derive(Ord) on SddAnd: fields in declaration order
    osrc = strip_comments(source(OR_RS))
    m = re.search(r"#\[derive\(([^)]*)\)\]\s*pub\s+struct\s+SddAnd\s*<'a>\s*\{(.*?)\}", osrc, re.S)
    if not m or "Ord" not in [x.strip() for x in m.group(1).split(",")]:
        raise Untranslatable("derive(Ord) on struct SddAnd not found")
    fields = re.findall(r"pub\s+([a-z_]+)\s*:", m.group(2))
    if sorted(fields) != ["prime", "sub"]:
        raise Untranslatable("fields of SddAnd")
    pr = {"prime": "1", "sub": "2"}
    defs.append("def andCmp (cmpP : Ptr → Ptr → Ordering) (e e' : Ptr × Ptr) : Ordering :=\n  (cmpP e.%s e'.%s).then (cmpP e.%s e'.%s)\n" % (
        pr[fields[0]], pr[fields[0]], pr[fields[1]], pr[fields[1]]))
    for rel, impl, idx, nm, sig in ((BIN_RS, IMPL_BIN_ORD, 0, "bddCmp", "(cmpP : Ptr → Ptr → Ordering) (l i : Nat) (lo hi : Ptr) (l' i' : Nat) (lo' hi' : Ptr)"),
                                    (OR_RS, IMPL_OR_ORD, 1, "orCmp", "(cmpE : List (Ptr × Ptr) → List (Ptr × Ptr) → Ordering) (i : Nat) (es : List (Ptr × Ptr)) (i' : Nat) (es' : List (Ptr × Ptr))")):
        params, ast = get_fn(rel, "cmp", impl)
        if len(params) != 2 or params[0] != "self":
            raise Untranslatable("parameters of cmp")
        cx = cx_T()
        me, other = cmp_payload("")[idx], cmp_payload("'")[idx]
        cx.env["self"] = Val(None, me[0], me[1])
        cx.env[params[1]] = Val(None, other[0], other[1])
        defs.append("def %s %s : Ordering :=\n%s\n" % (nm, sig, indent(seq(ast[1], ast[2], cx, cx.fin))))
    return defs


T_CMP_FALLBACK = [
    alias("rank", "", "Ptr → Nat", "Ptr.rank"),
    alias("andCmp", "(cmpP : Ptr → Ptr → Ordering) (e e' : Ptr × Ptr)", "Ordering", "(cmpP e.1 e'.1).then (cmpP e.2 e'.2)"),
    alias("bddCmp", "(cmpP : Ptr → Ptr → Ordering) (l i : Nat) (lo hi : Ptr) (l' i' : Nat) (lo' hi' : Ptr)", "Ordering",
          "(compare l l').then ((compare i i').then ((cmpP lo lo').then (cmpP hi hi')))"),
    alias("orCmp", "(cmpE : List (Ptr × Ptr) → List (Ptr × Ptr) → Ordering) (i : Nat) (es : List (Ptr × Ptr)) (i' : Nat) (es' : List (Ptr × Ptr))",
          "Ordering", "(compare i i').then (cmpE es es')"),
]


# ---------------------------------------------------------------- the closure of `unsmoothed_wmc` (ddnnf.rs) as an SAlg

def gen_S_wmcalg():
    params, ast = get_fn(DDNNF_RS, "unsmoothed_wmc", r"pub\s+trait\s+DDNNFPtr")
    if len(params) != 2 or ast[1] or ast[2] is None:
        raise Untranslatable("shape of unsmoothed_wmc")
    t = ast[2]
    if not (t[0] == "mcall" and strip_refs(t[1]) == ("var", "self") and t[2] == "fold" and len(t[3]) == 1 and t[3][0][0] == "closure"):
        raise Untranslatable("unsmoothed_wmc is not `self.fold(closure)`")
    cl = t[3][0]
    if len(cl[1]) != 1 or strip_pref(cl[1][0])[0] != "pvar":
        raise Untranslatable("closure parameter")
    dn = strip_pref(cl[1][0])[1]
    body = cl[2]
    while body[0] == "block" and all(x[0] == "use" for x in body[1]) and body[2] is not None:
        body = body[2]
    if not (body[0] == "match" and strip_refs(body[1]) == ("var", dn)):
        raise Untranslatable("closure body is not a match on its argument")
    want = {"True": [], "False": [], "Lit": [("nat",), ("bool",)], "And": [("V",), ("V",)], "Or": [("V",), ("V",), ("varset",)]}
    out = {}

    def wm(recv_ast, name, args, tf, cx):
        if name == "var_weight" and len(args) == 1 and E(recv_ast, cx).ty == "wparams":
            return Val("(w %s)" % paren(E(args[0], cx).term), ("pair", "V", "V"))
        return None

    def wf(base, f, cx):
        if base.ty == "wparams" and f in ("one", "zero"):
            return Val("S." + f, "V")
        return None
    for ctor, tys in want.items():
        found = None
        for pat, g, b in body[2]:
            for q in pat_alts(pat):
                if q[0] == "pctor" and q[1][-1] == ctor and found is None:
                    found = (q, g, b)
        if found is None or found[1] is not None or len(found[0][2]) != len(tys):
            raise Untranslatable("arm for DDNNF::" + ctor)
        cx = Cx("S")
        cx.x = {"mcall": wm, "field": wf, "ptrns": "SRef", "Vty": "α"}
        cx.env[params[1]] = Val(None, "wparams")
        names = []
        for n, (sub, ty) in enumerate(zip(found[0][2], tys)):
            sub = strip_pref(sub)
            nm = "x%d" % n
            if sub[0] == "pvar":
                cx.env[sub[1]] = Val(nm, ty[0])
            elif sub[0] != "pwild":
                raise Untranslatable("pattern inside DDNNF::" + ctor)
            if ty[0] != "varset":
                names.append(nm)
        cx.fin = lambda c, v: c.wrap(v.term)
        term = T(found[2], cx, cx.fin)
        if "let " in term:
            raise Untranslatable("effect in the wmc closure")
        out[ctor] = ("fun %s => " % " ".join(names) if names else "") + " ".join(term.split())
    return ["def wmcSAlg {α : Type} (S : SROps α) (w : Spec.Weights α) : SAlg α where\n  tru := %s\n  fls := %s\n  lit := %s\n  and := %s\n  or := %s\n" % (
        out["True"], out["False"], out["Lit"], out["And"], out["Or"])]


# ---------------------------------------------------------------- stats (view H over all nodes of the builder)

def gen_H_stats():
    params, ast = get_fn(SEM_RS, "stats", IMPL_SEM_TRAIT)
    if params != ["self"]:
        raise Untranslatable("parameters of stats")
    cx = cx_H({"f": "(cachedHash P w s)", "wmap_ok": "self"})
    cx.env["self"] = Val(None, "selfbuilder")
    cx.forbidden = {"roots"}

    def field(base, f, c):
        if base.ty == "selfbuilder":
            if f == "vtree":
                return Val(None, "vtree")
            if f == "map":
                return Val(None, "wmap", "self")
            return Val(None, "unmodelled")
        return None

    def mcall(recv_ast, name, args, tf, c):
        r0 = strip_refs(recv_ast)
        if r0 == ("var", "self") and name == "node_iter" and not args and c.env.get("self") is not None and c.env["self"].ty == "selfbuilder":
            return Val("roots", ("list", "ptr"))
        if r0[0] == "var" and r0[1] in c.env and c.env[r0[1]].ty == "set":
            sv = c.env[r0[1]]
            if name == "contains" and len(args) == 1:
                return Val("%s.contains %s" % (paren(sv.term), paren(E(args[0], c).term)), "bool")
            if name == "insert" and len(args) == 1:
                x = E(args[0], c)
                c.env[r0[1]] = Val("%s :: %s" % (x.term, paren(sv.term)), "set")
                return Val("!(%s.contains %s)" % (paren(sv.term), paren(x.term)), "bool")
        return h_mcall(recv_ast, name, args, tf, c)

    def call(f, args, c):
        if f[0] == "path" and f[1] == ["HashSet", "new"] and not args:
            return Val("([] : List Nat)", "set")
        if f[0] in ("var", "path") and (f[1] if f[0] == "var" else f[1][-1]) == "create_semantic_hash_map":
            return Val(None, "wmap", "foreign")      # another prime / weight map: the fresh parameters P' w'
        return None
    result = []

    def struct(a, c):
        if a[1] != "SddBuilderStats":
            return None
        fs = dict(a[2])
        if "num_logically_redundant" not in fs:
            raise Untranslatable("field num_logically_redundant")
        return E(fs["num_logically_redundant"], c)
    cx.x.update({"field": field, "mcall": mcall, "call": call, "struct": struct, "foreign_f": "(cachedHash P' w' s)",
                 "loops": [dict(name="statsLoop", binders="(P : Nat) (w : Spec.Weights Nat) (s : Store)", args_in="P w s", args_out="P w s",
                                allowed={"P", "w", "s", "P'", "w'"}, env={"self": Val(None, "selfbuilder")}, x={})]})
    t = seq(ast[1], ast[2], cx, cx.fin)
    if any("P'" in d for d in cx.loops + [t]):
        # the hash is taken with a prime / weight map that is not the builder's: they become extra parameters
        loops = [d.replace("(P : Nat) (w : Spec.Weights Nat) (s : Store)", "(P : Nat) (w : Spec.Weights Nat) (P' : Nat) (w' : Spec.Weights Nat) (s : Store)")
                 .replace("statsLoop P w s", "statsLoop P w P' w' s") for d in cx.loops]
        return loops + ["def statsCollisions (P : Nat) (w : Spec.Weights Nat) (P' : Nat) (w' : Spec.Weights Nat) (s : Store) (roots : List Ref) (c : HashCache) : Nat × HashCache :=\n%s\n"
                        % indent(t.replace("statsLoop P w s", "statsLoop P w P' w' s"))]
    return cx.loops + ["def statsCollisions (P : Nat) (w : Spec.Weights Nat) (s : Store) (roots : List Ref) (c : HashCache) : Nat × HashCache :=\n%s\n" % indent(t)]


H_STATS_FALLBACK = [
    alias("statsLoop", "", "(P : Nat) → (w : Spec.Weights Nat) → (s : Store) → List Ref → List Nat → Nat → HashCache → List Nat × Nat × HashCache",
          "SddSemAux.statsLoop"),
    alias("statsCollisions", "(P : Nat) (w : Spec.Weights Nat) (s : Store) (roots : List Ref) (c : HashCache)", "Nat × HashCache",
          "let r := SddSemAux.statsLoop P w s roots [] 0 c; (r.2.1, r.2.2)"),
]


# ---------------------------------------------------------------- units, fallback, output

def T_unit(rust, lean, ret, model, impl, partial=False):
    return dict(key="SddPtr::" + rust, gen=lambda: [gen_T_simple(rust, lean, ret, impl, partial)],
                fallback=[alias(lean, "", "Ptr → " + ret, model)])


S_CLEAR_FALLBACK = [
    alias("bddClear", SEC_S + " (rc : SRef → Scr U → Scr U) (l : Nat) (lo hi : SRef) (i : Nat) (σ : Scr U)", "Scr U",
          "[lo, hi].foldl (fun σ k => rc k σ) (σ.set i .empty)"),
    alias("orClearLoop", SEC_S + " (rc : SRef → Scr U → Scr U) (es : List (SRef × SRef)) (σ : Scr U)", "Scr U",
          "(es.flatMap fun e => [e.1, e.2]).foldl (fun σ k => rc k σ) σ"),
    alias("orClear", SEC_S + " (rc : SRef → Scr U → Scr U) (es : List (SRef × SRef)) (i : Nat) (σ : Scr U)", "Scr U",
          "orClearLoop rc es (σ.set i .empty)"),
    alias("clearS", SEC_S, "SStore → SRef → Scr U → Scr U", "ScratchSdd.clearS"),
]
S_COUNT_FALLBACK = [
    alias("countLoop", SEC_S + " (rc : SRef → Scr U → Nat × Scr U) (es : List (SRef × SRef)) (c : Nat) (σ : Scr U)", "Nat × Scr U",
          "es.foldl (fun (acc : Nat × Scr U) e => let a := rc e.2 acc.2; let b := rc e.1 a.2; (acc.1 + a.1 + b.1 + 1, b.2)) (c, σ)"),
    alias("countHS", SEC_S, "SStore → SRef → Scr U → Nat × Scr U", "ScratchSdd.countHS"),
    alias("countNodesS", SEC_S, "SStore → SRef → Scr U → Nat × Scr U", "ScratchSdd.countNodesS"),
]
S_FOLD_FALLBACK = [
    alias("foldLoop", "{Tag : Type} {U : Tag → Type} {V : Type}",
          "SAlg V → (SRef → Scr U → V × Scr U) → Bool → List (SRef × SRef) → V → Scr U → V × Scr U", "ScratchSdd.foldElems"),
    alias("foldProbe", "{V : Type}", "Bool → Option (Option V × Option V) → Scratch.Probe V", "Scratch.probeFold"),
    alias("foldDagS", SEC_S, "(t : Tag) → SAlg (U t) → SStore → SRef → Scr U → U t × Scr U", "ScratchSdd.foldDagS"),
    alias("foldS", SEC_S, "(t : Tag) → SAlg (U t) → SStore → SRef → Scr U → U t × Scr U", "ScratchSdd.foldS"),
]

UNITS = [
    ("T", T_unit("neg", "neg", "Ptr", "Ptr.neg", IMPL_DDNNF_SDD)),
    ("T", T_unit("is_neg", "isNeg", "Bool", "Ptr.isNeg", IMPL_DDNNF_SDD)),
    ("T", T_unit("is_true", "isTrue", "Bool", "Ptr.isTrue", IMPL_DDNNF_SDD)),
    ("T", T_unit("is_false", "isFalse", "Bool", "Ptr.isFalse", IMPL_DDNNF_SDD)),
    ("T", T_unit("is_neg_var", "isNegVar", "Bool", "Ptr.isNegVar", IMPL_SDDPTR)),
    ("T", T_unit("is_bdd", "isBdd", "Bool", "Ptr.isBdd", IMPL_SDDPTR)),
    ("T", T_unit("low", "low", "Option Ptr", "Ptr.low?", IMPL_SDDPTR, True)),
    ("T", T_unit("high", "high", "Option Ptr", "Ptr.high?", IMPL_SDDPTR, True)),
    ("S", dict(key="SddPtr::clear_scratch (+ BinarySDD::clear_scratch, SddOr::clear_scratch)", gen=gen_S_clear, fallback=S_CLEAR_FALLBACK)),
    ("S", dict(key="SddPtr::count_nodes (+ count_h)", gen=gen_S_count, fallback=S_COUNT_FALLBACK)),
    ("S", dict(key="SddPtr::fold (+ bottomup_pass_h)", gen=gen_S_fold, fallback=S_FOLD_FALLBACK)),
    ("H", dict(key="SddPtr::cached_semantic_hash (+ BinarySDD/SddOr::{semantic_hash, cached_semantic_hash}, SddAnd::semantic_hash)",
               gen=gen_H_hash, fallback=H_HASH_FALLBACK)),
] + B_UNITS + [
    ("T", dict(key="derive(Ord) for SddPtr / SddAnd, BinarySDD::cmp, SddOr::cmp", gen=gen_T_cmp, fallback=T_CMP_FALLBACK)),
    ("S", dict(key="DDNNFPtr::unsmoothed_wmc (the closure, as the algebra of the SDD fold)", gen=gen_S_wmcalg,
               fallback=[alias("wmcSAlg", "{α : Type}", "SROps α → Spec.Weights α → SAlg α", "ScratchSdd.wmcSAlg")])),
    ("H", dict(key="SemanticSddBuilder::stats (num_logically_redundant and the hash memo)", gen=gen_H_stats, fallback=H_STATS_FALLBACK)),
]

HEADER = """import RsddModel.Model.SddWmc
import RsddModel.Model.ScratchSdd
import RsddModel.Model.SddSemantic
import RsddModel.Lemmas.TieSddQAux
/-!
# Generated by tools/gen_sddq.py from src/repr/sdd.rs, src/repr/sdd/{binary_sdd,sdd_or}.rs,
# src/builder/sdd/semantic.rs, src/repr/ddnnf.rs — do not edit

Compared with the hand-written model in `Props/TieSddQ.lean`.
-/
set_option linter.unusedVariables false
"""
SECTIONS = {
    "T": ("namespace Gen.SddQ\nopen Sdd\n\n", "end Gen.SddQ\n"),
    "S": ("namespace Gen.SddQ\nopen Scratch ScratchSdd\n\n", "end Gen.SddQ\n"),
    "H": ("namespace Gen.SddQ\nopen Sdd\n\n", "end Gen.SddQ\n"),
    "B": ("namespace Gen.SddQ\nopen Sdd SddSem SddSemAux\n\n", "end Gen.SddQ\n"),
}


def write_if_changed(path, text):
    old = open(path).read() if os.path.exists(path) else None
    if old != text:
        open(path, "w").write(text)


def main():
    status = {}
    out = [HEADER]
    cur = None
    for view, u in UNITS:
        if view != cur:
            if cur is not None:
                out.append(SECTIONS[cur][1])
            out.append("\n" + SECTIONS[view][0])
            cur = view
        try:
            defs = u["gen"]()
            text = "\n".join(defs)
            if "\x00" in text or "\x01" in text:
                raise Untranslatable("internal: unresolved placeholder")
            out.append(text)
            status[u["key"]] = "translated"
        except (Untranslatable, KeyError, IndexError, ValueError, TypeError, AttributeError, RecursionError) as e:
            msg = ("%s: %s" % (type(e).__name__, e)) if not isinstance(e, Untranslatable) else str(e)
            out.append("-- TRANSLATOR ROUTE NOT AVAILABLE for %s: %s\n" % (u["key"], msg.replace("\n", " ")) + "\n".join(u["fallback"]))
            status[u["key"]] = "UNTRANSLATED (translator route not available, tied by correspondence only): %s" % msg
    if cur is not None:
        out.append(SECTIONS[cur][1])
    write_if_changed(OUT, "\n".join(out))
    return status


if __name__ == "__main__":
    for k, v in main().items():
        print(k, "->", v)
