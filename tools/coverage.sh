#!/bin/bash
# Line/function coverage of /repo/src by the correspondence streams (DESIGN.md 9.8).
# Not part of any check: an aid for finding API surface the streams do not call.
# Needs the nightly toolchain's llvm-tools; builds in a scratch directory that it removes again.
set -e
W=${1:-/tmp/verif_cov}
CASES=${2:-400}
T=$(dirname "$(rustc +nightly --print target-libdir)")/bin
rm -rf "$W"; mkdir -p "$W"
rsync -a --exclude target /verif/harness/ "$W/harness/"
sed -i "s#target-dir = .*#target-dir = \"$W/target\"#" "$W/harness/.cargo/config.toml"
(cd "$W/harness" && LLVM_PROFILE_FILE="$W/build_%p.profraw" RUSTFLAGS="-C instrument-coverage" CARGO_NET_OFFLINE=true cargo +nightly build --offline >/dev/null 2>&1)
H="$W/target/debug/harness"
cd "$W"   # profile files of child processes land here, never in /repo
for st in bdd tbl lru ring wmc sdd up td ord cnf opt comp query ser ffi hash; do
  LLVM_PROFILE_FILE="$W/p_$st.profraw" "$H" $st --seed=1 --cases=$CASES --maxvars=6 --maxops=25 >/dev/null 2>&1 || echo "stream $st exited non-zero"
done
"$T/llvm-profdata" merge -sparse "$W"/p_*.profraw -o "$W/all.profdata"
"$T/llvm-cov" report "$H" -instr-profile="$W/all.profdata" --ignore-filename-regex='(registry|harness/src|rustc|hypergraph)' 2>/dev/null | awk '{print $1, $8, $9, $10, $11, $12, $13}' | sed 's#^repo/src/##'
rm -rf "$W"
