#!/bin/bash
# usage: runmut.sh <label> <patchfile | -e 'python-snippet operating on dict files'>
# prints: label | untranslated units | build result | failing theorems
W=/tmp/tw/sddq
S=$W/scratch/repo
rm -rf $S; mkdir -p $S; cp -r /tmp/tw/repo_pristine/src $S/src
label=$1; shift
if [ "$1" = "-p" ]; then
  (cd $S && patch -p1 -s < $2) || { echo "$label | PATCH FAILED"; exit 1; }
else
  python3 - "$S" "$@" <<'PY' || { echo "$label | MUTATION DID NOT APPLY"; exit 1; }
import sys
root, f, old, new = sys.argv[1], sys.argv[2], sys.argv[3], sys.argv[4]
p = root + "/" + f
s = open(p).read()
if s.count(old) < 1:
    sys.exit(1)
s = s.replace(old, new, 1)
open(p, "w").write(s)
PY
fi
cd $W/verif/tools && VERIF_REPO=$S python3 gen_sddq.py > $W/scratch/status.txt 2>&1
un=$(grep -c UNTRANSLATED $W/scratch/status.txt)
unl=$(grep UNTRANSLATED $W/scratch/status.txt | sed 's/ -> .*: /: /' | cut -c1-110 | tr '\n' ';')
cd $W/verif/lean && lake build RsddModel.Props.TieSddQ > $W/scratch/build.txt 2>&1
if grep -q "Build completed successfully" $W/scratch/build.txt; then res="BUILD OK"; else
  res="BUILD FAILS"
  fails=$(grep -o "^error: RsddModel/[A-Za-z/]*.lean:[0-9]*" $W/scratch/build.txt | sed 's/error: //' | sort -u | tr '\n' ' ')
  thms=""
  for loc in $fails; do f=$(echo $loc | cut -d: -f1); ln=$(echo $loc | cut -d: -f2); 
    t=$(head -n $ln $f | grep -o "^theorem [A-Za-z_0-9']*\|^private theorem [A-Za-z_0-9']*\|^def [A-Za-z_0-9']*" | tail -1 | awk '{print $NF}'); thms="$thms $t"; done
  thms=$(echo $thms | tr ' ' '\n' | sort -u | tr '\n' ' ')
fi
echo "$label | untranslated=$un $unl | $res | $thms"
