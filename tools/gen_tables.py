#!/usr/bin/env python3
"""Translator (translator route, see DESIGN.md 9.7c/9.8): the two hash tables.

Regenerates `lean/RsddModel/Model/GenTables.lean` from the Rust source text on every run:

* `src/util/lru.rs`:   `pow_cap`, `Lru::{new, grow, insert, get}`                 -> namespace `Gen.Lru`
* `src/backing_store/bump_table.rs`: the free `propagate`, `BackedRobinhoodTable::{new,
  verif_with_capacity, grow, get_or_insert_by_hash, get_by_hash}`                -> namespace `Gen.RH`

`Props/TieTables.lean` (static, hand-written) proves the regenerated definitions equal to the
hand-written models `Lru.*` (Model/Lru.lean) and `RH.*` (Model/RobinHood.lean).

How: a tokenizer + recursive-descent parser for the Rust subset (items, `let`, assignment,
compound assignment, `if`/`else`, `if let`, `match` with guards, `loop`, `for`, `return`,
`continue`, method calls, closures, struct literals, `vec![x; n]`, casts), then a *symbolic
executor* that runs each function body on a store of Lean terms:

* mutable state (`&mut self`, `&mut` parameters, `let mut`) is explicit state passing: every
  place holds the Lean term of its current value; the function returns
  (final `self` if `&mut self`, final `&mut` parameters, return value) -- one component => no tuple;
* `if` without `return`/`continue` inside: both branches are executed and every place is merged
  (`if c then a else b`); with `return`/`continue` inside: the rest of the block is the
  continuation of both branches;
* `loop { .. }` becomes a separate definition `<fn>_loop` by recursion on fuel (`| 0 => ..
  | fuel + 1 => body`); its parameters are, in this order: the extra parameters of the function
  (`num den`, `extra`), the places visible at loop entry that the body does not change on a
  path that continues (fixed), the fuel, the places it does change (carried);
* `for x in xs.iter()[.filter(|x| p)][.flatten()] { .. }` becomes `List.foldl` over the places the
  body assigns (one accumulator); `.filter(p)` is a guard inside the fold, `.flatten()` a match;
* `while c { .. }` (no return / continue / break inside) becomes a definition `<fn>_while` by recursion on
  fuel returning the tuple of the places the body changes (no model function uses one: it only serves to
  give changed code a definition that differs from the model);
* `x.unwrap()` is only accepted where `x.is_some()` has been tested on the path: the test becomes
  `match x with | some w => .. | none => ..` and the `unwrap` is `w`.
* `match` / `if let` are compiled by a decision tree over (nested) `Some(..)`/`None`/tuple patterns with guards,
  in value position (branches merged) as well as with `return`/`continue` inside an arm (continuations).
* `&mut` references: `let r = &mut place` makes `r` an alias of the place; a pattern variable bound by
  `ref mut` or through `as_mut()` / `&mut` writes through to the matched place (`place := some <new value>`).
* a struct field that the Rust declares but the model has no counterpart for is *new state*: its value is
  opaque, execution goes on (both branches of tests on it), and a function that touches it is reported
  `DIFFERS (new state): <field>` (alias kept); a function that does not touch it is translated as usual.
* elaboration guard: when the generated text changed it is elaborated once with `lake env lean`; a definition
  Lean rejects falls back to its alias with status `UNTRANSLATED … does not elaborate`.

TRUSTED MAPPING (Rust -> Lean); everything else is structural:
  usize/u64/u8 -> Nat (no overflow, psl as Nat: header of Model/RobinHood.lean);  `e as usize/u64/u8` -> e
  `1 << e` -> `2 ^ e`;  `vec![x; n]` -> `List.replicate n x`;  `Some/None` -> `some/none`
  `.clone() .iter() .as_ref() & &mut * ref` -> identity
  `v[i]` (read) -> `sget v i` for slots / `v.getD i none` for options;  `v[i] = x` -> `v.set i x`
  `.is_some()` -> `.isSome`, `.is_none()` -> `.isNone`, `.next_power_of_two()` -> `nextPow2`
  `Option::filter/map/replace/take/insert/unwrap_or/map_or/is_some_and/and_then/or`, `mem::replace`, `mem::swap` -> their definitions
  `v.get(i)` -> `v[i]?`, `v.len()` -> `v.length`, `v.is_empty()`, `v.push(x)` -> `v ++ [x]`, `v.first()/last()`
  `^ & |` on integers -> `^^^ &&& |||`; `a.min(b) a.max(b) a.saturating_sub(b) a.pow(b) a.abs_diff(b)`; tuples -> Lean tuples
  f64: `x as f64` is the rational x/1, `*` `/` are exact, the constants `GROW_RATIO`, `LOAD_FACTOR`
        are the rational parameter `num/den`;  `a > b` -> `a.n * b.d > a.d * b.n`
  bump arena (`alloc: Bump`) -> the list `keys`; `self.alloc.alloc(e)` -> index `keys.length`, `keys ++ [e]`;
        `&'a T` -> that index; `*p` -> `keys.getD p 0`;  `Bump::new()` -> `[]`
  struct fields: Lru{tbl,cap,num_filled} -> Lru.Tbl{tbl,cap,numFilled}; Element -> Lru.Elem;
        BackedRobinhoodTable{tbl,alloc,cap,len,hits} -> RH.Tbl{slots,keys,cap,len,hits};
        HashTableElement{ptr,hash,psl} -> RH.Slot.   `stat: ApplyCacheStats` is not modelled (writes dropped).
  fuel: a call of `propagate(v, cap, ..)` gets fuel `cap + 1 + extra`; the loop of a table method gets
        `self.cap + 1 + extra` (self.cap at loop entry); on fuel 0 a loop returns the current state and the
        default return value (0 / none).  (Lemmas/RobinHood.lean: fuel-exhausted branches unreachable.)
  mutual recursion `Lru::insert` <-> `Lru::grow` is open: `insert` takes the `grow` it calls as a
        parameter and vice versa (the knot is tied by Lemmas `Lru.growRust_eq_grow`).
  statements under `#[cfg(feature = "verif_hooks")]` are skipped (test hook of `new`).
  small helper functions that are not tie targets (`is_occupied`, `HashTableElement::new/default`,
        `Element::new`, the method `propagate`) are inlined at the call site by executing their body.

POLICY: a function outside this grammar falls back (that function only) to an alias of the model
and is reported UNTRANSLATED; a function the translator can read but that differs from the model
gives a different definition and the tie theorem fails.
"""
import os, re, sys

ROOT = os.path.dirname(os.path.dirname(os.path.abspath(__file__)))
REPO = os.environ.get("VERIF_REPO", "/repo")
OUT = os.path.join(ROOT, "lean", "RsddModel", "Model", "GenTables.lean")


class Untranslatable(Exception):
    pass


class DiffersNewState(Exception):
    """the function was read, but it uses state (a struct field) the model has no counterpart for"""
    pass


# ================================================================ tokenizer
TOKEN_RE = re.compile(r"""
  (?P<lifetime>'[A-Za-z_][A-Za-z0-9_]*(?!'))
 |(?P<chr>'(?:\\.|[^\\'])')
 |(?P<str>"(?:\\.|[^"\\])*")
 |(?P<float>\d[\d_]*\.\d[\d_]*(?:[eE][+-]?\d+)?(?:f32|f64)?)
 |(?P<int>\d[\d_]*(?:usize|u8|u16|u32|u64|u128|i32|i64|isize)?)
 |(?P<id>[A-Za-z_][A-Za-z0-9_]*)
 |(?P<op><<=|>>=|\.\.=|\.\.|=>|==|!=|<=|>=|&&|\|\||\+=|-=|\*=|/=|%=|<<|>>|->|::|[-+*/%<>=!&|^~.,;:(){}\[\]\#?@$])
""", re.X)


def tokenize(src):
    src = re.sub(r"/\*.*?\*/", " ", src, flags=re.S)
    src = re.sub(r"//[^\n]*", "", src)
    out, i, n = [], 0, len(src)
    while i < n:
        if src[i].isspace():
            i += 1
            continue
        m = TOKEN_RE.match(src, i)
        if not m:
            raise Untranslatable("cannot tokenize at: " + src[i:i + 30])
        out.append((m.lastgroup, m.group(0)))
        i = m.end()
    return out


KEYWORDS = {"let", "mut", "if", "else", "match", "loop", "while", "for", "in", "return", "continue",
            "break", "fn", "impl", "pub", "as", "ref", "where", "struct", "const", "use", "move"}


# ================================================================ parser
class Parser:
    def __init__(self, toks):
        self.t, self.i = toks, 0

    def peek(self, k=0):
        j = self.i + k
        return self.t[j][1] if j < len(self.t) else None

    def kind(self, k=0):
        j = self.i + k
        return self.t[j][0] if j < len(self.t) else None

    def at(self, *xs):
        return self.peek() in xs

    def eat(self, x=None):
        tok = self.peek()
        if tok is None or (x is not None and tok != x):
            raise Untranslatable("parse: expected %r, found %r (token %d)" % (x, tok, self.i))
        self.i += 1
        return tok

    def ident(self):
        if self.kind() != "id":
            raise Untranslatable("parse: expected identifier, found %r" % self.peek())
        return self.eat()

    # ---- types: collected as a normalised string
    def type_until(self, stops):
        depth, out = 0, []
        while True:
            tok = self.peek()
            if tok is None:
                raise Untranslatable("parse: unterminated type")
            if depth == 0 and tok in stops:
                break
            if tok in ("<", "(", "["):
                depth += 1
            elif tok in (">", ")", "]"):
                if depth == 0:
                    break
                depth -= 1
            elif tok == ">>":
                if depth < 2:
                    break
                depth -= 2
            out.append(self.eat())
        return " ".join(out)

    def skip_generics(self):
        if self.at("<"):
            depth = 0
            while True:
                tok = self.eat()
                if tok == "<":
                    depth += 1
                elif tok == ">":
                    depth -= 1
                elif tok == ">>":
                    depth -= 2
                if depth <= 0:
                    break

    def skip_balanced(self, open_, close):
        depth = 0
        while True:
            tok = self.eat()
            if tok == open_:
                depth += 1
            elif tok == close:
                depth -= 1
                if depth == 0:
                    return

    # ---- items
    def parse_file(self):
        """returns (fns, consts): fns = {(impl type | None, name): fn dict}; self.structs = declared fields"""
        fns, consts = {}, {}
        self.structs = {}
        while self.peek() is not None:
            self.item(None, fns, consts)
        return fns, consts

    def attributes(self):
        attrs = []
        while self.at("#"):
            self.eat("#")
            if self.at("!"):
                self.eat()
            start = self.i
            self.skip_balanced("[", "]")
            attrs.append(" ".join(t[1] for t in self.t[start:self.i]))
        return attrs

    def item(self, impl_ty, fns, consts):
        self.attributes()
        while self.at("pub"):
            self.eat()
            if self.at("("):
                self.skip_balanced("(", ")")
        tok = self.peek()
        if tok == "fn":
            f = self.fn_item(impl_ty)
            fns.setdefault((impl_ty, f["name"]), f)
        elif tok == "impl":
            self.eat()
            self.skip_generics()
            first = self.type_until(("for", "where", "{"))
            ty = first
            if self.at("for"):
                self.eat()
                ty = self.type_until(("where", "{"))
            if self.at("where"):
                while not self.at("{"):
                    self.eat()
            name = re.match(r"[A-Za-z_][A-Za-z0-9_]*", ty.strip())
            name = name.group(0) if name else ty
            self.eat("{")
            while not self.at("}"):
                self.item(name, fns, consts)
            self.eat("}")
        elif tok == "struct" and self.kind(1) == "id":
            self.eat()
            sname = self.ident()
            self.skip_generics()
            while not self.at("{", ";", "("):
                self.eat()
            if self.at("{"):
                self.eat("{")
                flds = []
                while not self.at("}"):
                    self.attributes()
                    while self.at("pub"):
                        self.eat()
                        if self.at("("):
                            self.skip_balanced("(", ")")
                    flds.append(self.ident())
                    self.eat(":")
                    self.type_until((",", "}"))
                    if self.at(","):
                        self.eat()
                self.eat("}")
                self.structs[sname] = flds
            elif self.at("("):
                self.skip_balanced("(", ")")
                if self.at(";"):
                    self.eat()
            else:
                self.eat(";")
        elif tok == "const":
            self.eat()
            name = self.ident()
            self.eat(":")
            ty = self.type_until(("=",))
            self.eat("=")
            val = self.expr()
            self.eat(";")
            consts[name] = (ty, val)
        else:
            # any other item: skip to `;` or over a brace block
            while True:
                t = self.peek()
                if t is None:
                    return
                if t == ";":
                    self.eat()
                    return
                if t == "{":
                    self.skip_balanced("{", "}")
                    return
                if t in ("(", "["):
                    self.skip_balanced(t, ")" if t == "(" else "]")
                    continue
                self.eat()

    def fn_item(self, impl_ty):
        self.eat("fn")
        name = self.ident()
        self.skip_generics()
        self.eat("(")
        params = []  # (name, kind, type string); kind in self/selfref/selfmut/val/ref/refmut
        while not self.at(")"):
            if self.at("&") and (self.peek(1) == "self" or self.peek(2) == "self" or self.peek(3) == "self"):
                self.eat("&")
                if self.kind() == "lifetime":
                    self.eat()
                if self.at("mut"):
                    self.eat()
                    self.eat("self")
                    params.append(("self", "selfmut", "Self"))
                else:
                    self.eat("self")
                    params.append(("self", "selfref", "Self"))
            elif self.at("self") or (self.at("mut") and self.peek(1) == "self"):
                if self.at("mut"):
                    self.eat()
                self.eat("self")
                params.append(("self", "self", "Self"))
            else:
                if self.at("mut"):
                    self.eat()
                pn = self.ident()
                self.eat(":")
                ty = self.type_until((",",))
                kind = "val"
                if ty.startswith("&"):
                    kind = "refmut" if re.match(r"&\s*('[a-z_]+\s*)?mut\b", ty) else "ref"
                params.append((pn, kind, ty))
            if self.at(","):
                self.eat()
        self.eat(")")
        ret = None
        if self.at("->"):
            self.eat()
            ret = self.type_until(("where", "{"))
        if self.at("where"):
            while not self.at("{"):
                self.eat()
        body = self.block()
        return {"name": name, "impl": impl_ty, "params": params, "ret": ret, "body": body}

    # ---- blocks / statements
    def block(self):
        self.eat("{")
        stmts = []
        while not self.at("}"):
            attrs = self.attributes()
            skip = any("cfg" in a and "verif_hooks" in a for a in attrs)
            s = self.stmt()
            if s is not None and not skip:
                stmts.append(s)
        self.eat("}")
        return stmts

    def stmt(self):
        if self.at(";"):
            self.eat()
            return None
        if self.at("let"):
            self.eat()
            pat = self.pattern()
            ty = None
            if self.at(":"):
                self.eat()
                ty = self.type_until(("=", ";"))
            init = None
            if self.at("="):
                self.eat()
                init = self.expr()
            self.eat(";")
            return ("let", pat, ty, init)
        if self.peek() in ("if", "match", "loop", "while", "for", "{"):
            # a block-like expression statement ends at its closing brace (Rust statement rule)
            e = self.primary(False)
            if self.at(";"):
                self.eat()
                return ("expr", e, True)
            if self.at("}"):
                return ("expr", e, False)
            if not self.at(".", "?", "as"):
                return ("expr", e, True)
            raise Untranslatable("parse: method call on a block expression in statement position")
        e = self.expr()
        if self.at(";"):
            self.eat()
            return ("expr", e, True)
        if self.at("}"):
            return ("expr", e, False)
        if e[0] in ("if", "iflet", "match", "loop", "while", "for", "block"):
            return ("expr", e, True)
        raise Untranslatable("parse: expected `;` after expression, found %r" % self.peek())

    # ---- patterns
    def pattern(self):
        if self.at("_"):
            self.eat()
            return ("pwild",)
        if self.at("&"):
            self.eat()
            return self.pattern()
        if self.at("ref", "mut"):
            mode = ""
            while self.at("ref", "mut"):
                mode += self.eat()
            return ("pident", self.ident(), mode)
        if self.at("("):
            self.eat()
            ps = []
            while not self.at(")"):
                ps.append(self.pattern())
                if self.at(","):
                    self.eat()
            self.eat(")")
            return ("ptuple", ps)
        if self.kind() == "int":
            return ("plit", self.eat())
        path = [self.ident()]
        while self.at("::"):
            self.eat()
            path.append(self.ident())
        if self.at("("):
            self.eat()
            ps = []
            while not self.at(")"):
                ps.append(self.pattern())
                if self.at(","):
                    self.eat()
            self.eat(")")
            return ("pctor", path, ps)
        if len(path) == 1 and not path[0][0].isupper():
            return ("pident", path[0])
        return ("pctor", path, [])

    # ---- expressions
    BIN = [("||",), ("&&",), ("==", "!=", "<", ">", "<=", ">="), ("|",), ("^",), ("&",), ("<<", ">>"),
           ("+", "-"), ("*", "/", "%")]

    def expr(self, ns=False):
        """ns = no struct literal allowed at this level (condition / scrutinee position)"""
        if self.at("return"):
            self.eat()
            if self.at(";", "}", ","):
                return ("return", None)
            return ("return", self.expr(ns))
        if self.at("continue"):
            self.eat()
            return ("continue",)
        if self.at("break"):
            self.eat()
            return ("break",)
        lhs = self.binary(0, ns)
        if self.at("=", "+=", "-=", "*=", "/=", "%="):
            op = self.eat()
            rhs = self.expr(ns)
            return ("assign", op, lhs, rhs)
        return lhs

    def binary(self, lvl, ns):
        if lvl == len(self.BIN):
            return self.cast(ns)
        e = self.binary(lvl + 1, ns)
        while self.peek() in self.BIN[lvl]:
            op = self.eat()
            r = self.binary(lvl + 1, ns)
            e = ("bin", op, e, r)
        return e

    def cast(self, ns):
        e = self.unary(ns)
        while self.at("as"):
            self.eat()
            ty = self.type_until((";", ",", ")", "}", "{", "]", "=", "==", "!=", "<", ">", "<=", ">=", "&&", "||",
                                  "+", "-", "*", "/", "%", "as", "<<", ">>", "=>"))
            e = ("cast", e, ty)
        return e

    def unary(self, ns):
        if self.at("!"):
            self.eat()
            return ("not", self.unary(ns))
        if self.at("-"):
            self.eat()
            return ("neg", self.unary(ns))
        if self.at("*"):
            self.eat()
            return ("deref", self.unary(ns))
        if self.at("&", "&&"):
            self.eat()
            if self.at("mut"):
                self.eat()
                return ("refmut", self.unary(ns))
            return ("ref", self.unary(ns))
        return self.postfix(ns)

    def args(self):
        self.eat("(")
        out = []
        while not self.at(")"):
            out.append(self.expr())
            if self.at(","):
                self.eat()
        self.eat(")")
        return out

    def postfix(self, ns):
        e = self.primary(ns)
        while True:
            if self.at("."):
                self.eat()
                if self.kind() == "int":
                    e = ("field", e, self.eat())
                    continue
                if self.kind() == "float":  # x.0.1
                    raise Untranslatable("parse: nested tuple field")
                name = self.ident()
                if self.at("::"):
                    self.eat()
                    self.skip_generics()
                if self.at("("):
                    e = ("mcall", e, name, self.args())
                else:
                    e = ("field", e, name)
            elif self.at("["):
                self.eat()
                idx = self.expr()
                self.eat("]")
                e = ("index", e, idx)
            elif self.at("("):
                e = ("call", e, self.args())
            elif self.at("?"):
                raise Untranslatable("parse: `?` operator")
            else:
                return e

    def primary(self, ns):
        k, tok = self.kind(), self.peek()
        if k == "int":
            self.eat()
            return ("int", re.sub(r"(usize|u8|u16|u32|u64|u128|i32|i64|isize)$", "", tok).replace("_", ""))
        if k == "float":
            self.eat()
            return ("float", re.sub(r"(f32|f64)$", "", tok).replace("_", ""))
        if k in ("str", "chr"):
            self.eat()
            return ("str", tok)
        if tok == "(":
            self.eat()
            if self.at(")"):
                self.eat()
                return ("unit",)
            e = self.expr()
            if self.at(","):
                es = [e]
                while self.at(","):
                    self.eat()
                    if self.at(")"):
                        break
                    es.append(self.expr())
                self.eat(")")
                return ("tuple", es)
            self.eat(")")
            return ("paren", e)
        if tok == "{":
            return ("block", self.block())
        if tok == "if":
            self.eat()
            if self.at("let"):
                self.eat()
                pat = self.pattern()
                self.eat("=")
                scrut = self.expr(True)
                then = self.block()
                els = self.else_part()
                return ("iflet", pat, scrut, then, els)
            c = self.expr(True)
            then = self.block()
            els = self.else_part()
            return ("if", c, then, els)
        if tok == "match":
            self.eat()
            scrut = self.expr(True)
            self.eat("{")
            arms = []
            while not self.at("}"):
                pat = self.pattern()
                while self.at("|"):
                    raise Untranslatable("parse: or-pattern")
                guard = None
                if self.at("if"):
                    self.eat()
                    guard = self.expr(True)
                self.eat("=>")
                body = self.expr()
                if self.at(","):
                    self.eat()
                arms.append((pat, guard, body))
            self.eat("}")
            return ("match", scrut, arms)
        if tok == "loop":
            self.eat()
            return ("loop", self.block())
        if tok == "while":
            self.eat()
            c = self.expr(True)
            return ("while", c, self.block())
        if tok == "for":
            self.eat()
            pat = self.pattern()
            self.eat("in")
            it = self.expr(True)
            return ("for", pat, it, self.block())
        if tok in ("|", "||", "move"):
            if tok == "move":
                self.eat()
            params = []
            if self.at("||"):
                self.eat()
            else:
                self.eat("|")
                while not self.at("|"):
                    params.append(self.pattern())
                    if self.at(":"):
                        self.eat()
                        self.type_until((",", "|"))
                    if self.at(","):
                        self.eat()
                self.eat("|")
            return ("closure", params, self.expr())
        if k == "id":
            path = [self.eat()]
            while self.at("::"):
                self.eat()
                if self.at("<"):
                    self.skip_generics()
                    continue
                path.append(self.ident())
            if self.at("!"):
                self.eat()
                close = {"(": ")", "[": "]", "{": "}"}[self.peek()]
                if path == ["vec"]:
                    self.eat()
                    first = self.expr()
                    if self.at(";"):
                        self.eat()
                        n = self.expr()
                        self.eat(close)
                        return ("vecrep", first, n)
                    raise Untranslatable("parse: vec![a, b, ..]")
                self.skip_balanced(self.peek(), close)
                return ("macro", path[-1])
            if self.at("{") and not ns and path[-1][0].isupper():
                self.eat("{")
                fields = []
                while not self.at("}"):
                    if self.at(".."):
                        raise Untranslatable("parse: struct update syntax")
                    f = self.ident()
                    if self.at(":"):
                        self.eat()
                        fields.append((f, self.expr()))
                    else:
                        fields.append((f, ("path", [f])))
                    if self.at(","):
                        self.eat()
                self.eat("}")
                return ("struct", path, fields)
            return ("path", path)
        raise Untranslatable("parse: unexpected token %r" % tok)

    def else_part(self):
        if not self.at("else"):
            return None
        self.eat()
        if self.at("if"):
            return [("expr", self.primary(False), False)]
        return self.block()


def parse_source(path):
    p = Parser(tokenize(open(path).read()))
    fns, consts = p.parse_file()
    return fns, consts, p.structs




# ================================================================ values of the symbolic executor
ATOM = re.compile(r"^(?:[A-Za-z_][A-Za-z0-9_'.]*|\d+|\[\])$")


def balanced_wrap(t, o, c):
    if not (t.startswith(o) and t.endswith(c)):
        return False
    depth = 0
    for i, ch in enumerate(t):
        if ch == o:
            depth += 1
        elif ch == c:
            depth -= 1
            if depth == 0 and i != len(t) - 1:
                return False
    return True


def atomic(t):
    if ATOM.match(t):
        return True
    t = re.sub(r"(\.[A-Za-z_][A-Za-z0-9_']*)+$", "", t)
    return balanced_wrap(t, "(", ")") or balanced_wrap(t, "⟨", "⟩")


def par(t):
    return t if atomic(t) else "(" + t + ")"


def tyapp(f, x):
    return f + " " + (x if re.match(r"^[A-Za-z_][A-Za-z0-9_.]*$", x) else "(" + x + ")")


def lean_ty(t):
    return re.sub(r"\b(Ref|T)\b", "Nat", t)


class Val:
    def __init__(self, term, ty):
        self.term, self.ty = term, ty


class SVal:
    """struct value: field f is over[f] if present, else `base.f`"""
    def __init__(self, sname, base, over=None):
        self.sname, self.base, self.over = sname, base, dict(over or {})


class Alias:
    """a `&mut` reference held in a variable: reads and writes go to the place (cell, path)"""
    def __init__(self, cid, path):
        self.cid, self.path = cid, list(path)


class FVal:
    """f64 as an exact rational num/den (Lean Nat terms)"""
    def __init__(self, num, den):
        self.num, self.den = num, den


class Cond:
    def __init__(self, term, kind, issome=None):
        self.term, self.kind, self.issome = term, kind, issome  # kind: 'prop' | 'bool'

    def prop(self):
        return self.term if self.kind == "prop" else par(self.term) + " = true"

    def boolean(self):
        return self.term if self.kind == "bool" else "decide (" + self.term + ")"


UNMOD = Val(None, "Unmodelled")
UNIT = Val("()", "Unit")


class IteComb:
    def __init__(self, cond):
        self.c = cond

    def mk(self, a, b):
        return "if %s then %s else %s" % (self.c.term, a, b)


class MatchComb:
    def __init__(self, scrut, w):
        self.scrut, self.w = scrut, w

    def mk(self, a, b, multiline=False):
        w = self.w if re.search(r"(?<![A-Za-z0-9_'.])%s(?![A-Za-z0-9_'])" % re.escape(self.w), a) else "_"
        if multiline:
            return "(match %s with\n| some %s =>\n%s\n| none =>\n%s)" % (self.scrut, w, indent(a), indent(b))
        return "(match %s with | some %s => %s | none => %s)" % (self.scrut, w, a, b)


def uses(name, text):
    return re.search(r"(?<![A-Za-z0-9_'.])%s(?![A-Za-z0-9_'])" % re.escape(name), text) is not None


class State:
    def __init__(self):
        self.cells, self.names, self.know, self.order, self.hooks = {}, {}, {}, [], {}

    def copy(self):
        s = State()
        s.cells, s.names, s.know, s.order = dict(self.cells), dict(self.names), dict(self.know), list(self.order)
        s.hooks = dict(self.hooks)
        return s


class Ctx:
    def __init__(self, ret, cont=None):
        self.ret, self.cont = ret, cont


LEAN_KEYWORDS = {"end", "at", "from", "fun", "in", "do", "then", "else", "if", "let", "have", "show", "open",
                 "namespace", "section", "variable", "def", "theorem", "match", "with", "where", "by", "instance",
                 "class", "structure", "import", "export", "mutual", "private", "protected", "local", "macro",
                 "syntax", "notation", "deriving", "extends", "for", "return", "try", "catch", "mut", "break",
                 "continue", "Type", "Prop", "Sort", "using", "calc", "suffices", "obtain", "new", "set", "get"}

# ---------------------------------------------------------------- per-file contexts (trusted field mapping)
CTX_LRU = {
    "ns": "Gen.Lru", "file": "src/util/lru.rs", "tyvars": {"K": "K", "V": "V"},
    "structs": {
        "Lru": {"lean": "_root_.Lru.Tbl K V",
                "fields": [("tbl", "tbl", "List (Option (_root_.Lru.Elem K V))"), ("cap", "cap", "Nat"),
                           ("num_filled", "numFilled", "Nat"), ("stat", None, None)]},
        "Element": {"lean": "_root_.Lru.Elem K V",
                    "fields": [("key", "key", "K"), ("val", "val", "V"), ("hash", "hash", "Nat")]},
    },
    "unmodelled_types": {"ApplyCacheStats"},
    "floatconsts": {"GROW_RATIO"},
}
CTX_RH = {
    "ns": "Gen.RH", "file": "src/backing_store/bump_table.rs", "tyvars": {"T": "T"},
    "structs": {
        "BackedRobinhoodTable": {"lean": "_root_.RH.Tbl",
                                 "fields": [("tbl", "slots", "List _root_.RH.Slot"), ("alloc", "keys", "List T"),
                                            ("cap", "cap", "Nat"), ("len", "len", "Nat"), ("hits", "hits", "Nat")]},
        "HashTableElement": {"lean": "_root_.RH.Slot",
                             "fields": [("ptr", "ptr", "Option Ref"), ("hash", "hash", "Nat"), ("psl", "psl", "Nat")]},
    },
    "unmodelled_types": set(),
    "floatconsts": {"LOAD_FACTOR"},
}


# ================================================================ the symbolic executor
class Exec:
    def __init__(self, ctx, fns, consts, targets, structs=None):
        self.ctx, self.fns, self.consts, self.targets = ctx, fns, consts, targets
        self.structs_decl = structs or {}
        self.nextid = 0
        self.newstate = []

    def opaque(self, what="state"):
        return Val("«%s»" % what, "Opaque")

    @staticmethod
    def is_opaque(v):
        return isinstance(v, Val) and v.ty is not None and "Opaque" in v.ty

    def new_field(self, sname, f):
        """f is declared in the Rust struct but has no counterpart in the model"""
        if f in self.structs_decl.get(sname, []):
            tag = "%s.%s" % (sname, f)
            if tag not in self.newstate:
                self.newstate.append(tag)
            return True
        return False

    # ---------------- names / types
    def fresh(self, base):
        base = re.sub(r"[^A-Za-z0-9_]", "_", base)
        if base in LEAN_KEYWORDS:
            base += "_"
        n, k = base, 0
        while n in self.used:
            k += 1
            n = "%s_%d" % (base, k)
        self.used.add(n)
        return n

    def map_type(self, s):
        toks = []
        for t in s.split():
            if t.startswith("'") or t in ("mut", "dyn"):
                continue
            toks.extend([">", ">"] if t == ">>" else [t])
        pos = [0]

        def ty():
            if pos[0] >= len(toks):
                raise Untranslatable("type %r" % s)
            t = toks[pos[0]]
            pos[0] += 1
            if t == "&":
                inner = ty()
                return "Ref" if inner == "T" else inner
            if t == "[":
                inner = ty()
                if toks[pos[0]] != "]":
                    raise Untranslatable("type %r" % s)
                pos[0] += 1
                return tyapp("List", inner)
            if not re.match(r"[A-Za-z_]", t):
                raise Untranslatable("type %r" % s)
            while pos[0] + 1 < len(toks) and toks[pos[0]] == "::":
                t = toks[pos[0] + 1]
                pos[0] += 2
            args = []
            if pos[0] < len(toks) and toks[pos[0]] == "<":
                pos[0] += 1
                while toks[pos[0]] != ">":
                    if toks[pos[0]] == ",":
                        pos[0] += 1
                        continue
                    args.append(ty())
                pos[0] += 1
            if t in ("usize", "u64", "u8", "u16", "u32", "u128"):
                return "Nat"
            if t == "bool":
                return "Bool"
            if t == "f64":
                return "Float"
            if t in ("Vec",) and len(args) == 1:
                return tyapp("List", args[0])
            if t == "Option" and len(args) == 1:
                return tyapp("Option", args[0])
            if t == "Self":
                return self.ctx["structs"][self.impl]["lean"]
            if t in self.ctx["structs"]:
                return self.ctx["structs"][t]["lean"]
            if t in self.ctx["tyvars"]:
                return self.ctx["tyvars"][t]
            if t in self.ctx["unmodelled_types"]:
                return "Unmodelled"
            if t == "Bump":
                return "List T"
            raise Untranslatable("type %r" % s)

        r = ty()
        if pos[0] != len(toks):
            raise Untranslatable("type %r" % s)
        return r

    def struct_of_lean(self, ty):
        for n, d in self.ctx["structs"].items():
            if d["lean"] == ty:
                return n
        return None

    def wrapty(self, term, ty):
        if ty == "Unmodelled":
            return UNMOD
        sn = self.struct_of_lean(ty)
        return SVal(sn, term) if sn else Val(term, ty)

    def ty_of(self, v):
        if isinstance(v, SVal):
            return self.ctx["structs"][v.sname]["lean"]
        if isinstance(v, Cond):
            return "Bool"
        if isinstance(v, FVal):
            return "Float"
        return v.ty

    # ---------------- struct fields / indexing
    def fields(self, sname):
        return self.ctx["structs"][sname]["fields"]

    def field_get(self, v, f):
        if v is UNMOD:
            return UNMOD
        if self.is_opaque(v):
            return self.opaque()
        if isinstance(v, Val) and v.term is not None and " × " in v.ty and f.isdigit():
            parts = v.ty.split(" × ")
            i = int(f)
            if i < len(parts) and not any("(" in q and " × " in q for q in parts):
                t = parts[i][1:-1] if balanced_wrap(parts[i], "(", ")") else parts[i]
                return self.wrapty(par(v.term) + ".2" * i + (".1" if i < len(parts) - 1 else ""), t)
        if not isinstance(v, SVal):
            raise Untranslatable("field .%s of a non-struct value" % f)
        for rf, lf, ty in self.fields(v.sname):
            if rf == f:
                if lf is None:
                    return UNMOD
                if lf in v.over:
                    return v.over[lf]
                if v.base is None:
                    raise Untranslatable("field %s not initialised" % f)
                return self.wrapty(par(v.base) + "." + lf, ty)
        if self.new_field(v.sname, f):
            return self.opaque(f)
        raise Untranslatable("unknown field %s of %s" % (f, v.sname))

    def field_set(self, v, f, new):
        if v is UNMOD:
            return UNMOD
        if self.is_opaque(v):
            return v
        if not isinstance(v, SVal):
            raise Untranslatable("assignment to field .%s of a non-struct value" % f)
        for rf, lf, ty in self.fields(v.sname):
            if rf == f:
                if lf is None:
                    return v
                if isinstance(new, Cond):
                    new = Val(new.boolean(), "Bool")
                o = dict(v.over)
                o[lf] = new
                return SVal(v.sname, v.base, o)
        if self.new_field(v.sname, f):
            return v
        raise Untranslatable("unknown field %s of %s" % (f, v.sname))

    def elem_ty(self, v):
        m = re.match(r"^List (.*)$", self.ty_of(v))
        if not m:
            raise Untranslatable("indexing a non-list (%s)" % self.ty_of(v))
        t = m.group(1)
        return t[1:-1] if balanced_wrap(t, "(", ")") else t

    def index_get(self, v, i):
        if self.is_opaque(v) or self.is_opaque(i):
            return self.opaque()
        et = self.elem_ty(v)
        l, i = self.pack(v), self.pack(i)
        if et == "_root_.RH.Slot":
            return self.wrapty("_root_.RH.sget %s %s" % (par(l), par(i)), et)
        if et.startswith("Option"):
            return Val("%s.getD %s none" % (par(l), par(i)), et)
        raise Untranslatable("indexing a list of %s" % et)

    def index_set(self, v, i, new):
        if self.is_opaque(v):
            return v
        return Val("%s.set %s %s" % (par(self.pack(v)), par(self.pack(i)), par(self.pack(new))), self.ty_of(v))

    def some_get(self, v, step):
        _, T, w, inner = step
        if isinstance(v, Val) and v.term is not None:
            if v.term == T:
                return self.wrapty(w, inner)
            if v.term.startswith("some "):
                t = v.term[5:]
                return self.wrapty(t[1:-1] if balanced_wrap(t, "(", ")") else t, inner)
        raise Untranslatable("a reference into an Option is used after the Option was reset")

    def get_path(self, v, path):
        for step in path:
            kind, x = step[0], step[1]
            if kind == "s":
                v = self.some_get(v, step)
            else:
                v = self.field_get(v, x) if kind == "f" else self.index_get(v, x)
        return v

    def set_path(self, v, path, new):
        if not path:
            return new
        kind, x = path[0][0], path[0][1]
        if kind == "s":
            inner = self.set_path(self.some_get(v, path[0]), path[1:], new)
            return Val("some " + par(self.pack(inner)), self.ty_of(v))
        if kind == "f":
            sub = self.field_get(v, x)
            if sub is UNMOD:
                return v
            return self.field_set(v, x, self.set_path(sub, path[1:], new))
        return self.index_set(v, x, self.set_path(self.index_get(v, x), path[1:], new))

    # ---------------- packing (value -> Lean term)
    def pack(self, v):
        if isinstance(v, Cond):
            return v.boolean()
        if isinstance(v, FVal):
            raise Untranslatable("a float value is used other than in a comparison")
        if isinstance(v, Val):
            if v.term is None:
                raise Untranslatable("a value that is not modelled (stat / unit) is used")
            return v.term
        flds = [(lf, ty) for rf, lf, ty in self.fields(v.sname) if lf is not None]
        over = {}
        for lf, ty in flds:
            if lf in v.over:
                t = self.pack(v.over[lf])
                if v.base is not None and t == par(v.base) + "." + lf:
                    continue
                over[lf] = t
        if v.base is not None and not over:
            return v.base
        if v.base is not None and len(over) < len(flds):
            return "{ %s with %s }" % (par(v.base), ", ".join("%s := %s" % (lf, over[lf]) for lf, _ in flds if lf in over))
        if len(over) < len(flds):
            raise Untranslatable("struct %s is only partially initialised" % v.sname)
        return "({ %s } : %s)" % (", ".join("%s := %s" % (lf, over[lf]) for lf, _ in flds),
                                  lean_ty(self.ctx["structs"][v.sname]["lean"]))

    # ---------------- merging of two branch results
    def merge(self, comb, a, b):
        if a is b:
            return a
        if isinstance(a, Alias) or isinstance(b, Alias):
            return a
        if a is UNMOD or b is UNMOD:
            return UNMOD
        if a is UNIT or b is UNIT:
            return UNIT
        if isinstance(a, Cond):
            a = Val(a.boolean(), "Bool")
        if isinstance(b, Cond):
            b = Val(b.boolean(), "Bool")
        if isinstance(a, FVal) or isinstance(b, FVal):
            raise Untranslatable("merging float values")
        if isinstance(a, SVal) != isinstance(b, SVal):
            raise Untranslatable("branches give values of different kinds")
        if isinstance(a, SVal):
            if a.sname != b.sname:
                raise Untranslatable("branches give different structs")
            try:
                if self.pack(a) == self.pack(b):
                    return a
            except Untranslatable:
                pass
            if a.base is not None and b.base is not None and not a.over and not b.over:
                return SVal(a.sname, comb.mk(a.base, b.base))
            base = a.base if a.base == b.base else None
            over = {}
            for rf, lf, ty in self.fields(a.sname):
                if lf is None:
                    continue
                m = self.merge(comb, self.field_get(a, rf), self.field_get(b, rf))
                if base is not None and not isinstance(m, SVal) and self.pack(m) == par(base) + "." + lf:
                    continue
                over[lf] = m
            return SVal(a.sname, base, over)
        if a.term == b.term:
            return a if "?" not in a.ty else b
        return Val(comb.mk(a.term, b.term), a.ty if "?" not in a.ty else b.ty)

    def merge_states(self, comb, st, sa, sb):
        for cid in list(st.cells):
            st.cells[cid] = self.merge(comb, sa.cells[cid], sb.cells[cid])

    # ---------------- cells
    def new_cell(self, st, name, v):
        cid = self.nextid
        self.nextid += 1
        st.cells[cid] = v
        st.names[name] = cid
        st.order.append(cid)
        return cid

    def letbind(self, name, v):
        """at depth 0 of a definition, bind a compound value to a Lean `let`"""
        if self.depth != 0:
            return v
        if isinstance(v, Cond):
            v = Val(v.boolean(), "Bool")
        if isinstance(v, Val):
            if v.term is None or atomic(v.term):
                return v
            n = self.fresh(name)
            self.lets.append((n, v.term))
            return Val(n, v.ty)
        if isinstance(v, SVal):
            p = self.pack(v)
            if atomic(p):
                return v
            n = self.fresh(name)
            self.lets.append((n, p))
            return SVal(v.sname, n)
        return v

    # ---------------- expressions
    def cond(self, e, st):
        v = self.ev(e, st)
        if isinstance(v, Cond):
            return v
        if isinstance(v, Val) and v.ty == "Bool" and v.term is not None:
            return Cond(v.term, "bool")
        if self.is_opaque(v):
            return Cond("«state»", "bool")
        raise Untranslatable("condition is not boolean")

    def arena_get(self, v, st):
        if "self" not in st.names:
            raise Untranslatable("dereference of an arena pointer outside a table method")
        arena = self.field_get(st.cells[st.names["self"]], "alloc")
        return Val("%s.getD %s 0" % (par(self.pack(arena)), par(self.pack(v))), "T")

    @staticmethod
    def fmul(a, b):
        if a == "1":
            return b
        if b == "1":
            return a
        return "%s * %s" % (par(a), par(b))

    def ev(self, e, st):
        k = e[0]
        if k == "int":
            return Val(e[1], "Nat")
        if k == "float":
            whole, frac = e[1].split(".")
            if "e" in frac.lower():
                raise Untranslatable("float literal with exponent")
            return FVal(str(int(whole + frac)), str(10 ** len(frac)))
        if k == "unit":
            return UNIT
        if k in ("paren", "ref", "refmut"):
            return self.ev(e[1], st)
        if k == "deref":
            v = self.ev(e[1], st)
            if isinstance(v, Val) and v.ty == "Ref":
                return self.arena_get(v, st)
            return v
        if k == "path":
            return self.ev_path(e[1], st)
        if k == "field":
            return self.field_get(self.ev(e[1], st), e[2])
        if k == "index":
            base = self.ev(e[1], st)
            return self.index_get(base, self.ev(e[2], st))
        if k == "cast":
            v = self.ev(e[1], st)
            ty = e[2].strip()
            if ty in ("f64", "f32"):
                if isinstance(v, FVal):
                    return v
                if isinstance(v, Val) and v.ty == "Nat":
                    return FVal(v.term, "1")
                raise Untranslatable("cast of a non-integer to f64")
            if ty in ("usize", "u64", "u128"):
                if isinstance(v, Val) and v.ty == "Nat":
                    return v
            if ty in ("u8", "u16", "u32") and isinstance(v, Val) and v.ty == "Nat":
                return v  # psl : u8 is Nat in the model (header of Model/RobinHood.lean)
            raise Untranslatable("cast `as %s`" % ty)
        if k == "bin":
            return self.ev_bin(e, st)
        if k == "not":
            c = self.cond(e[1], st)
            if c.kind == "bool":
                return Cond("!" + par(c.term), "bool")
            return Cond("¬ (%s)" % c.term, "prop")
        if k == "struct":
            sname = e[1][-1]
            if sname == "Self":
                sname = self.impl
            if sname in self.ctx["unmodelled_types"]:
                for _, fe in e[2]:
                    self.ev(fe, st)
                return UNMOD
            if sname not in self.ctx["structs"]:
                raise Untranslatable("struct literal %s" % sname)
            over = {}
            known = {rf: (lf, ty) for rf, lf, ty in self.fields(sname)}
            for f, fe in e[2]:
                if f not in known:
                    if self.new_field(sname, f):
                        self.ev(fe, st)
                        continue
                    raise Untranslatable("unknown field %s of %s" % (f, sname))
                v = self.ev(fe, st)
                if known[f][0] is not None:
                    if isinstance(v, Cond):
                        v = Val(v.boolean(), "Bool")
                    over[known[f][0]] = v
            return SVal(sname, None, over)
        if k == "vecrep":
            x = self.ev(e[1], st)
            n = self.ev(e[2], st)
            xt = self.ty_of(x)
            return Val("List.replicate %s %s" % (par(self.pack(n)), par(self.pack(x))), tyapp("List", xt))
        if k == "call":
            return self.ev_call(e, st)
        if k == "mcall":
            return self.ev_mcall(e, st)
        if k == "assign":
            self.do_assign(e, st)
            return UNIT
        if k == "if":
            return self.ev_if(e, st)
        if k == "iflet":
            return self.ev_match(("match", e[2], [(e[1], None, ("block", e[3])),
                                                   (("pwild",), None, ("block", e[4] or []))]), st)
        if k == "match":
            return self.ev_match(e, st)
        if k == "block":
            return self.run_block(e[1], st)
        if k == "for":
            return self.run_for(e, st)
        if k == "while":
            return self.run_while(e, st)
        if k == "tuple":
            vs = [self.ev(x, st) for x in e[1]]
            if any(self.is_opaque(v) for v in vs):
                return self.opaque()
            return Val("(" + ", ".join(self.pack(v) for v in vs) + ")", " × ".join(
                t if re.match(r"^[A-Za-z_.]+$", t) else "(" + t + ")" for t in (self.ty_of(v) for v in vs)))
        if k == "macro":
            if e[1] in ("println", "print", "eprintln", "eprint", "dbg"):
                return UNIT
            raise Untranslatable("macro %s!" % e[1])
        raise Untranslatable("`%s` in expression position" % k)

    def ev_path(self, path, st):
        if len(path) == 1:
            n = path[0]
            if n in st.names:
                v = st.cells[st.names[n]]
                if isinstance(v, Alias):
                    return self.get_path(st.cells[v.cid], v.path)
                return v
            if n == "None":
                return Val("none", "Option ?")
            if n in self.ctx["floatconsts"] and n in self.consts:
                self.uses_float = True
                if not self.cfg.get("float"):
                    raise Untranslatable("float constant %s used in a function without a ratio parameter" % n)
                return FVal("num", "den")
            if n in self.consts:
                return self.ev(self.consts[n][1], State())
            raise Untranslatable("unknown name %s" % n)
        raise Untranslatable("path %s as a value" % "::".join(path))

    def ev_bin(self, e, st):
        op = e[1]
        if op in ("&&", "||"):
            a, b = self.cond(e[2], st), self.cond(e[3], st)
            if a.kind == "bool" and b.kind == "bool":
                return Cond("%s %s %s" % (par(a.term), op, par(b.term)), "bool")
            return Cond("(%s) %s (%s)" % (a.prop(), "∧" if op == "&&" else "∨", b.prop()), "prop")
        a, b = self.ev(e[2], st), self.ev(e[3], st)
        if self.is_opaque(a) or self.is_opaque(b):
            if op in ("==", "!=", "<", ">", "<=", ">="):
                return Cond("«state»", "bool")
            return self.opaque()
        if isinstance(a, FVal) or isinstance(b, FVal):
            if not (isinstance(a, FVal) and isinstance(b, FVal)):
                raise Untranslatable("mixed float / integer arithmetic")
            if op == "*":
                return FVal(self.fmul(a.num, b.num), self.fmul(a.den, b.den))
            if op == "/":
                return FVal(self.fmul(a.num, b.den), self.fmul(a.den, b.num))
            rel = {"<": "<", ">": ">", "<=": "≤", ">=": "≥"}.get(op)
            if rel:
                return Cond("%s %s %s" % (self.fmul(a.num, b.den), rel, self.fmul(a.den, b.num)), "prop")
            raise Untranslatable("float operator %s" % op)
        if isinstance(a, Cond):
            a = Val(a.boolean(), "Bool")
        if isinstance(b, Cond):
            b = Val(b.boolean(), "Bool")
        ta, tb = self.pack(a), self.pack(b)
        if op in ("==", "!="):
            for v in (a, b):
                t = self.ty_of(v)
                for tv in ("K", "V"):
                    if re.search(r"\b%s\b" % tv, t) and tv in self.ctx["tyvars"]:
                        self.deceq.add(tv)
            return Cond("%s %s %s" % (par(ta), "=" if op == "==" else "≠", par(tb)), "prop")
        rel = {"<": "<", ">": ">", "<=": "≤", ">=": "≥"}.get(op)
        if rel:
            return Cond("%s %s %s" % (par(ta), rel, par(tb)), "prop")
        if not (isinstance(a, Val) and isinstance(b, Val) and a.ty == "Nat" and b.ty == "Nat"):
            raise Untranslatable("arithmetic on non-integers")
        if op in ("+", "-", "*", "/", "%"):
            return Val("%s %s %s" % (par(ta), op, par(tb)), "Nat")
        if op == "<<":
            return Val("2 ^ %s" % par(tb) if ta == "1" else "%s * 2 ^ %s" % (par(ta), par(tb)), "Nat")
        if op == ">>":
            return Val("%s / 2 ^ %s" % (par(ta), par(tb)), "Nat")
        if op in ("^", "&", "|"):
            return Val("%s %s %s" % (par(ta), {"^": "^^^", "&": "&&&", "|": "|||"}[op], par(tb)), "Nat")
        raise Untranslatable("operator %s" % op)

    def place(self, e, st):
        k = e[0]
        if k == "path" and len(e[1]) == 1:
            if e[1][0] not in st.names:
                raise Untranslatable("assignment to unknown name %s" % e[1][0])
            v = st.cells[st.names[e[1][0]]]
            if isinstance(v, Alias):
                return v.cid, list(v.path)
            return st.names[e[1][0]], []
        if k == "field":
            cid, p = self.place(e[1], st)
            return cid, p + [("f", e[2])]
        if k == "index":
            cid, p = self.place(e[1], st)
            return cid, p + [("i", self.ev(e[2], st))]
        if k in ("paren", "ref", "refmut", "deref"):
            return self.place(e[1], st)
        raise Untranslatable("`%s` is not a place" % k)

    def write(self, st, cid, path, new):
        if isinstance(new, Cond):
            new = Val(new.boolean(), "Bool")
        st.cells[cid] = self.set_path(st.cells[cid], path, new)
        if cid in st.hooks:
            # a pattern variable bound by `ref mut` / through `as_mut()`: write through to the matched place
            tcid, tpath = st.hooks[cid]
            local = st.cells[cid]
            if any(step[0] == "s" for step in tpath[:-1]):
                raise Untranslatable("mutable reference through nested options")
            if tpath and tpath[-1][0] == "s":
                self.write(st, tcid, tpath[:-1],
                           Val("some " + par(self.pack(local)), tyapp("Option", self.ty_of(local))))
            else:
                self.write(st, tcid, tpath, local)

    def do_assign(self, e, st):
        op, lhs, rhs = e[1], e[2], e[3]
        cid, path = self.place(lhs, st)
        if op == "=":
            self.write(st, cid, path, self.ev(rhs, st))
            return
        cur = self.get_path(st.cells[cid], path)
        r = self.ev(rhs, st)
        if cur is UNMOD:
            return
        if not (isinstance(cur, Val) and cur.ty == "Nat" and isinstance(r, Val) and r.ty == "Nat"):
            raise Untranslatable("compound assignment on non-integers")
        self.write(st, cid, path, Val("%s %s %s" % (par(cur.term), op[0], par(r.term)), "Nat"))

    # ---------------- calls
    def ev_call(self, e, st):
        fn, args = e[1], e[2]
        if fn[0] != "path":
            raise Untranslatable("call of a computed function")
        path = fn[1]
        if path == ["Some"] and len(args) == 1:
            v = self.ev(args[0], st)
            return Val("some " + par(self.pack(v)), tyapp("Option", self.ty_of(v)))
        if path[-2:] == ["mem", "replace"] and len(args) == 2:
            cid, p = self.place(args[0], st)
            old = self.get_path(st.cells[cid], p)
            self.write(st, cid, p, self.ev(args[1], st))
            return old
        if path[-2:] == ["mem", "swap"] and len(args) == 2:
            c1, p1 = self.place(args[0], st)
            c2, p2 = self.place(args[1], st)
            v1, v2 = self.get_path(st.cells[c1], p1), self.get_path(st.cells[c2], p2)
            self.write(st, c1, p1, v2)
            self.write(st, c2, p2, v1)
            return UNIT
        if path == ["Bump", "new"] and not args:
            return Val("[]", "List T")
        if len(path) == 1:
            key = (None, path[0])
        elif len(path) == 2:
            ty = self.impl if path[0] == "Self" else path[0]
            if ty in self.ctx["unmodelled_types"]:
                return UNMOD
            key = (ty, path[1])
        else:
            raise Untranslatable("call of %s" % "::".join(path))
        if key not in self.fns:
            raise Untranslatable("call of unknown function %s" % "::".join(path))
        return self.call_user(key, None, args, st)

    def closure_term(self, cl, argty, st, want):
        """Lean `fun x => body` of a one-parameter closure; want = 'bool' | 'value'; returns (term, type)"""
        if cl[0] != "closure" or len(cl[1]) != 1:
            raise Untranslatable("expected a one-parameter closure")
        pat = cl[1][0]
        x = self.fresh(pat[1] if pat[0] == "pident" else "x")
        saved = dict(st.names)
        s = st.copy()
        if pat[0] == "pident":
            self.new_cell(s, pat[1], self.wrapty(x, argty))
        self.depth += 1
        try:
            if want == "bool":
                body, ty = self.cond(cl[2], s).boolean(), "Bool"
            else:
                v = self.ev(cl[2], s)
                body, ty = self.pack(v), self.ty_of(v)
        finally:
            self.depth -= 1
        for cid in st.cells:
            if s.cells[cid] is not st.cells[cid]:
                raise Untranslatable("closure with side effects")
        st.names = saved
        return "fun %s => %s" % (x, body), ty

    def ev_mcall(self, e, st):
        recv, name, args = e[1], e[2], e[3]
        if recv[0] in ("path", "field", "index", "paren", "ref", "refmut", "deref"):
            try:
                v0 = self.ev(recv, st)
            except Untranslatable:
                v0 = None
            if v0 is not None and self.is_opaque(v0):
                for a in args:
                    if a[0] != "closure":
                        self.ev(a, st)
                return self.opaque()
        if name in self.cfg.get("open", {}):
            cid, p = self.place(recv, st)
            cur = self.get_path(st.cells[cid], p)
            if isinstance(cur, SVal) and cur.sname == self.impl_top:
                argv = [par(self.pack(self.ev(a, st))) for a in args]
                term = " ".join([self.cfg["open"][name][0], par(self.pack(cur))] + argv)
                self.write(st, cid, p, SVal(cur.sname, term))
                return UNIT
        if name in ("clone", "as_ref", "as_mut", "iter", "iter_mut", "borrow", "borrow_mut", "to_owned", "copied",
                    "cloned") and not args:
            return self.ev(recv, st)
        if name == "replace" and len(args) == 1:
            cid, p = self.place(recv, st)
            old = self.get_path(st.cells[cid], p)
            if not self.ty_of(old).startswith("Option"):
                raise Untranslatable(".replace on a non-option")
            new = self.ev(args[0], st)
            self.write(st, cid, p, Val("some " + par(self.pack(new)), self.ty_of(old)))
            return old
        if name == "take" and not args:
            cid, p = self.place(recv, st)
            old = self.get_path(st.cells[cid], p)
            if not self.ty_of(old).startswith("Option"):
                raise Untranslatable(".take on a non-option")
            self.write(st, cid, p, Val("none", self.ty_of(old)))
            return old
        if name in ("insert", "get_or_insert") and len(args) == 1 and recv[0] in ("path", "field", "index"):
            try:
                cid, p = self.place(recv, st)
                old = self.get_path(st.cells[cid], p)
            except Untranslatable:
                old = None
            if old is not None and isinstance(old, Val) and old.ty.startswith("Option") and name == "insert":
                new = self.ev(args[0], st)
                self.write(st, cid, p, Val("some " + par(self.pack(new)), old.ty))
                return new
        if name == "push" and len(args) == 1:
            cid, p = self.place(recv, st)
            cur = self.get_path(st.cells[cid], p)
            if not self.ty_of(cur).startswith("List"):
                raise Untranslatable(".push on a non-vector")
            x = self.ev(args[0], st)
            self.write(st, cid, p, Val("%s ++ [%s]" % (par(self.pack(cur)), self.pack(x)), self.ty_of(cur)))
            return UNIT
        if name == "alloc" and len(args) == 1:
            cid, p = self.place(recv, st)
            arena = self.get_path(st.cells[cid], p)
            if self.ty_of(arena) != "List T":
                raise Untranslatable(".alloc on something that is not the arena")
            x = self.ev(args[0], st)
            a = self.pack(arena)
            self.write(st, cid, p, Val("%s ++ [%s]" % (par(a), self.pack(x)), "List T"))
            return Val(par(a) + ".length", "Ref")
        v = self.ev(recv, st)
        if isinstance(v, SVal):
            key = (v.sname, name)
            if key in self.fns:
                return self.call_user(key, recv, args, st)
            raise Untranslatable("method %s::%s" % key)
        if self.is_opaque(v):
            for a in args:
                if a[0] != "closure":
                    self.ev(a, st)
            return self.opaque()
        if isinstance(v, (FVal, Cond)) or v.term is None:
            raise Untranslatable("method .%s() on a float / boolean / unmodelled value" % name)
        t, ty = v.term, v.ty
        if ty.startswith("Option"):
            inner = ty[len("Option "):]
            inner = inner[1:-1] if balanced_wrap(inner, "(", ")") else inner
            if name in ("unwrap", "expect"):
                if t in st.know:
                    return self.wrapty(st.know[t], inner)
                raise Untranslatable(".unwrap() of a value not known to be Some on this path")
            if name == "is_some" and not args:
                return Cond(par(t) + ".isSome", "bool", issome=t)
            if name == "is_none" and not args:
                return Cond(par(t) + ".isNone", "bool")
            if name == "filter" and len(args) == 1:
                f, _ = self.closure_term(args[0], inner, st, "bool")
                return Val("Option.filter (%s) %s" % (f, par(t)), ty)
            if name == "map" and len(args) == 1:
                f, rty = self.closure_term(args[0], inner, st, "value")
                return Val("Option.map (%s) %s" % (f, par(t)), tyapp("Option", rty))
        if ty.startswith("Option"):
            if name == "unwrap_or" and len(args) == 1:
                d = self.ev(args[0], st)
                return self.wrapty("Option.getD %s %s" % (par(t), par(self.pack(d))), inner)
            if name == "map_or" and len(args) == 2:
                d = self.ev(args[0], st)
                f, rty = self.closure_term(args[1], inner, st, "value")
                return self.wrapty("Option.getD (Option.map (%s) %s) %s" % (f, par(t), par(self.pack(d))), rty)
            if name == "is_some_and" and len(args) == 1:
                f, _ = self.closure_term(args[0], inner, st, "bool")
                return Cond("Option.any (%s) %s" % (f, par(t)), "bool")
            if name == "and_then" and len(args) == 1:
                f, rty = self.closure_term(args[0], inner, st, "value")
                return Val("Option.bind %s (%s)" % (par(t), f), rty)
            if name == "or" and len(args) == 1:
                o = self.ev(args[0], st)
                return Val("Option.or %s %s" % (par(t), par(self.pack(o))), ty)
        if ty.startswith("List"):
            if name == "get" and len(args) == 1:
                i = self.ev(args[0], st)
                return Val("%s[%s]?" % (par(t), self.pack(i)), tyapp("Option", self.elem_ty(v)))
            if name == "is_empty" and not args:
                return Cond(par(t) + ".isEmpty", "bool")
            if name in ("first", "last") and not args:
                return Val("%s.%s" % (par(t), "head?" if name == "first" else "getLast?"), tyapp("Option", self.elem_ty(v)))
        if ty == "Nat" and len(args) == 1 and name in ("min", "max", "saturating_sub", "pow", "wrapping_add",
                                                       "wrapping_sub", "abs_diff"):
            if name.startswith("wrapping"):
                raise Untranslatable("wrapping arithmetic")
            o = self.pack(self.ev(args[0], st))
            if name == "abs_diff":
                return Val("(%s - %s) + (%s - %s)" % (par(t), par(o), par(o), par(t)), "Nat")
            fmt = {"min": "Nat.min %s %s", "max": "Nat.max %s %s", "saturating_sub": "%s - %s", "pow": "%s ^ %s"}[name]
            return Val(fmt % (par(t), par(o)), "Nat")
        if ty == "Nat" and name == "next_power_of_two" and not args:
            return Val("_root_.RH.nextPow2 " + par(t), "Nat")
        if ty.startswith("List") and name == "len" and not args:
            return Val(par(t) + ".length", "Nat")
        raise Untranslatable("method .%s() on %s" % (name, ty))

    def call_user(self, key, recv, args, st):
        if key in self.targets and key != self.key:
            return self.call_target(key, recv, args, st)
        if key == self.key or self.inline_depth > 6:
            raise Untranslatable("recursive call of %s" % key[1])
        fn = self.fns[key]
        if has_div(fn["body"][:-1]) or (fn["body"] and fn["body"][-1][0] == "expr" and has_div(strip_return(fn["body"][-1]))):
            raise Untranslatable("helper %s has early returns / loops" % key[1])
        params = [p for p in fn["params"] if p[0] != "self"]
        if len(params) != len(args):
            raise Untranslatable("arity of %s" % key[1])
        argv = []
        for (pn, kind, ty), a in zip(params, args):
            argv.append((pn, kind, self.place(a, st) if kind == "refmut" else None, self.ev(a, st)))
        selfp = [p for p in fn["params"] if p[0] == "self"]
        selfplace, selfval = None, None
        if selfp:
            if recv is None:
                raise Untranslatable("method %s called without receiver" % key[1])
            if selfp[0][1] == "selfmut":
                selfplace = self.place(recv, st)
                selfval = self.get_path(st.cells[selfplace[0]], selfplace[1])
            else:
                selfval = self.ev(recv, st)
        saved_names, saved_impl = st.names, self.impl
        st.names = {}
        self.impl = fn["impl"]
        self.inline_depth += 1
        try:
            writeback = []
            if selfp:
                if selfplace is not None and not selfplace[1]:
                    st.names["self"] = selfplace[0]
                else:
                    cid = self.new_cell(st, "self", selfval)
                    if selfplace is not None:
                        writeback.append((cid, selfplace))
            for pn, kind, pl, v in argv:
                cid = self.new_cell(st, pn, v)
                if pl is not None:
                    writeback.append((cid, pl))
            body = fn["body"]
            if body and body[-1][0] == "expr" and body[-1][1][0] == "return":
                body = body[:-1] + [("expr", body[-1][1][1] or ("unit",), False)]
            res = self.run_block(body, st)
            for cid, (tc, tp) in writeback:
                self.write(st, tc, tp, st.cells[cid])
        finally:
            st.names, self.impl = saved_names, saved_impl
            self.inline_depth -= 1
        return res

    def extras_of(self, cfg):
        ex = []
        if cfg.get("float"):
            ex += ["num", "den"]
        if cfg.get("extra"):
            ex += ["extra"]
        return ex

    def call_target(self, key, recv, args, st):
        tcfg, fn = self.targets[key], self.fns[key]
        for x in self.extras_of(tcfg):
            if x not in self.extras_of(self.cfg):
                raise Untranslatable("call of %s needs the parameter %s" % (key[1], x))
        if tcfg.get("open"):
            raise Untranslatable("call of the open-recursive %s" % key[1])
        params = [p for p in fn["params"] if p[0] != "self"]
        if len(params) != len(args):
            raise Untranslatable("arity of %s" % key[1])
        terms, outs = [], []
        selfp = [p for p in fn["params"] if p[0] == "self"]
        if selfp:
            if recv is None:
                raise Untranslatable("method %s called without receiver" % key[1])
            if selfp[0][1] == "selfmut":
                pl = self.place(recv, st)
                cur = self.get_path(st.cells[pl[0]], pl[1])
                outs.append((pl, self.ty_of(cur)))
                terms.append(par(self.pack(cur)))
            else:
                terms.append(par(self.pack(self.ev(recv, st))))
        capterm = None
        for (pn, kind, ty), a in zip(params, args):
            if kind == "refmut":
                pl = self.place(a, st)
                cur = self.get_path(st.cells[pl[0]], pl[1])
                outs.append((pl, self.ty_of(cur)))
                terms.append(par(self.pack(cur)))
            else:
                terms.append(par(self.pack(self.ev(a, st))))
            if pn == "cap":
                capterm = terms[-1]
        pre = list(self.extras_of(tcfg))
        if tcfg.get("fuel") == "param":
            if capterm is None or "extra" not in self.extras_of(self.cfg):
                raise Untranslatable("no fuel for the call of %s" % key[1])
            pre.append("(%s + 1 + extra)" % capterm)
        call = " ".join([self.ctx["ns"] + "." + tcfg["lean"]] + pre + terms)
        saved_impl, self.impl = self.impl, fn["impl"]
        try:
            rty = self.map_type(fn["ret"]) if fn["ret"] else None
        finally:
            self.impl = saved_impl
        n = len(outs) + (1 if rty else 0)
        if n == 0:
            return UNIT
        comps = [call] if n == 1 else [("(%s)" % call) + ".2" * i + (".1" if i < n - 1 else "") for i in range(n)]
        for (pl, ty), c in zip(outs, comps):
            self.write(st, pl[0], pl[1], self.wrapty(c, ty))
        return self.wrapty(comps[-1], rty) if rty else UNIT

    # ---------------- branching (direct style: no return / continue inside)
    def ev_if(self, e, st):
        c = self.cond(e[1], st)
        sa, sb = st.copy(), st.copy()
        w = None
        if c.issome:
            w = self.fresh("w")
            sa.know[c.issome] = w
        self.depth += 1
        try:
            va = self.run_block(e[2], sa)
            vb = self.run_block(e[3], sb) if e[3] else UNIT
        finally:
            self.depth -= 1
        comb = BranchComb(c, w)
        self.merge_states(comb, st, sa, sb)
        return self.merge(comb, va, vb)

    # ---------------- pattern matching (decision tree over Option / tuple patterns)
    def scrutinee(self, e, st):
        """value(s) of a match scrutinee, the place it denotes (if any) and whether it is borrowed mutably"""
        if e[0] == "tuple":
            out = []
            for x in e[1]:
                out.extend(self.scrutinee(x, st))
            return out
        mutable, core = False, e
        while True:
            if core[0] in ("paren", "ref"):
                core = core[1]
            elif core[0] == "refmut":
                mutable, core = True, core[1]
            elif core[0] == "mcall" and core[2] in ("as_mut", "as_deref_mut") and not core[3]:
                mutable, core = True, core[1]
            elif core[0] == "mcall" and core[2] in ("as_ref", "as_deref") and not core[3]:
                core = core[1]
            else:
                break
        pl = None
        if core[0] in ("path", "field", "index"):
            try:
                pl = self.place(core, st)
            except Untranslatable:
                pl = None
        v = self.ev(e, st)
        if isinstance(v, Cond):
            v = Val(v.boolean(), "Bool")
        return [(v, pl, mutable)]

    @staticmethod
    def refutable(p):
        return p[0] in ("pctor", "plit")

    def match_tree(self, rows, st, leaf, combine):
        """rows: [(obligations [(pattern, value, place, mutable)], guard, body)]"""
        if not rows:
            raise Untranslatable("match is not exhaustive for the translator")
        if any(self.is_opaque(v) for obl, _, _ in rows for _, v, _, _ in obl):
            # the scrutinee is state the model does not have: every arm is possible
            def idents(p):
                if p[0] == "pident":
                    return [p[1]]
                if p[0] == "pctor":
                    return [x for q in p[2] for x in idents(q)]
                if p[0] == "ptuple":
                    return [x for q in p[1] for x in idents(q)]
                return []
            res = None
            for obl, guard, body in reversed(rows):
                s1 = st.copy()
                for p, v, pl, mu in obl:
                    for n in idents(p):
                        self.new_cell(s1, n, self.opaque())
                if guard is not None:
                    self.cond(guard, s1)
                r = leaf(body, s1, st.names)
                res = r if res is None else combine(BranchComb(Cond("«state»", "bool"), None), r, res, st)
            return res
        obl, guard, body = rows[0]
        pick = None
        for p, v, pl, mu in obl:
            if p[0] == "ptuple":
                raise Untranslatable("tuple pattern on a non-tuple scrutinee")
            if self.refutable(p):
                pick = (p, v, pl, mu)
                break
        if pick is None:
            s1 = st.copy()
            for p, v, pl, mu in obl:
                if p[0] == "pident":
                    mode = p[2] if len(p) > 2 else ""
                    cid = self.new_cell(s1, p[1], v)
                    if pl is not None and (mu or mode == "refmut") and mode != "mut":
                        s1.hooks[cid] = (pl[0], list(pl[1]))
            if guard is None:
                return leaf(body, s1, st.names)
            c = self.cond(guard, s1)
            r1 = leaf(body, s1, st.names)
            r2 = self.match_tree(rows[1:], st.copy(), leaf, combine)
            return combine(BranchComb(c, None), r1, r2, st)
        p, v, pl, mu = pick
        if p[0] == "plit":
            raise Untranslatable("literal pattern")
        if self.is_opaque(v) and not v.ty.startswith("Option"):
            v = Val(v.term, "Option Opaque")
        if isinstance(v, (SVal, FVal)) or v.term is None or not v.ty.startswith("Option"):
            raise Untranslatable("constructor pattern on something that is not an Option")
        T = v.term
        inner = v.ty[len("Option "):]
        inner = inner[1:-1] if balanced_wrap(inner, "(", ")") else inner
        wname = "w"
        if p[1] == ["Some"] and len(p[2]) == 1 and p[2][0][0] == "pident":
            wname = p[2][0][1].lstrip("_") or "w"
        w = self.fresh(wname)
        wv = self.wrapty(w, inner)
        wpl = (pl[0], pl[1] + [("s", T, w, inner)]) if pl is not None else None

        def same(v2):
            return isinstance(v2, Val) and v2.term == T

        def specialise(ctor):
            out = []
            for obl2, g2, b2 in rows:
                new, keep = [], True
                for (p2, v2, pl2, mu2) in obl2:
                    if not (same(v2) and p2[0] == "pctor"):
                        new.append((p2, v2, pl2, mu2))
                        continue
                    if p2[1] == ["Some"] and len(p2[2]) == 1:
                        if ctor != "some":
                            keep = False
                            break
                        new.append((p2[2][0], wv, wpl, mu2))
                    elif p2[1] == ["None"] and not p2[2]:
                        if ctor != "none":
                            keep = False
                            break
                    else:
                        raise Untranslatable("pattern %s" % "::".join(p2[1]))
                if keep:
                    out.append((new, g2, b2))
            return out
        sS = st.copy()
        sS.know[T] = w
        rS = self.match_tree(specialise("some"), sS, leaf, combine)
        rN = self.match_tree(specialise("none"), st.copy(), leaf, combine)
        return combine(MatchComb(T, w), rS, rN, st)

    def match_rows(self, e, st):
        scr = self.scrutinee(e[1], st)
        rows = []
        for pat, guard, body in e[2]:
            if e[1][0] == "tuple":
                if pat[0] == "ptuple" and len(pat[1]) == len(scr):
                    pats = pat[1]
                elif pat[0] == "pwild":
                    pats = [("pwild",)] * len(scr)
                else:
                    raise Untranslatable("pattern for a tuple scrutinee")
            else:
                pats = [pat]
            rows.append(([(p, v, pl, mu) for p, (v, pl, mu) in zip(pats, scr)], guard, body))
        return rows

    def ev_match(self, e, st):
        rows = self.match_rows(e, st)

        def leaf(body, s, names):
            v = self.ev(body, s)
            s.names = dict(names)
            return s, v

        def combine(comb, r1, r2, base):
            m = base.copy()
            self.merge_states(comb, m, r1[0], r2[0])
            return m, self.merge(comb, r1[1], r2[1])
        self.depth += 1
        try:
            sm, vm = self.match_tree(rows, st, leaf, combine)
        finally:
            self.depth -= 1
        for cid in list(st.cells):
            st.cells[cid] = sm.cells[cid]
        return vm

    def exec_match(self, e, st, ctx, kk):
        """`match` / `if let` with return / continue inside an arm (continuation passing)"""
        rows = self.match_rows(e, st)

        def leaf(body, s, names):
            def k2(s2, v):
                s2.names = dict(names)
                return kk(s2, v)
            if has_div(body):
                return self.exec_expr(body, s, ctx, k2)
            return k2(s, self.ev(body, s))

        def combine(comb, r1, r2, base):
            return comb.mk(r1, r2, True)
        self.depth += 1
        try:
            return self.match_tree(rows, st, leaf, combine)
        finally:
            self.depth -= 1

    # ---------------- statements (direct style)
    def normalise(self, st):
        """at depth 0: bind whole-struct values with a compound base (result of a merge / fold / call) to a let"""
        if self.depth != 0 or self.inline_depth != 0:
            return
        rev = {cid: n for n, cid in st.names.items()}
        for cid in list(rev):
            v = st.cells[cid]
            if isinstance(v, SVal) and v.base is not None and not v.over and not atomic(v.base):
                st.cells[cid] = self.letbind(rev.get(cid, "x"), v)

    def run_stmt(self, s, st):
        if s[0] == "let":
            pat, ty, init = s[1], s[2], s[3]
            if init is None:
                raise Untranslatable("let without initialiser")
            if init[0] == "refmut" and pat[0] == "pident":
                cid, path = self.place(init[1], st)
                self.new_cell(st, pat[1], Alias(cid, path))
                return UNIT
            v = self.ev(init, st)
            if isinstance(v, Cond):
                v = Val(v.boolean(), "Bool")
            if ty is not None and isinstance(v, Val) and v.term is not None:
                dt = self.map_type(ty)
                if dt == "Ref" or "?" in v.ty:
                    v = Val(v.term, dt)
            if pat[0] == "pwild":
                return UNIT
            if pat[0] != "pident":
                raise Untranslatable("let with a destructuring pattern")
            self.new_cell(st, pat[1], self.letbind(pat[1], v))
            return UNIT
        v = self.ev(s[1], st)
        return UNIT if s[2] else v

    def run_block(self, stmts, st):
        saved = dict(st.names)
        last = UNIT
        for s in stmts:
            last = self.run_stmt(s, st)
            self.normalise(st)
        st.names = saved
        return last

    def run_for(self, e, st):
        pat, it, body = e[1], e[2], e[3]
        if has_div(body):
            raise Untranslatable("return / continue / loop inside a for loop")
        if pat[0] not in ("pident", "pwild"):
            raise Untranslatable("for with a destructuring pattern")
        steps = []
        while it[0] == "mcall" and it[2] in ("filter", "flatten", "iter", "iter_mut", "into_iter", "clone", "as_ref"):
            if it[2] == "filter":
                steps.append(("filter", it[3][0]))
            elif it[2] == "flatten":
                steps.append(("flatten",))
            it = it[1]
        steps.reverse()
        lst = self.ev(it, st)
        L, et = self.pack(lst), self.elem_ty(lst)
        used0 = set(self.used)
        x = self.fresh(pat[1] if pat[0] == "pident" else "x")

        def run_body(s):
            cur, wrappers = self.wrapty(x, et), []
            self.depth += 1
            try:
                for step in steps:
                    if step[0] == "filter":
                        cl = step[1]
                        if cl[0] != "closure" or len(cl[1]) != 1 or cl[1][0][0] != "pident":
                            raise Untranslatable("filter argument is not a simple closure")
                        saved = dict(s.names)
                        self.new_cell(s, cl[1][0][1], cur)
                        c = self.cond(cl[2], s)
                        s.names = saved
                        w = None
                        if c.issome:
                            w = self.fresh("w")
                            s.know[c.issome] = w
                        wrappers.append(BranchComb(c, w))
                    else:
                        ct = self.ty_of(cur)
                        if not ct.startswith("Option"):
                            raise Untranslatable(".flatten() over non-options")
                        inner = ct[len("Option "):]
                        inner = inner[1:-1] if balanced_wrap(inner, "(", ")") else inner
                        w = self.fresh(pat[1] if pat[0] == "pident" else "y")
                        wrappers.append(MatchComb(self.pack(cur), w))
                        cur = self.wrapty(w, inner)
                saved = dict(s.names)
                if pat[0] == "pident":
                    self.new_cell(s, pat[1], cur)
                self.run_block(body, s)
                s.names = saved
            finally:
                self.depth -= 1
            return wrappers

        def slots(s):
            out = []
            for cid in st.cells:
                v = s.cells[cid]
                if isinstance(v, Alias):
                    continue
                if cid == self.selfcell and isinstance(v, SVal):
                    for rf, lf, ty in self.fields(v.sname):
                        if lf is not None:
                            out.append(((cid, rf), self.field_get(v, rf), lf))
                else:
                    rev = [n for n, c in st.names.items() if c == cid]
                    out.append(((cid, None), v, rev[0] if rev else "acc"))
            return out

        def same(a, b):
            if a is b:
                return True
            try:
                return self.pack(a) == self.pack(b)
            except Untranslatable:
                return a is UNMOD and b is UNMOD
        aux0, nw0 = len(self.aux), getattr(self, "nwhile", 0)
        s1 = st.copy()
        run_body(s1)
        del self.aux[aux0:]
        self.nwhile = nw0
        changed = [(k, v0, nm) for (k, v0, nm), (_, v1, _) in zip(slots(st), slots(s1)) if not same(v0, v1)]
        self.used = set(used0) | {x}
        if not changed:
            return UNIT
        if len(changed) != 1:
            raise Untranslatable("for loop updating several variables")
        (cid, rf), v0, nm = changed[0]
        acc = self.fresh(nm if nm != x else "acc")
        accty = self.ty_of(v0)
        s2 = st.copy()
        sym = self.wrapty(acc, accty)
        s2.cells[cid] = sym if rf is None else self.field_set(s2.cells[cid], rf, sym)
        wrappers = run_body(s2)
        if [k for (k, a, _), (_, b, _) in zip(slots(st), slots(s2)) if k != (cid, rf) and not same(a, b)]:
            raise Untranslatable("for loop updating several variables")
        newv = s2.cells[cid] if rf is None else self.field_get(s2.cells[cid], rf)
        new = self.pack(newv)
        for wr in reversed(wrappers):
            new = wr.mk(new, acc)
        term = "%s.foldl (fun (%s : %s) (%s : %s) => %s) %s" % (
            par(L), acc, lean_ty(accty), x, lean_ty(et), new, par(self.pack(v0)))
        res = self.wrapty(term, accty)
        st.cells[cid] = res if rf is None else self.field_set(st.cells[cid], rf, res)
        return UNIT

    # ---------------- statements with return / continue / loop inside (continuation passing)
    def exec_seq(self, stmts, st, ctx, k):
        saved = dict(st.names)

        def done(s, v):
            s.names = dict(saved)
            return k(s, v)
        return self._seq(stmts, 0, st, ctx, done)

    def _seq(self, stmts, i, st, ctx, k):
        last = UNIT
        while i < len(stmts):
            s = stmts[i]
            if not has_div(s):
                last = self.run_stmt(s, st)
                self.normalise(st)
                i += 1
                continue
            if s[0] == "let":
                raise Untranslatable("control flow inside a let initialiser")
            nxt = i + 1

            def kk(s2, v, nxt=nxt):
                return self._seq(stmts, nxt, s2, ctx, k) if nxt < len(stmts) else k(s2, v)
            return self.exec_expr(s[1], st, ctx, kk)
        return k(st, last)

    def exec_expr(self, e, st, ctx, kk):
        k = e[0]
        if k == "paren":
            return self.exec_expr(e[1], st, ctx, kk)
        if k == "return":
            return ctx.ret(st, self.ev(e[1], st) if e[1] is not None else UNIT)
        if k == "continue":
            if ctx.cont is None:
                raise Untranslatable("continue outside a loop")
            return ctx.cont(st)
        if k == "block":
            return self.exec_seq(e[1], st, ctx, kk)
        if k == "if":
            c = self.cond(e[1], st)
            sa, sb = st.copy(), st.copy()
            w = None
            if c.issome:
                w = self.fresh("w")
                sa.know[c.issome] = w
            self.depth += 1
            try:
                a = self.exec_seq(e[2], sa, ctx, kk)
                b = self.exec_seq(e[3], sb, ctx, kk) if e[3] else kk(sb, UNIT)
            finally:
                self.depth -= 1
            return BranchComb(c, w).mk(a, b, True)
        if k == "loop":
            return self.gen_loop(e[1], st, ctx)
        if k == "match":
            return self.exec_match(e, st, ctx, kk)
        if k == "iflet":
            return self.exec_match(("match", e[2], [(e[1], None, ("block", e[3])),
                                                    (("pwild",), None, ("block", e[4] or []))]), st, ctx, kk)
        raise Untranslatable("`%s` containing return / continue / loop" % k)

    def default_of(self, ty):
        if ty is None:
            return UNIT
        if ty in ("Nat", "Ref", "T"):
            return Val("0", ty)
        if ty.startswith("Option"):
            return Val("none", ty)
        if ty == "Bool":
            return Val("false", ty)
        raise Untranslatable("no default value of type %s for the fuel-exhausted case" % ty)

    def run_while(self, e, st):
        """`while c { body }` without return / continue / break inside: a separate definition
        `<fn>_while` by recursion on fuel that returns the tuple of the places the body changes"""
        cnd, body = e[1], e[2]
        if has_div(body) or self.in_loop:
            raise Untranslatable("while loop with return / continue / break inside, or nested in a loop")
        self.nwhile = getattr(self, "nwhile", 0) + 1
        name = self.cfg["lean"] + "_while" + ("" if self.nwhile == 1 else str(self.nwhile))
        extras = self.extras_of(self.cfg) + [o[0] for o in self.cfg.get("open", {}).values()]
        if "extra" not in extras or self.selfcell is None:
            raise Untranslatable("while loop in a function without fuel convention")
        vis = sorted(((st.order.index(cid), n, cid) for n, cid in st.names.items()))
        used0 = set(self.used)

        def build(carried):
            s = State()
            s.names, s.order, s.cells = dict(st.names), list(st.order), dict(st.cells)
            fixed, car, names = [], [], set(extras) | {"fuel"}

            def pname(n):
                n = re.sub(r"[^A-Za-z0-9_]", "_", n)
                if n in LEAN_KEYWORDS:
                    n += "_"
                while n in names:
                    n += "'"
                names.add(n)
                return n
            for _, n, cid in vis:
                v = st.cells[cid]
                if isinstance(v, Alias):
                    raise Untranslatable("a &mut reference is alive across a loop")
                if v is UNMOD or v is UNIT or isinstance(v, FVal):
                    continue
                if isinstance(v, Cond):
                    v = Val(v.boolean(), "Bool")
                if cid == self.selfcell and isinstance(v, SVal):
                    sn = pname("self")
                    over = {}
                    fixed.append((sn, self.ty_of(v), self.pack(v)))
                    for rf, lf, ty in self.fields(v.sname):
                        if lf is not None and (carried is None or (cid, rf) in carried):
                            sym = pname("self_" + lf)
                            over[lf] = self.wrapty(sym, ty)
                            car.append(((cid, rf), sym, ty, self.pack(self.field_get(v, rf))))
                    s.cells[cid] = SVal(v.sname, sn, over)
                else:
                    sym = pname(n)
                    s.cells[cid] = self.wrapty(sym, self.ty_of(v))
                    if carried is None or (cid, None) in carried:
                        car.append(((cid, None), sym, self.ty_of(v), self.pack(v)))
                    else:
                        fixed.append((sym, self.ty_of(v), self.pack(v)))
            self.used = set(used0) | names
            return s, fixed, car

        def cur_of(s, key):
            cid, rf = key
            return s.cells[cid] if rf is None else self.field_get(s.cells[cid], rf)

        def tup(s, car):
            comps = [self.pack(cur_of(s, key)) for key, _, _, _ in car]
            return comps[0] if len(comps) == 1 else "(" + ", ".join(comps) + ")"
        saved = (self.lets, self.depth)
        self.in_loop = True
        try:
            self.lets, self.depth = [], 1
            s1, _, car1 = build(None)
            self.cond(cnd, s1)
            self.run_block(body, s1)
            carried = set()
            for key, sym, ty, _ in car1:
                try:
                    if self.pack(cur_of(s1, key)) != sym:
                        carried.add(key)
                except Untranslatable:
                    carried.add(key)
            if not carried:
                raise Untranslatable("while loop that changes nothing")
            s2, fixed, car = build(carried)
            c = self.cond(cnd, s2)
            sb = s2.copy()
            w = None
            if c.issome:
                w = self.fresh("w")
                sb.know[c.issome] = w
            self.run_block(body, sb)
            head = " ".join([self.ctx["ns"] + "." + name] + extras + [f[0] for f in fixed])
            rec = " ".join([head, "fuel"] + [par(self.pack(cur_of(sb, key))) for key, _, _, _ in car])
            bodyterm = BranchComb(c, w).mk(rec, tup(s2, car), True)
            s3, _, _ = build(carried)
            fuelout = tup(s3, car)
        finally:
            self.lets, self.depth = saved
            self.in_loop = False
            self.used = used0
        fuel = "(%s + 1 + extra)" % self.pack(self.field_get(st.cells[self.selfcell], "cap"))
        binders = "".join(" (%s : %s)" % (n, lean_ty(t)) for n, t in self.extra_binders()) + \
                  "".join(" (%s : %s)" % (n, lean_ty(t)) for n, t, _ in fixed)
        rty = " × ".join(lean_ty(t) for _, _, t, _ in car)
        sig = " → ".join(["Nat"] + [lean_ty(t) for _, _, t, _ in car] + [rty])
        pats = "".join(", " + sym for _, sym, _, _ in car)
        self.aux.append("def %s%s%s : %s\n  | 0%s => %s\n  | fuel + 1%s =>\n    %s\n" % (
            name, self.inst_binders(), binders, sig, pats, fuelout, pats, indent(bodyterm, 4).lstrip()))
        call = " ".join([self.ctx["ns"] + "." + name] + extras + [par(f[2]) for f in fixed] + [fuel] +
                        [par(c_[3]) for c_ in car])
        n = len(car)
        for i, (key, _, ty, _) in enumerate(car):
            comp = call if n == 1 else "(%s)" % call + ".2" * i + (".1" if i < n - 1 else "")
            cid, rf = key
            val = self.wrapty(comp, ty)
            st.cells[cid] = val if rf is None else self.field_set(st.cells[cid], rf, val)
        return UNIT

    def gen_loop(self, body, st, ctx):
        if self.in_loop:
            raise Untranslatable("nested loop")
        name = self.cfg["lean"] + "_loop"
        vis = sorted(((st.order.index(cid), n, cid) for n, cid in st.names.items()))
        extras = self.extras_of(self.cfg) + [o[0] for o in self.cfg.get("open", {}).values()]

        def build(carried):
            s = State()
            s.names, s.order = dict(st.names), list(st.order)
            s.cells = dict(st.cells)
            fixed, car = [], []
            names = set(extras) | {"fuel"}

            def pname(n):
                n = re.sub(r"[^A-Za-z0-9_]", "_", n)
                if n in LEAN_KEYWORDS:
                    n += "_"
                while n in names:
                    n += "'"
                names.add(n)
                return n
            for _, n, cid in vis:
                v = st.cells[cid]
                if isinstance(v, Alias):
                    raise Untranslatable("a &mut reference is alive across a loop")
                if v is UNMOD or v is UNIT or isinstance(v, FVal):
                    continue
                if isinstance(v, Cond):
                    v = Val(v.boolean(), "Bool")
                if cid == self.selfcell and isinstance(v, SVal):
                    sn = pname("self")
                    over = {}
                    fixed.append((sn, self.ty_of(v), self.pack(v)))
                    for rf, lf, ty in self.fields(v.sname):
                        if lf is not None and (carried is None or (cid, rf) in carried):
                            sym = pname("self_" + lf)
                            over[lf] = self.wrapty(sym, ty)
                            car.append(((cid, rf), sym, ty, self.pack(self.field_get(v, rf))))
                    s.cells[cid] = SVal(v.sname, sn, over)
                else:
                    sym = pname(n)
                    s.cells[cid] = self.wrapty(sym, self.ty_of(v))
                    if carried is None or (cid, None) in carried:
                        car.append(((cid, None), sym, self.ty_of(v), self.pack(v)))
                    else:
                        fixed.append((sym, self.ty_of(v), self.pack(v)))
            self.used = set(used0) | names
            return s, fixed, car

        def cur_of(s, key):
            cid, rf = key
            return s.cells[cid] if rf is None else self.field_get(s.cells[cid], rf)

        used0 = set(self.used)
        saved = (self.lets, self.depth)
        self.in_loop = True
        try:
            # pass 1: which places change on a path that continues
            self.lets, self.depth = [], 0
            s1, _, car1 = build(None)
            conts = []

            def cont1(s):
                conts.append(s.copy())
                return "_"
            self.exec_seq(body, s1, Ctx(ctx.ret, cont1), lambda s, v: cont1(s))
            carried = set()
            for sc in conts:
                for key, sym, ty, _ in car1:
                    try:
                        if self.pack(cur_of(sc, key)) != sym:
                            carried.add(key)
                    except Untranslatable:
                        carried.add(key)
            # pass 2
            self.lets, self.depth = [], 0
            s2, fixed, car = build(carried)
            head = " ".join([self.ctx["ns"] + "." + name] + extras + [f[0] for f in fixed])

            def cont2(s):
                return " ".join([head, "fuel"] + [par(self.pack(cur_of(s, key))) for key, _, _, _ in car])
            bodyterm = self.exec_seq(body, s2, Ctx(ctx.ret, cont2), lambda s, v: cont2(s))
            lets = self.lets
            s3, _, _ = build(carried)
            fuelout = ctx.ret(s3, self.default_of(self.ret_ty))
        finally:
            self.lets, self.depth = saved
            self.in_loop = False
            self.used = used0
        if self.cfg.get("fuel") == "param":
            fuel = "fuel"
        else:
            if "extra" not in extras:
                raise Untranslatable("loop in a function without fuel convention")
            fuel = "(%s + 1 + extra)" % self.pack(self.field_get(st.cells[self.selfcell], "cap"))
        binders = "".join(" (%s : %s)" % (n, lean_ty(t)) for n, t in self.extra_binders()) + \
                  "".join(" (%s : %s)" % (n, lean_ty(t)) for n, t, _ in fixed)
        sig = " → ".join(["Nat"] + [lean_ty(t) for _, _, t, _ in car] + [self.ret_lean])
        pats = "".join(", " + sym for _, sym, _, _ in car)
        text = "def %s%s%s : %s\n  | 0%s => %s\n  | fuel + 1%s =>\n%s    %s\n" % (
            name, self.inst_binders(), binders, sig, pats, fuelout, pats,
            "".join("    let %s := %s\n" % l for l in lets), indent(bodyterm, 4).lstrip())
        self.aux.append(text)
        call_head = " ".join([self.ctx["ns"] + "." + name] + extras + [par(f[2]) for f in fixed])
        return " ".join([call_head, fuel] + [par(c[3]) for c in car])

    # ---------------- one function
    def extra_binders(self):
        out = [(x, "Nat") for x in self.extras_of(self.cfg)]
        out += [(o[0], o[1]) for o in self.cfg.get("open", {}).values()]
        return out

    def inst_binders(self):
        return "@@INST@@"

    def translate_fn(self, key, cfg):
        if key not in self.fns:
            raise Untranslatable("function %s not found" % key[1])
        fn = self.fns[key]
        self.key, self.cfg, self.impl, self.impl_top = key, cfg, fn["impl"], fn["impl"]
        self.lets, self.depth, self.aux, self.deceq = [], 0, [], set()
        self.in_loop, self.inline_depth, self.uses_float, self.selfcell = False, 0, False, None
        self.nwhile = 0
        self.used = {"self", "fuel", "num", "den", "extra"} | {o[0] for o in cfg.get("open", {}).values()}
        st = State()
        binders, outs = list(self.extra_binders()), []
        if cfg.get("fuel") == "param":
            binders.append(("fuel", "Nat"))
        for pn, kind, ty in fn["params"]:
            if pn == "self":
                if self.impl not in self.ctx["structs"]:
                    raise Untranslatable("method of an unmodelled type")
                cid = self.new_cell(st, "self", SVal(self.impl, "self"))
                self.selfcell = cid
                binders.append(("self", self.ctx["structs"][self.impl]["lean"]))
                if kind == "selfmut":
                    outs.append(cid)
            else:
                t = self.map_type(ty)
                if t in ("Float", "Unmodelled"):
                    raise Untranslatable("parameter %s of type %s" % (pn, ty))
                n = self.fresh(pn)
                cid = self.new_cell(st, pn, self.wrapty(n, t))
                binders.append((n, t))
                if kind == "refmut":
                    outs.append(cid)
        self.ret_ty = self.map_type(fn["ret"]) if fn["ret"] else None
        tys = [self.ty_of(st.cells[c]) for c in outs] + ([self.ret_ty] if self.ret_ty else [])
        self.ret_lean = " × ".join(lean_ty(t) for t in tys) if tys else "Unit"

        def ret(s, v):
            comps = [self.pack(s.cells[c]) for c in outs] + ([self.pack(v)] if self.ret_ty else [])
            if not comps:
                return "()"
            return comps[0] if len(comps) == 1 else "(" + ", ".join(comps) + ")"
        self.newstate = []
        try:
            body = self.exec_seq(fn["body"], st, Ctx(ret), lambda s, v: ret(s, v))
        except Untranslatable as ex:
            if self.newstate and ("Opaque" in str(ex) or "«" in str(ex)):
                raise DiffersNewState(", ".join(self.newstate))
            raise
        if self.newstate:
            raise DiffersNewState(", ".join(self.newstate))
        if cfg.get("float") and not self.uses_float:
            raise Untranslatable("the growth test no longer uses the float constant")
        inst = "".join(" [DecidableEq %s]" % tv for tv in sorted(self.deceq))
        text = "".join(a + "\n" for a in self.aux)
        text += "def %s%s%s : %s :=\n%s  %s\n" % (
            cfg["lean"], inst, "".join(" (%s : %s)" % (n, lean_ty(t)) for n, t in binders), self.ret_lean,
            "".join("  let %s := %s\n" % l for l in self.lets), indent(body).lstrip())
        return text.replace("@@INST@@", inst)


class BranchComb:
    """`if c then a else b`; when c is `x.isSome` and the then-branch uses the unwrapped value w:
    `match x with | some w => a | none => b`"""
    def __init__(self, cond, w):
        self.c, self.w = cond, w

    def mk(self, a, b, multiline=False):
        if multiline:
            a, b = indent(a), indent(b)
            if self.w and uses(self.w, a):
                return "(match %s with\n| some %s =>\n%s\n| none =>\n%s)" % (self.c.issome, self.w, a, b)
            return "if %s then\n%s\nelse\n%s" % (self.c.term, a, b)
        if self.w and uses(self.w, a):
            return "(match %s with | some %s => %s | none => %s)" % (self.c.issome, self.w, a, b)
        return "if %s then %s else %s" % (self.c.term, a, b)


def indent(t, n=2):
    return "\n".join(" " * n + l for l in t.split("\n"))


def has_div(node):
    if isinstance(node, tuple):
        if node and node[0] in ("return", "continue", "break", "loop"):
            return True
        if node and node[0] == "closure":
            return False
        return any(has_div(x) for x in node)
    if isinstance(node, list):
        return any(has_div(x) for x in node)
    return False


def strip_return(stmt):
    if stmt[0] == "expr" and stmt[1][0] == "return":
        return ("expr", stmt[1][1], stmt[2])
    return stmt


# ================================================================ targets, fallbacks, output
LRU_TBL = "_root_.Lru.Tbl K V"
TARGETS_LRU = {
    (None, "pow_cap"): {"lean": "powCap"},
    ("Lru", "new"): {"lean": "new"},
    ("Lru", "grow"): {"lean": "grow", "open": {"insert": ("insert", "%s → K → V → Nat → %s" % (LRU_TBL, LRU_TBL))}},
    ("Lru", "insert"): {"lean": "insert", "float": True, "open": {"grow": ("grow", "%s → %s" % (LRU_TBL, LRU_TBL))}},
    ("Lru", "get"): {"lean": "get"},
}
TARGETS_RH = {
    (None, "propagate"): {"lean": "propagate", "fuel": "param"},
    ("BackedRobinhoodTable", "new"): {"lean": "new"},
    ("BackedRobinhoodTable", "verif_with_capacity"): {"lean": "verifWithCapacity"},
    ("BackedRobinhoodTable", "grow"): {"lean": "grow", "extra": True},
    ("BackedRobinhoodTable", "get_or_insert_by_hash"): {"lean": "getOrInsertByHash", "float": True, "extra": True},
    ("BackedRobinhoodTable", "get_by_hash"): {"lean": "getByHash", "extra": True},
}

# the definitions a function falls back to when the translator cannot read it (same signatures as
# the translated ones, so that the static tie theorems still type-check and hold trivially)
FALLBACK = {
    "Gen.Lru": {
        "powCap": "def powCap (v : Nat) (p : Nat) : Nat := _root_.Lru.powCap v p\n",
        "new": "def new (cap : Nat) : _root_.Lru.Tbl K V := _root_.Lru.new cap\n",
        "grow": ("def grow (insert : _root_.Lru.Tbl K V → K → V → Nat → _root_.Lru.Tbl K V) (self : _root_.Lru.Tbl K V) : _root_.Lru.Tbl K V :=\n"
                 "  let nt := self.tbl.foldl (fun (acc : _root_.Lru.Tbl K V) e => match e with | some e => insert acc e.key e.val e.hash | none => acc) (_root_.Lru.new (self.cap + 1))\n"
                 "  ⟨nt.tbl, nt.cap, self.numFilled⟩\n"),
        "insert": ("def insert (num : Nat) (den : Nat) (grow : _root_.Lru.Tbl K V → _root_.Lru.Tbl K V) (self : _root_.Lru.Tbl K V) (key : K) (val : V) (hash_v : Nat) : _root_.Lru.Tbl K V :=\n"
                   "  _root_.Lru.insertNoGrow (if _root_.Lru.needGrow num den self then grow self else self) key val hash_v\n"),
        "get": "def get [DecidableEq K] (self : _root_.Lru.Tbl K V) (key : K) (hash_v : Nat) : Option V := _root_.Lru.get self key hash_v\n",
    },
    "Gen.RH": {
        "propagate": "def propagate (fuel : Nat) (v : List _root_.RH.Slot) (cap : Nat) (itm : _root_.RH.Slot) (pos : Nat) : List _root_.RH.Slot := _root_.RH.propagate fuel v cap itm pos\n"
                     "def propagate_loop (cap : Nat) (itm : _root_.RH.Slot) (fuel : Nat) (v : List _root_.RH.Slot) (searcher : _root_.RH.Slot) (pos : Nat) : List _root_.RH.Slot := _root_.RH.propagate fuel v cap searcher pos\n",
        "new": "def new : _root_.RH.Tbl := _root_.RH.mk\n",
        "verifWithCapacity": "def verifWithCapacity (cap : Nat) : _root_.RH.Tbl := _root_.RH.mk cap\n",
        "grow": "def grow (extra : Nat) (self : _root_.RH.Tbl) : _root_.RH.Tbl := _root_.RH.grow self extra\n",
        "getOrInsertByHash": (
            "def getOrInsertByHash_loop (num den extra : Nat) (self : _root_.RH.Tbl) (hash : Nat) (elem : Nat) (equality_by_hash : Bool) (fuel pos psl : Nat) : _root_.RH.Tbl × Nat :=\n"
            "  if equality_by_hash then (self, 0) else\n"
            "  let r := _root_.RH.probe self hash elem (self.cap + 1 + extra) fuel pos psl\n  (r.1, r.2.1)\n"
            "def getOrInsertByHash (num den extra : Nat) (self : _root_.RH.Tbl) (hash : Nat) (elem : Nat) (equality_by_hash : Bool) : _root_.RH.Tbl × Nat :=\n"
            "  if equality_by_hash then (self, 0) else\n"
            "  let r := _root_.RH.getOrInsert ⟨num, den⟩ self hash elem extra\n  (r.1, r.2.1)\n"),
        "getByHash": (
            "def getByHash_loop (extra : Nat) (self : _root_.RH.Tbl) (hash : Nat) (fuel pos psl : Nat) : _root_.RH.Tbl × Option Nat := _root_.RH.probeHash self hash fuel pos psl\n"
            "def getByHash (extra : Nat) (self : _root_.RH.Tbl) (hash : Nat) : _root_.RH.Tbl × Option Nat := _root_.RH.getByHash self hash extra\n"),
    },
}

HEADER = """import RsddModel.Model.Lru
import RsddModel.Model.RobinHood
/-!
# Generated by tools/gen_tables.py from the Rust source — do not edit

`src/util/lru.rs` (namespace `Gen.Lru`) and `src/backing_store/bump_table.rs` (namespace `Gen.RH`),
statement by statement (conventions and trusted mapping: header of tools/gen_tables.py).
Compared with the hand-written models `Lru.*` / `RH.*` in `Props/TieTables.lean`.
-/
set_option linter.unusedVariables false

"""
UNTR = "UNTRANSLATED (translator route not available, tied by correspondence only): "


def write_if_changed(path, text):
    old = open(path).read() if os.path.exists(path) else None
    if old != text:
        open(path, "w").write(text)


def translate_file(ctx, targets, label):
    """returns the list of blocks [ns, lean name, status key, text, status] of one source file"""
    ns = ctx["ns"]
    try:
        fns, consts, structs = parse_source(os.path.join(REPO, ctx["file"]))
        ex = Exec(ctx, fns, consts, targets, structs)
        parse_err = None
    except Exception as e:  # noqa
        ex, parse_err = None, "%s: %s" % (type(e).__name__, e)
    blocks = []
    for key, cfg in targets.items():
        name = "%s::%s" % (label, key[1]) if key[0] else "%s (free fn)" % key[1]
        try:
            if ex is None:
                raise Untranslatable(parse_err)
            text = "/-- `%s` of %s -/\n%s" % (key[1], ctx["file"], ex.translate_fn(key, cfg))
            st = "translated (-> %s.%s)" % (ns, cfg["lean"])
        except DiffersNewState as e:
            text = ("-- READ, BUT DIFFERS: the function uses state the model has no counterpart for (%s);\n"
                    "-- alias of the hand-written model so that the build stays green; reported as DIFFERS\n%s"
                    % (e, FALLBACK[ns][cfg["lean"]]))
            st = "DIFFERS (new state): %s" % e
        except RecursionError:
            text = "-- TRANSLATOR ROUTE NOT AVAILABLE (recursion limit)\n" + FALLBACK[ns][cfg["lean"]]
            st = UNTR + "recursion limit"
        except Exception as e:  # noqa: never crash, this function only falls back
            why = str(e) if isinstance(e, Untranslatable) else "%s: %s" % (type(e).__name__, e)
            text, st = fallback_block(ns, cfg["lean"], why), UNTR + why.replace("\n", " ")
        blocks.append([ns, cfg["lean"], name, text, st])
    return blocks


def fallback_block(ns, lean, why):
    return ("-- TRANSLATOR ROUTE NOT AVAILABLE (the source left the translator's grammar: %s):\n"
            "-- alias of the hand-written model; tied by the correspondence streams only\n%s"
            % (why.replace("\n", " "), FALLBACK[ns][lean]))


def assemble(blocks):
    """text of the generated file and, per block, its (first line, last line) (1-based)"""
    text, spans = HEADER, []
    cur_ns = None
    for ns, lean, name, btext, st in blocks:
        if ns != cur_ns:
            if cur_ns is not None:
                text += "end %s\n\n" % cur_ns
            text += "namespace %s\n\n" % ns
            if ns == "Gen.Lru":
                text += "variable {K V : Type}\n\n"
            cur_ns = ns
        first = text.count("\n") + 1
        text += btext + "\n"
        spans.append((first, text.count("\n")))
    if cur_ns is not None:
        text += "end %s\n" % cur_ns
    return text, spans


def elaborate(path):
    """error lines of `lake env lean <path>`; None when Lean cannot be run"""
    import subprocess
    try:
        r = subprocess.run(["lake", "env", "lean", path], cwd=os.path.join(ROOT, "lean"), capture_output=True,
                           text=True, timeout=600)
    except Exception:  # noqa
        return None
    out = []
    for l in (r.stdout + r.stderr).splitlines():
        m = re.search(r":(\d+):(\d+): error:?\s*(.*)$", l)
        if m:
            out.append((int(m.group(1)), m.group(3)))
    if r.returncode != 0 and not out:
        return None
    return out


def main():
    blocks = translate_file(CTX_LRU, TARGETS_LRU, "Lru") + translate_file(CTX_RH, TARGETS_RH, "BackedRobinhoodTable")
    text, spans = assemble(blocks)
    old = open(OUT).read() if os.path.exists(OUT) else None
    if old != text and os.environ.get("GEN_TABLES_NO_ELAB") != "1":
        # elaboration guard: a generated definition that Lean rejects falls back to its alias
        tmp = os.path.join(os.path.dirname(OUT), "GenTablesCheck%d.lean" % os.getpid())
        try:
            for _ in range(len(blocks) + 1):
                open(tmp, "w").write(text)
                errs = elaborate(tmp)
                if not errs:
                    break
                line, msg = min(errs)
                hit = [i for i, (a, b) in enumerate(spans) if a <= line <= b]
                if not hit or not blocks[hit[0]][4].startswith("translated"):
                    break
                i = hit[0]
                why = "does not elaborate: " + msg[:120]
                blocks[i][3] = fallback_block(blocks[i][0], blocks[i][1], why)
                blocks[i][4] = UNTR + why
                text, spans = assemble(blocks)
        finally:
            if os.path.exists(tmp):
                os.remove(tmp)
    write_if_changed(OUT, text)
    return {b[2]: b[4] for b in blocks}


if __name__ == "__main__":
    for k, v in main().items():
        print(k, "->", v)
