"""Per-property configuration of tools/check.py: Lean modules holding the property theorems,
correspondence streams with their sizes, trusted base and assumptions."""

COMMON_TRUSTED = [
    "Lean 4.33.0 kernel (thorough tier: re-checked by leanchecker)",
    "axioms propext, Classical.choice, Quot.sound only (audited on every run via #print axioms; no sorry/native_decide/bv_decide)",
    "tools/gen_constants.py (regex extraction of numeric constants from /repo source)",
    "the translators tools/gen_*.py with tools/rustmini*.py: parsing of the Rust text and the mapping tables in their docstrings (Rust method -> Lean function, &mut / RefCell -> state component, loop -> fold or fuel recursion, panic -> none); what the kernel checks is that the TRANSLATION equals the model (Props/Tie*.lean); a definition that does not elaborate falls back to an alias of the model (status UNTRANSLATED)",
    "harness/ (Rust; drives the real crate in-process, canonical printing) and tools/check.py (diff, verdict)",
    "Lean compiler for the model driver (executes Model and Spec definitions)",
    "the correspondence is a sample: it ties the hand-written model to the code on the explored cases only",
]

BDD_STREAM = {
    "name": "bdd",
    "quick": {"cases": 400, "args": ["--maxvars=7", "--maxops=40"]},
    "thorough": {"cases": 12000, "args": ["--maxvars=10", "--maxops=60"]},
    "shrink_levels": [
        {"cases": 800, "args": ["--maxvars=2", "--maxops=6"]},
        {"cases": 800, "args": ["--maxvars=3", "--maxops=8"]},
        {"cases": 800, "args": ["--maxvars=4", "--maxops=12"]},
        {"cases": 800, "args": ["--maxvars=5", "--maxops=20"]},
    ],
}

TBL_STREAM = {
    "name": "tbl",
    "quick": {"cases": 600, "args": ["--maxops=60"]},
    "thorough": {"cases": 20000, "args": ["--maxops=400"]},
    "shrink_levels": [
        {"cases": 2000, "args": ["--maxops=4"]},
        {"cases": 2000, "args": ["--maxops=6"]},
        {"cases": 2000, "args": ["--maxops=10"]},
        {"cases": 2000, "args": ["--maxops=20"]},
    ],
}

LRU_STREAM = {
    "name": "lru",
    "quick": {"cases": 600, "args": ["--maxops=40"]},
    "thorough": {"cases": 20000, "args": ["--maxops=200"]},
    "shrink_levels": [
        {"cases": 2000, "args": ["--maxops=4"]},
        {"cases": 2000, "args": ["--maxops=8"]},
        {"cases": 2000, "args": ["--maxops=16"]},
    ],
}

RING_STREAM = {
    "name": "ring",
    "quick": {"cases": 1200, "args": []},
    "thorough": {"cases": 60000, "args": []},
    "shrink_levels": [{"cases": 3000, "args": []}],
}

WMC_STREAM = {
    "name": "wmc",
    "quick": {"cases": 250, "args": ["--maxvars=6", "--maxops=30"]},
    "thorough": {"cases": 6000, "args": ["--maxvars=8", "--maxops=50"]},
    "shrink_levels": [
        {"cases": 600, "args": ["--maxvars=2", "--maxops=6"]},
        {"cases": 600, "args": ["--maxvars=3", "--maxops=8"]},
        {"cases": 600, "args": ["--maxvars=4", "--maxops=12"]},
    ],
}

SDD_STREAM = {
    "name": "sdd",
    "quick": {"cases": 500, "args": ["--maxvars=6", "--maxops=30"]},
    "thorough": {"cases": 15000, "args": ["--maxvars=8", "--maxops=50"]},
    "shrink_levels": [
        {"cases": 800, "args": ["--maxvars=2", "--maxops=6"]},
        {"cases": 800, "args": ["--maxvars=3", "--maxops=8"]},
        {"cases": 800, "args": ["--maxvars=4", "--maxops=12"]},
        {"cases": 800, "args": ["--maxvars=5", "--maxops=20"]},
    ],
}

ORD_STREAM = {
    "name": "ord",
    "quick": {"cases": 900, "args": ["--maxvars=6"]},
    "thorough": {"cases": 30000, "args": ["--maxvars=9"]},
    "shrink_levels": [
        {"cases": 1500, "args": ["--maxvars=2"]},
        {"cases": 1500, "args": ["--maxvars=3"]},
        {"cases": 1500, "args": ["--maxvars=4"]},
    ],
}

OPT_STREAM = {
    "name": "opt",
    "quick": {"cases": 250, "args": ["--maxvars=6", "--maxops=25"]},
    "thorough": {"cases": 8000, "args": ["--maxvars=8", "--maxops=40"]},
    "shrink_levels": [
        {"cases": 600, "args": ["--maxvars=2", "--maxops=6"]},
        {"cases": 600, "args": ["--maxvars=3", "--maxops=8"]},
        {"cases": 600, "args": ["--maxvars=4", "--maxops=12"]},
    ],
}

COMP_STREAM = {
    "name": "comp",
    "quick": {"cases": 500, "args": ["--maxvars=5"]},
    "thorough": {"cases": 20000, "args": ["--maxvars=8"]},
    "shrink_levels": [
        {"cases": 1000, "args": ["--maxvars=1"]},
        {"cases": 1000, "args": ["--maxvars=2"]},
        {"cases": 1000, "args": ["--maxvars=3"]},
    ],
}

TD_STREAM = {
    "name": "td",
    "quick": {"cases": 320, "args": ["--maxvars=5"]},
    "thorough": {"cases": 8000, "args": ["--maxvars=7"]},
    "shrink_levels": [
        {"cases": 800, "args": ["--maxvars=2"]},
        {"cases": 800, "args": ["--maxvars=3"]},
        {"cases": 600, "args": ["--maxvars=4"]},
    ],
}

QUERY_STREAM = {
    "name": "query",
    "quick": {"cases": 400, "args": ["--maxvars=6", "--maxops=30"]},
    "thorough": {"cases": 12000, "args": ["--maxvars=8", "--maxops=50"]},
    "shrink_levels": [
        {"cases": 800, "args": ["--maxvars=2", "--maxops=6"]},
        {"cases": 800, "args": ["--maxvars=3", "--maxops=10"]},
        {"cases": 800, "args": ["--maxvars=4", "--maxops=14"]},
    ],
}

CNF_STREAM = {
    "name": "cnf",
    "quick": {"cases": 1200, "args": ["--maxvars=6", "--maxops=14"]},
    "thorough": {"cases": 40000, "args": ["--maxvars=8", "--maxops=30"]},
    "shrink_levels": [
        {"cases": 2000, "args": ["--maxvars=1", "--maxops=4"]},
        {"cases": 2000, "args": ["--maxvars=2", "--maxops=6"]},
        {"cases": 2000, "args": ["--maxvars=3", "--maxops=8"]},
    ],
}

SER_STREAM = {
    "name": "ser",
    "quick": {"cases": 1200, "args": ["--maxvars=6", "--maxops=20"]},
    "thorough": {"cases": 40000, "args": ["--maxvars=8", "--maxops=40"]},
    "shrink_levels": [
        {"cases": 2000, "args": ["--maxvars=2", "--maxops=6"]},
        {"cases": 2000, "args": ["--maxvars=3", "--maxops=8"]},
    ],
}

FFI_STREAM = {
    "name": "ffi",
    "quick": {"cases": 400, "args": ["--maxvars=5", "--maxops=20"]},
    "thorough": {"cases": 12000, "args": ["--maxvars=7", "--maxops=40"]},
    "shrink_levels": [
        {"cases": 800, "args": ["--maxvars=1", "--maxops=5"]},
        {"cases": 800, "args": ["--maxvars=2", "--maxops=8"]},
        {"cases": 800, "args": ["--maxvars=3", "--maxops=10"]},
    ],
}

CLI_STREAM = {
    "name": "cli",
    "quick": {"cases": 300, "args": ["--maxvars=5"]},
    "thorough": {"cases": 6000, "args": ["--maxvars=6"]},
    "shrink_levels": [
        {"cases": 300, "args": ["--maxvars=1"]},
        {"cases": 300, "args": ["--maxvars=2"]},
        {"cases": 300, "args": ["--maxvars=3"]},
    ],
}

CLI_PREBUILD = [("/repo", ["cargo", "build", "--offline", "--features", "cli", "--bins", "--target-dir", "/verif/.build/cli-target"])]

UP_STREAM = {
    "name": "up",
    "quick": {"cases": 900, "args": ["--maxvars=6", "--maxops=14"]},
    "thorough": {"cases": 30000, "args": ["--maxvars=7", "--maxops=24"]},
    "shrink_levels": [
        {"cases": 2000, "args": ["--maxvars=2", "--maxops=3"]},
        {"cases": 2000, "args": ["--maxvars=3", "--maxops=4"]},
        {"cases": 2000, "args": ["--maxvars=4", "--maxops=6"]},
    ],
}

HASH_STREAM = {
    "name": "hash",
    "quick": {"cases": 600, "args": ["--maxvars=6", "--maxops=25"]},
    "thorough": {"cases": 20000, "args": ["--maxvars=8", "--maxops=40"]},
    "shrink_levels": [
        {"cases": 900, "args": ["--maxvars=2", "--maxops=6"]},
        {"cases": 900, "args": ["--maxvars=3", "--maxops=8"]},
        {"cases": 900, "args": ["--maxvars=4", "--maxops=12"]},
    ],
}

BDD_RULE = ("operation programs over RobddBuilder (random/linear/reversed orders, AllIteTable or LruIteTable with hooked "
            "capacity 2^0..2^3, hooked unique-table capacity 4..16 so the table grows repeatedly); a case is non-trivial when "
            "at least one result has a node whose child is a node; distinct = distinct program text")

HOOK_COMMITS = ["fa17dcb"]

# what each tie module of the translator route covers (used in the manifest's level notes)
TIE_TEXT = {
    "TieIte": "Ite::new (4 stages, both pointer types)",
    "TieFF": "FiniteField::{new,negate,add,sub}",
    "TieSem": "the one-line operations of Complex / ExpectedUtility / RealSemiring",
    "TieOrders": "VarOrder (12 functions incl. new, new_last, lt, get, var_at_level)",
    "TieBddCore": "the BDD builder core (38 functions: get_or_insert normalisation, ite_helper, the IteTable adapters, cond_with_alloc, the derived operations, smooth_helper, pointer accessors)",
    "TieTables": "Lru::{new,insert,grow,get} and BackedRobinhoodTable::{new,propagate,grow,get_or_insert_by_hash,get_by_hash}",
    "TieOptim": "marginal_map / meu / bb with their helpers, FiniteField::mul, Polynomial::{zero,one,add,mul}",
    "TieCompile": "compile_cnf, compile_cnf_with_assignments, compile_logical_expr, compile_plan, BottomUpPlan::from_dtree, the BDD and vtree serialisers, from_sexpr, LogicalExpr::eval",
    "TieSddCore": "the SDD builder core (35 functions: and and its four cases, canonicalize, unique_bdd / unique_or, the derived operations, condition; compress with its in-place swap_remove loops)",
    "TieVTree": "vtree.rs / btree.rs / dtree.rs (28 functions incl. VTreeManager::new, lca, is_prime_*, from_dtree, DTree::from_cnf)",
    "TieCnfOrd": "Cnf::{interaction_graph, min_fill_order, linear_order, force_order} and helpers",
    "TieCnfUp": "Literal / VarSet / PartialModel / Cnf / CnfHasher / AssignmentIter and the propagator's decide loop, SATSolver::{decide,pop,…} (53 functions)",
    "TieDnnf": "the decision-DNNF builder (conjoin_implied, topdown_h, compile_cnf_topdown, cond_helper, both get_or_insert)",
    "TieFfi": "the diagram-building C exports (operation and argument positions), bdd_eq / topvar / low / high",
    "TieSddQ": "SDD pointer accessors and the derived / hand-written orders (Ord of SddPtr, BinarySDD, SddOr), the SDD scratch traversals (clear_scratch, count_nodes, fold with its cache probe), cached_semantic_hash on all three node kinds, and the semantic SDD builder (get_or_insert with the complement probe, apply cache, sdd_eq, stats; 23 units)",
    "TieScratch": "the BDD scratch mechanism and every memoised traversal (clear_scratch, fold / bdd_fold with both-polarity memo, count_nodes, the default wmc / evaluate / semantic_hash = fold + clear, condition's clean-up) plus a census of direct scratch-API calls per function (40 entries)",
    "TieCli": "the command-line tools' glue (single_wmc, partial_wmcs, order and weight handling, the two converters' main) and the remaining C wrappers (robdd_model_count, weight tables, polynomial marshalling, CNF / order / dtree / vtree constructors; 37 entries)",
}


def tie_note(modules):
    parts = [TIE_TEXT[m.split(".")[-1]] for m in modules if m.split(".")[-1] in TIE_TEXT]
    if not parts:
        return ""
    return (" Translator route (tools/gen_*.py, re-run by every check): the following source functions are REGENERATED from the Rust text "
            "into Lean (Model/Gen*.lean) and proved equal to the model definitions the property theorems are about (Props/Tie*.lean; a function "
            "whose source leaves the translator's grammar is listed as UNTRANSLATED in the evidence and is then tied by the streams only): "
            + "; ".join(parts) + ".")


# properties for which the technique genuinely cannot apply (none so far)
NOT_APPLICABLE = {}

PROPS = {
    "C01": {
        "modules": ["RsddModel.Props.C01", "RsddModel.Props.C01Order", "RsddModel.Props.C01Total", "RsddModel.Props.TieIte", "RsddModel.Props.TieOrders", "RsddModel.Props.TieBddCore", "RsddModel.Props.TieBddCoreSource"],
        "streams": [BDD_STREAM],
        "rule": BDD_RULE,
        "trusted": ["modelled not verified: unique table (C02), FxHasher (arbitrary function), unsafe aliasing of compute_table, std HashMap memo of cond_with_alloc (association list)"],
        "assumptions": ["pointer identity = structural equality (justified by C02 table theorems)",
                        "partial correctness: theorems are about returned results (fuel-indexed ite)"],
        "level_text": "Kernel-checked theorems (run_refines, step_correct, run_stable) state that every diagram returned by any operation "
                      "sequence of the model builder denotes exactly the specified Boolean function, for every injective level map, every "
                      "lawful cache and every fuel; the model is tied to the Rust by differential runs (model pool == implementation pool "
                      "structurally, implementation truth tables == spec). Totality (C01Total): for every program the specification accepts (operand indices in range, variables inside the order), every lawful cache and every fuel >= number of variables + 1 the run returns (run_total, ite_total), so the statement holds for every accepted call sequence, not only for those that happen to return (run_total_correct, run_isSome_iff_valid, run_fuel_irrelevant).",
        "level_note": "Trusted: Lean kernel; axioms propext/Classical.choice/Quot.sound; harness+driver+check.py; the correspondence is a sample. "
                      "The four stages of Ite::new are regenerated arm by arm from src/builder/cache/ite.rs on every run (tools/gen_source_model.py) "
                      "and proved equal to the model's (TieIte.*). "
                      "Modelled not verified: FxHasher, unsafe aliasing, HashMap memo; the unique table is modelled at store level in C02Store and proved to refine the tree reading.",
        "explanation": "run_refines/step_correct: every pool entry of the model builder denotes the function the spec assigns, "
                       "for every lawful cache, injective level map and fuel; tied to the code by the bdd stream (model = implementation "
                       "structurally, implementation = spec truth tables).",
    },
    "C02": {
        "modules": ["RsddModel.Props.C02", "RsddModel.Props.C02Table", "RsddModel.Props.C02Store", "RsddModel.Props.Tie", "RsddModel.Props.TieIte", "RsddModel.Props.TieBddCore", "RsddModel.Props.TieBddCoreSource", "RsddModel.Props.TieTables", "RsddModel.Props.TieTablesSource"],
        "streams": [BDD_STREAM, TBL_STREAM],
        "rule": BDD_RULE,
        "trusted": ["modelled not verified: bump allocator, FxHasher, psl as u8 (PslBound hypothesis: no probe sequence reaches 256)"],
        "assumptions": ["every call passes hashOf(key) for one fixed hash function", "psl < 256 (not reachable through the builder)"],
        "level_text": "Kernel-checked: ROBDD canonicity with complement edges (canonicity), every builder result is ordered/reduced/regular-high "
                      "(wf_of_run), pointer equality iff semantic equality (eq_iff_sem); the robin-hood unique table refines find-or-insert on an "
                      "append-only set across any number of growths (table_refines_set, table_no_duplicates, table_index_stable), instantiated at "
                      "the LOAD_FACTOR/DEFAULT_SIZE extracted from the source; growOrig_orphans proves the pinned grow loses nodes. Store level (references into "
                      "a hash-consed node list instead of trees): the list stays append-only and duplicate-free, unfolding is injective on valid references "
                      "(unfold_injective: pointer identity IS structural equality), every store-level operation incl. ite with any lawful reference-keyed cache, "
                      "conditioning, quantification and composition refines the tree-level one (iteS_refines, stepS_refines, runS_refines), hence two references "
                      "returned by any operation sequence are equal iff they denote the same function (store_eq_iff_sem, store_run_refines).",
        "level_note": "Trusted: Lean kernel; allowed axioms; harness+driver. Hypotheses: one hash function per key; psl < 256 (u8) not reachable via the builder. "
                      "Bump allocator and FxHasher modelled.",
        "explanation": "canonicity + wf_of_run + eq_iff_sem for the builder; table_refines_set/no_duplicates/index_stable for the "
                       "robin-hood table across any number of growths; growOrig_orphans is the negative theorem for the pinned grow.",
    },
    "C16": {
        "modules": ["RsddModel.Props.C16", "RsddModel.Props.Tie", "RsddModel.Props.TieIte", "RsddModel.Props.TieBddCore", "RsddModel.Props.TieBddCoreSource", "RsddModel.Props.TieTables", "RsddModel.Props.TieTablesSource"],
        "streams": [BDD_STREAM, LRU_STREAM, SDD_STREAM],
        "rule": BDD_RULE,
        "trusted": ["modelled not verified: FxHasher (any function of the key)"],
        "assumptions": ["the hash passed with a key is a function of the key (true of LruIteTable)"],
        "level_text": "Kernel-checked: for every capacity, hash function and insert/get history the lossy cache returns nothing or the value most "
                      "recently inserted under exactly that key (lru_lawful, lru_never_foreign), growth loses/confuses nothing (lru_grow_keeps), the "
                      "cache is a lawful CacheImpl so every builder theorem applies to it, and LRU-backed and cache-everything builders return "
                      "identical diagrams (lru_builder_same_diagrams).",
        "level_note": "Trusted: Lean kernel; allowed axioms; harness+driver. Hypothesis: the hash accompanying a key is a function of the key "
                      "(true for LruIteTable; the stale-value counterexample for inconsistent hashes is a theorem). FxHasher modelled as arbitrary.",
        "explanation": "lru_lawful (history form), lru_never_foreign, lru_grow_keeps, LruCache is a lawful CacheImpl for all "
                       "parameters, hence builder results are cache-independent.",
    },
    "C13": {
        "modules": ["RsddModel.Props.C13", "RsddModel.Props.Tie", "RsddModel.Props.TieFF", "RsddModel.Props.TieSem", "RsddModel.Props.TieOptim", "RsddModel.Props.TieOptimSource"],
        "streams": [RING_STREAM],
        "rule": "triples (a,b,c) per weight type: finite fields for all 7 exported primes with boundary residues {0,1,2,P/2,P/2+1,P-2,P-1}, "
                "small and random residues; reals/EU/complex on dyadic k/8 (exact in f64); Booleans exhaustively; truncated polynomials over "
                "FiniteField<U32_TINY> with lengths 0,1,MAX-1,MAX; non-trivial = operands not 0/1 (ff), length > 1 (poly); distinct = distinct line",
        "trusted": ["modelled not verified: f64 is modelled by exact rationals (the stream only uses dyadic values on which every f64 operation is exact); "
                    "the `rational` crate behind RationalSemiring (no public constructor: only 0/1 sums and products are reachable)"],
        "assumptions": ["values are exactly representable (property text)", "polynomial laws are for well-formed values (len <= MAX_COEFFS, zero tail) — all values the library constructs"],
        "level_text": "Kernel-checked commutative-semiring laws for every shipped weight type (real/rational over Rat, Boolean, expected utility, complex, "
                      "finite field on the carrier {v < P}, truncated polynomials on well-formed values), finite-field ops = integer arithmetic mod P with "
                      "no u128 overflow for every exported prime (list regenerated from the source and re-decided by the kernel), subtraction inverts "
                      "addition, lattice laws and order compatibility of join/meet/choose; negative theorems for the pinned sub/mul.",
        "level_note": "Trusted: Lean kernel; allowed axioms; harness+driver. FiniteField::{new,negate,add,sub} and the one-line operations of Complex, ExpectedUtility and RealSemiring (add, mul, sub, one, zero, join, meet, choose, partial_cmp) are regenerated from the source text and proved equal to the model's (TieFF.*, TieSem.*); FiniteField::mul and the polynomial product (loops) are tied by the ring stream only. f64 modelled by Rat (exact on the dyadic domain the property names).",
        "explanation": "C13.* + Tie.* theorems; ring stream: implementation vs exact arithmetic, vs the mirrored model, and the laws on the implementation's own outputs.",
    },
    "C07": {
        "modules": ["RsddModel.Props.C07Bdd", "RsddModel.Props.C07Sdd", "RsddModel.Props.TieSem", "RsddModel.Props.TieFF", "RsddModel.Props.TieOptim", "RsddModel.Props.TieScratch", "RsddModel.Props.TieScratchSource", "RsddModel.Props.TieSddQ", "RsddModel.Props.TieSddQSource"],
        "streams": [WMC_STREAM, HASH_STREAM],
        "rule": "diagrams taken from builder pools (three largest distinct + one random per program), random orders; normalised field weights for a "
                "random exported prime, arbitrary integer weights 0..5, dyadic real weights; non-trivial = diagram has a node below a node",
        "trusted": ["modelled not verified: memoisation in scratch cells (C10), f64 (dyadic weights only)",
                    "decision-DNNF results are free diagrams (C06), so wmc_free applies to them; SDD counts: C07Sdd (mirror of the SDD fold)"],
        "assumptions": ["diagram is free (no variable twice on a path) — true of every ROBDD/decision-DNNF (C02/C06)"],
        "level_text": "Kernel-checked: for every free diagram, commutative semiring and normalised weights the count equals the brute-force sum over all "
                      "assignments (wmc_eq_bruteforce), independent of order and complement edges (wmc_order_independent, wmc_complement), evaluation "
                      "agrees with the denoted function (evaluate_agrees), and for reduced ordered BDDs with arbitrary weights the count is the "
                      "order-recursive sum over the variables each sub-function depends on (wmc_arbitrary_weights). "
                      "SDDs: for every decision diagram whose nodes' primes form a partition and whose elements are semantically decomposable the count is the "
                      "brute-force sum (wmc_sdd, wmc_sdd_complement), hence for every result of the SDD builder under any vtree, compression on or off "
                      "(run_wmc, run_wmc_any), and evaluation agrees with the denoted function (run_evaluate).",
        "level_note": "Trusted: Lean kernel; allowed axioms; harness+driver. Tree-level fold (sharing/memo is C10's subject).",
        "explanation": "C07Bdd.* theorems; wmc stream compares implementation counts with brute-force sums and the mirrored fold.",
    },
    "C08": {
        "modules": ["RsddModel.Props.C08", "RsddModel.Props.TieOrders", "RsddModel.Props.TieBddCore", "RsddModel.Props.TieBddCoreSource"],
        "streams": [WMC_STREAM],
        "rule": "as C07; every diagram is smoothed over all n variables; the smoothed diagram, its paths, weighted and unweighted counts are compared",
        "trusted": ["modelled not verified: get_or_insert as structural normalisation (C02)"],
        "assumptions": ["input diagram is ordered w.r.t. the builder's order with all levels < n (C02 wf_of_run)"],
        "level_text": "Kernel-checked: smoothing keeps the function (smooth_same_function), every path of the result tests exactly the first n variables "
                      "of the order in order (smooth_paths_exact), hence its count equals the brute-force weighted sum for arbitrary weights (smooth_wmc) "
                      "and the number of models for unit weights (smooth_count); smoothH_orig_wrong is the negative theorem for the pinned helper.",
        "level_note": "Trusted: Lean kernel; allowed axioms; harness+driver.",
        "explanation": "C08.* theorems; wmc stream checks function, paths, counts and exact equality with the mirrored smooth.",
    },
    "C03": {
        "modules": ["RsddModel.Props.C03", "RsddModel.Props.C03Total", "RsddModel.Props.TieIte", "RsddModel.Props.TieSddCore", "RsddModel.Props.TieSddCoreSource"],
        "streams": [SDD_STREAM],
        "rule": "operation programs over CompressionSddBuilder: vtrees right-linear / left-linear / balanced / random splits over identity or shuffled "
                "labels, compression on (3/4) and off (1/4), hooked unique-table capacity 4/8/default; non-trivial = a result has a decision node "
                "below a decision node; distinct = distinct program text",
        "trusted": ["modelled not verified: the two unique tables (C02's table), std HashMap apply cache (lawful cache parameter), segment tree behind lca (C14)"],
        "assumptions": ["pointer identity = structural equality", "partial correctness (fuel-indexed mutual recursion and/canonicalize/compress/or)"],
        "level_text": "Kernel-checked: for every vtree, both compression settings, every lawful apply and ite cache and every fuel, each SDD-builder "
                      "operation returns a diagram denoting the specified function (and_correct, or_correct, condition_correct, ite_correct, "
                      "exists_correct, compose_correct) and any operation sequence refines the specification pool (run_refines, run_stable); tied to "
                      "the code by the sdd stream (canonical prints equal with compression on, truth tables otherwise). Totality (C03Total): on pointers satisfying the positional invariant every builder result satisfies (Pos; plain WF is not enough: wf_not_enough), for every fuel >= vtree height + 1 every operation returns and is correct (and_total_correct, ..., compose_total_correct), hence every valid program runs to completion with results denoting the specified functions (run_total_correct, run_isSome_iff, run_fuel_indep).",
        "level_note": "Trusted: Lean kernel; allowed axioms; harness+driver. Ite::new over SDD pointers is regenerated from the source text and proved equal to the model's (TieIte.sdd_*). Modelled: unique tables, HashMap caches, lca.",
        "explanation": "C03.* theorems; sdd stream: model == implementation (canonical form), implementation == spec truth tables.",
    },
    "C14": {
        "modules": ["RsddModel.Props.C14", "RsddModel.Props.TieOrders", "RsddModel.Props.TieVTree", "RsddModel.Props.TieVTreeSource", "RsddModel.Props.TieCnfOrd", "RsddModel.Props.TieCnfOrdSource"],
        "streams": [ORD_STREAM],
        "rule": "CNFs with unit/duplicate/tautological/empty clauses and unused indices -> linear, min-fill, FORCE orders and two run-time extensions; "
                "explicit permutations through VarOrder::new; dtrees for random elimination orders with the derived vtree; vtrees from right_linear / "
                "left_linear / even_split / random shapes with shuffled labels, all index pairs reachable through var_index and lca; non-trivial = "
                "order differs from the identity / more than one clause / more than two leaves",
        "trusted": ["modelled not verified: segment_tree (minimum over the half-open range), petgraph (swap-remove node indices, first minimum), f64 in FORCE (Lean Float for execution; the permutation theorem holds for any keys)"],
        "assumptions": ["'every CNF variable' = every variable occurring in a clause", "force_order is not called on CNFs without clauses or with an empty clause (it diverges / underflows there)"],
        "level_text": "Kernel-checked: every order the library produces is a permutation with mutually inverse maps (order_inverse, minfill_perm for any "
                      "tie-breaking, force_perm for any keys, newLast_perm); dtree leaves = clauses, vars = union, cutsets by definition (dtree_leaves, "
                      "dtree_vars, dtree_cutsets); the derived vtree has every occurring variable exactly once (vtree_of_dtree_leaves); in-order indices, "
                      "lca = deepest common ancestor, prime relation and variable count follow the tree shape (inorder_index_spec, lca_correct, "
                      "isPrime_spec, numVars_spec).",
        "level_note": "Trusted: Lean kernel; allowed axioms; harness+driver. segment_tree and petgraph are modelled. VTreeIndex has no public constructor: pairs are those reachable via var_index and lca (all nodes).",
        "explanation": "C14.* theorems; ord stream: implementation vs spec (set-theoretic definitions, root paths) and vs the mirrored model.",
    },
    "C05": {
        "modules": ["RsddModel.Props.C05Bdd", "RsddModel.Props.C05Sdd", "RsddModel.Props.C03", "RsddModel.Props.TieCompile", "RsddModel.Props.TieCompileSource", "RsddModel.Props.TieBddCore", "RsddModel.Props.TieBddCoreSource"],
        "streams": [COMP_STREAM],
        "rule": "CNFs (empty formula, empty/unit clauses, repeated and complementary literals, unused indices), random partial assignments over all "
                "variables, random expression trees over all seven constructors (depth <= 4), dtree plans for random elimination orders; BDD builder "
                "under a random order, SDD builder under a random vtree and under the dtree-derived vtree; non-trivial = the CNF or the expression "
                "compiles to a diagram with a node below a node",
        "trusted": ["modelled not verified: the clause sort of compile_cnf uses a comparator that is not a total order (the theorem holds for every permutation); "
                    "BinaryHeap merge order of compile_cnf_with_assignments (the theorem holds for every merge strategy)",
                    "SDD half: compile functions are compositions of the SDD operations proved correct in C03; the SDD compile_cnf/expr/plan results are "
                    "checked against the input text by the comp stream (no separate SDD compile theorem yet)"],
        "assumptions": ["labels are below the order length (the Rust panics otherwise)"],
        "level_text": "Kernel-checked (BDD builder, every injective level map, every lawful cache): compile_cnf of any permutation of the clauses denotes "
                      "the CNF (compileCnf_correct; empty formula, empty clauses, units, repeated/complementary literals included), compiling under a "
                      "partial assignment denotes the restricted CNF for every merge strategy and is the SAME diagram as compile-then-condition "
                      "(compileWithAssign_eq_condition, via canonicity), expressions and plans compile to their semantics, the plan of a dtree is "
                      "the conjunction of its leaf clauses (planFromDtree_sem, compileDtree_eq_compileCnf). SDD builder, every vtree, both compression settings, every lawful cache "
                      "pair, every fuel: compile_cnf of any permutation of the clauses, compile_logical_expr, compile_plan and the plan of a dtree denote "
                      "their input, incl. the empty formula and empty clauses (sdd_compileCnf_correct, sdd_compileCnf_empty, sdd_compileCnf_empty_clause, "
                      "sdd_compileExpr_correct, sdd_compilePlan_correct, sdd_compileDtree_correct); with compression on the result is well formed and the "
                      "same node whatever the clause order, cache or fuel (sdd_compileCnf_perm_irrelevant, sdd_compileDtree_eq_compileCnf).",
        "level_note": "Trusted: Lean kernel; allowed axioms; harness+driver. The SDD compile drivers are mirrored (Model/SddCompile.lean) and the comp stream "
                      "compares their canonical output with the implementation's; compiling under a partial assignment exists for the BDD builder only.",
        "explanation": "C05Bdd.* theorems; comp stream: implementation vs truth table of the input text, vs the mirrored compile functions (exact diagrams).",
    },
    "C06": {
        "modules": ["RsddModel.Props.C06", "RsddModel.Props.C06Real", "RsddModel.Props.TieDnnf", "RsddModel.Props.TieDnnfSource", "RsddModel.Props.TieCnfUp"],
        "streams": [TD_STREAM],
        "rule": "CNFs as in C05 x a random permutation of the variables as decision order x {standard, semantic(U64_LARGEST)} store; for every "
                "(variable, value) the result and its negation are conditioned; non-trivial = result has a node below a node",
        "trusted": ["the compiler theorem is proved over an abstract solver contract (SolverSpec + FreeDecide + HashSound) and the contract is discharged for the "
                    "mirrored real propagator (C06Real.compileTopdown_real_correct) under the no-wrap hypothesis on the hash (product of all literal primes "
                    "< 2^128: the code multiplies with wrapping_mul, so equal hashes imply equal residuals only without wrap-around); the mirrored compiler run "
                    "on the mirrored propagator is compared node-for-node with the real compiler",
                    "semantic store: correct under CollisionFree (unconditionally false by pigeonhole)"],
        "assumptions": ["component-cache keys determine the residual formula (HashSound)", "no hash collision among requested nodes (semantic store)"],
        "level_text": "Kernel-checked: for every solver meeting the stated contract and every order enumerating the CNF's variables the compiled diagram "
                      "denotes the CNF, decides no variable twice on a path and is the false constant iff the CNF is unsatisfiable "
                      "(topdownH_correct, compileTopdown_correct; unconditional for the reference solver: naiveCompile_correct; for the mirrored real "
                      "two-watched-literal propagator incl. component caching by prime-product hash: compileTopdown_real_correct, under no hash wrap-around); conditioning a free "
                      "diagram or its negation yields the restricted function (cond_correct_dnnf); negative theorems for the pinned cond_helper and "
                      "root chain (condOrig_wrong, compileTopdownOrig_not_false).",
        "level_note": "Trusted: Lean kernel; allowed axioms; harness+driver. Conditional on the solver contract (HashSound is inherently conditional: wrapping_mul); semantic store under CollisionFree.",
        "explanation": "C06.* theorems; td stream: implementation vs brute force (models, is_false, once-per-path, all conditionings), vs mirrored compiler on mirrored propagator.",
    },
    "C10": {
        "modules": ["RsddModel.Props.C10", "RsddModel.Props.C10Sdd", "RsddModel.Props.TieScratch", "RsddModel.Props.TieScratchSource", "RsddModel.Props.TieSddQ", "RsddModel.Props.TieSddQSource"],
        "streams": [QUERY_STREAM],
        "rule": "a builder program, then 4-14 queries drawn from {count in FiniteField, count in reals, evaluate, count_nodes, semantic_hash, marginal_map, "
                "smooth, condition} on the five largest distinct diagrams of the pool (they share nodes); each answer is compared with the same query "
                "on a freshly built copy in a new builder; scratch emptiness of every node reachable from the pool is read after every call; "
                "non-trivial = a queried diagram has a node below a node",
        "trusted": ["modelled not verified: RefCell<Option<Box<dyn Any>>> as a tagged cell (a wrong-typed leftover reads as absent but the cell counts as occupied)",
                    "cached_semantic_hash is specified for a fixed weight map only (C11); the stream uses the uncached semantic_hash"],
        "assumptions": ["queries start from all-clear scratch (proved to be an invariant of every public query)"],
        "level_text": "Kernel-checked on a DAG store with one tagged scratch cell per node: the memoised fold returns the tree-level fold for shared nodes "
                      "and both polarities (foldDag_eq_tree), after a pass every reachable cell is occupied so the short-circuiting clear empties "
                      "everything (pass_occupies_reachable, clear_after_pass), every query is pure (fold_pure, bddFold_pure, optim_pure, "
                      "countNodes_pure) and any sequence of queries over any roots answers as on a fresh copy and ends all-clear (queries_pure, "
                      "queries_commute, queries_perm); the same for SDD folds (C10Sdd.*).",
        "level_note": "Trusted: Lean kernel; allowed axioms; harness+driver. SDD condition/smooth not in the scratch model. cached_semantic_hash keeps a per-node value that is not keyed by the map: by C11's wording it is only specified for a fixed map.",
        "explanation": "C10.* and C10Sdd.* theorems; query stream: answers vs fresh copy, scratch emptiness, tree-level values, and the DAG+scratch model.",
    },
    "C12": {
        "modules": ["RsddModel.Props.C12", "RsddModel.Props.TieSem", "RsddModel.Props.TieOptim", "RsddModel.Props.TieOptimSource"],
        "streams": [OPT_STREAM],
        "rule": "the two largest distinct diagrams of a builder pool under a random order; marginal MAP / real branch-and-bound: every subset size 0..4 of "
                "query variables in random order, weights in eighths, non-query normalised, query weights arbitrary in [0,1]; MEU / EU branch-and-bound: "
                "utility variables are the last one or two of the order with utilities 0..10, decisions among the earlier ones with unit weight, other "
                "variables probabilistic; non-trivial = non-empty query set on a diagram with a node below a node",
        "trusted": ["modelled not verified: f64 as exact rationals (dyadic weights), the scratch memo of bdd_fold (C10)"],
        "assumptions": ["weights in the stated domain", "utility-bearing variables ordered after all decision variables (hypothesis of the property and of meu_opt)"],
        "level_text": "Kernel-checked over Rat: the relaxed fold is an upper bound of every completion (ub_sound), the branch-and-bound recursion returns "
                      "max(lb, best completion) with an attaining complete assignment (bnb_opt), marginal_map = exhaustive maximum with an attaining "
                      "assignment of exactly the query variables (marginalMap_opt), the same for MEU in the utility component under the stated "
                      "ordering hypothesis (meu_opt) and for the generic branch and bound under explicit lattice/monotonicity laws proved for the "
                      "real and expected-utility instances (bb_opt, bb_real_opt, bb_eu_opt).",
        "level_note": "Trusted: Lean kernel; allowed axioms; harness+driver. f64 modelled by Rat.",
        "explanation": "C12.* theorems; opt stream: value and assignment vs exhaustive maximisation and vs the mirrored model (tie-breaking included).",
    },
    "C15": {
        "modules": ["RsddModel.Props.C15", "RsddModel.Props.TieCnfUp"],
        "streams": [CNF_STREAM],
        "rule": "raw clause lists (empty list, empty clause, duplicate/complementary literals, unused indices) with a random partial model, a literal to "
                "condition on and integer weights; hasher histories of push / decide / pop with the partial model kept in step (a decision never "
                "contradicts the current model: the documented use), all pairs of states of one history compared; non-trivial = more than one clause "
                "and variable / more than two comparable states",
        "trusted": ["modelled not verified: bit_set::BitSet (sorted duplicate-free list), HashSet iteration order of the hasher (proved irrelevant), primal::Primes (trial division, proved prime)"],
        "assumptions": ["'coincide' in the hasher clause is read positionally: the same clause positions are unsatisfied and restrict to the same literal occurrences "
                        "(two different clauses with syntactically equal restrictions hash differently: a cache miss, never a wrong hit)",
                        "only-if direction needs the product of all literal primes below 2^128 (stated in the property)"],
        "level_text": "Kernel-checked: Cnf::new keeps the function and the clause/literal sets (new_sem), num_vars, eval, is_sat_partial, condition and the "
                      "brute-force count agree with their set-theoretic definitions including the empty formula and empty clauses (eval_spec, "
                      "isSatPartial_spec, condition_sem, assignmentIter_enumerates, wmc_spec, wmcOrig_wrong), the hasher's value is the product of "
                      "the primes of the unassigned literal occurrences of unsatisfied non-unit clauses over any push/decide/pop history "
                      "(hash_formula), equal residuals give equal hashes (hasher_eq_if) and, below 2^128, only then (hasher_eq_only_if, by unique "
                      "factorisation proved in core Lean); literal packing, partial-model and variable-set algebra.",
        "level_note": "Trusted: Lean kernel; allowed axioms; harness+driver. Positional reading of the residual; BitSet/HashSet/primal modelled.",
        "explanation": "C15.* theorems; cnf stream: implementation vs set-theoretic definitions on the raw clauses, vs the mirrored model; hasher states compared pairwise.",
    },
    "C17": {
        "modules": ["RsddModel.Props.C17", "RsddModel.Props.TieCompile", "RsddModel.Props.TieCompileSource", "RsddModel.Props.TieCnfUp"],
        "streams": [SER_STREAM],
        "rule": "generated DIMACS texts (comment lines, header, clauses spanning lines, empty clauses, duplicate literals) through Cnf::from_dimacs, "
                "to_dimacs and back, and through LogicalExpr::from_dimacs; generated s-expressions over up to 6 named variables (names chosen so that "
                "lexicographic order differs from numeric order) through serde_sexpr and from_sexpr; serde_json output of the BDD, SDD and vtree "
                "serialisers for the largest diagram of a builder pool, parsed with Lean.Json; non-trivial = more than one clause / variable / node",
        "trusted": ["modelled not verified: the crates dimacs, serde_sexpr and serde_json (only sampled by the stream); texts are restricted to what the dimacs "
                    "crate accepts (it rejects headers announcing zero variables or zero clauses)",
                    "SDD serialiser: the JSON is checked against the diagram's truth table (not field-for-field against the model, which needs the raw in-memory node)"],
        "assumptions": ["s-expressions without the constants True/False (todo!() downstream, excluded by the property)"],
        "level_text": "Kernel-checked: re-parsing header + to_dimacs(c) returns c for every clause list (dimacs_roundtrip_text, dimacs_roundtrip, "
                      "dimacs_roundtrip_sets), the DIMACS glue keeps the models under label = number - 1 (fromDimacs_sem) and LogicalExpr::from_dimacs "
                      "under label = number (exprFromDimacs_sem), from_sexpr keeps the models under the lexicographic numbering (fromSexpr_sem, "
                      "variableMapping_lex), and the BDD/SDD node tables with complement flags, read naively, denote the in-memory diagram "
                      "(serBdd_sem, serSdd_sem); the vtree JSON is isomorphic to the tree (serVtree_iso).",
        "level_note": "Trusted: Lean kernel; allowed axioms; harness+driver; the three external crates are sampled, not modelled.",
        "explanation": "C17.* theorems; ser stream: real parsers/serialisers vs specification-level readers of the same text / JSON.",
    },
    "C04": {
        "modules": ["RsddModel.Props.C04", "RsddModel.Props.TieVTree", "RsddModel.Props.TieVTreeSource", "RsddModel.Props.TieTables", "RsddModel.Props.TieTablesSource", "RsddModel.Props.TieSddCore", "RsddModel.Props.TieSddCoreSource", "RsddModel.Props.TieSddQ"],
        "streams": [SDD_STREAM],
        "rule": "as C03; with compression on, every decision node reachable from every result is checked (from its printed canonical form and truth "
                "tables) for: primes non-false, pairwise exclusive, exhaustive, over the left vtree child's variables; subs over the right child's "
                "variables and pairwise inequivalent; not trimmable; and the builder's equality classes are compared with equality of the specified functions",
        "trusted": ["modelled not verified: the two unique tables (C02's table refinement applies to them), HashMap apply cache"],
        "assumptions": ["vtree leaves are distinct (VTreeManager::new asserts it)", "pointer identity = structural equality"],
        "level_text": "Kernel-checked: every SDD returned by any operation sequence of the compressing builder is well formed — primes non-false, exclusive, "
                      "exhaustive, over the left child's variables; subs over the right child's variables, pairwise distinct; not trimmable; sorted and "
                      "complement-normalised (wfs_of_run, run_wfs) — compressed partitions are unique (partition_unique), well-formed SDDs are "
                      "canonical (sdd_canon) and therefore two results of one builder are pointer-equal iff they denote the same function (run_canonical); "
                      "for every vtree with distinct leaves, every lawful cache pair, every fuel.",
        "level_note": "Trusted: Lean kernel; allowed axioms; harness+driver. Unique tables modelled (their refinement theorem is C02Table).",
        "explanation": "C04.* theorems; sdd stream: the clauses of well-formedness evaluated on the implementation's results, equality classes vs functions, model == implementation.",
    },
    "C18": {
        "modules": ["RsddModel.Props.C18", "RsddModel.Props.TieFfi", "RsddModel.Props.TieCli"],
        "streams": [FFI_STREAM],
        "rule": "call sequences over {bdd_true/false, bdd_var, bdd_new_var, bdd_negate, bdd_and, bdd_or, bdd_ite, bdd_compose} on a manager created by "
                "mk_bdd_manager_default_order, run through the exported C symbols (linked into the harness through extern \"C\" declarations) and "
                "through the native API; every handle is read back through bdd_is_true/is_false/topvar/low/high; bdd_eq classes, robdd_model_count, "
                "count_nodes, real / complex / polynomial weighted counts (polynomial weights marshalled from C arrays incl. arrays longer than "
                "MAX_COEFFS), bdd_to_json; non-trivial = a diagram with a node below a node",
        "trusted": ["modelled not verified: Box allocation of handles, CString marshalling, the C calling convention (VarLabel and Complex passed by value)"],
        "assumptions": ["bdd_low/high/topvar are only meaningful on non-constant handles (the code panics / returns the placeholder 0 on constants)"],
        "level_text": "Kernel-checked: a sequence of exported calls, projected through 'dereference the handle', IS the native builder run of the "
                      "translated sequence (ffi_step_native, ffi_run_native), hence diagrams built through C denote the specified functions "
                      "(ffi_refines) and bdd_eq is semantic equality (ffi_eq_iff_sem); topvar/low/high expose the two cofactors of the top variable "
                      "(ffi_low_high_sem); robdd_model_count is the number of models modulo the counting prime (ffi_model_count); from_c_parts "
                      "keeps min(len, MAX_COEFFS) coefficients (fromCParts_spec).",
        "level_note": "Trusted: Lean kernel; allowed axioms; harness+driver. The theorem is thin by design (the wrapper adds nothing); the substance is the three-way run C / native / model. "
                      "Every one of the 66 exported symbols of src/ffi is called by the ffi stream (builder lines: diagram operations, counts, weights, "
                      "polynomials, scratch accessors; kind=cnf lines: literal/CNF/order/dtree/vtree constructors and the three compile entry points).",
        "explanation": "C18.* theorems; ffi stream: C symbols vs native API vs handle-layer model vs specification.",
    },
    "C19": {
        "modules": ["RsddModel.Props.C19", "RsddModel.Props.C19Order", "RsddModel.Props.TieCompile", "RsddModel.Props.TieCompileSource", "RsddModel.Props.TieBddCore", "RsddModel.Props.TieBddCoreSource", "RsddModel.Props.TieCli", "RsddModel.Props.TieCliSource"],
        "streams": [CLI_STREAM],
        "prebuild": CLI_PREBUILD,
        "rule": "the three binaries built from the working tree (feature cli) run on generated files: weighted_model_count on s-expressions over up to 6 "
                "named variables with weights in halves (non-normalised, incl. zero and a weights-only variable) and an optional configured order; "
                "bottomup_cnf_to_bdd on DIMACS files with min-fill or FORCE order; bottomup_formula_to_bdd with linear or manual order; non-trivial = "
                "more than one variable / clause",
        "trusted": ["modelled not verified: clap argument parsing, file I/O, serde_json/serde_sexpr/dimacs crates, f64 Display (weights are halves so every "
                    "printed decimal is exact)"],
        "assumptions": ["single-count mode (no partial assignments), formulas without constants"],
        "level_text": "Kernel-checked compositions: text -> expression (C17) -> compile (C05) -> smooth and count (C08) gives the brute-force weighted sum "
                      "of the formula as written in the text, for every order, weight table and commutative semiring (cli_wmc_spec); the formula and "
                      "CNF converters' node tables denote the input text (cli_formula_to_bdd_spec, cli_cnf_to_bdd_spec).",
        "level_note": "Trusted: Lean kernel; allowed axioms; harness+driver. As strong as its links (C05, C08, C17); the tools' glue (weights for unnamed variables, default weights, order configuration) is validated by the cli stream.",
        "explanation": "C19.* theorems; cli stream: printed counts vs brute force from the text, JSON vs truth table of the text, and the composed model reproduces the JSON byte for byte.",
    },
    "C09": {
        "modules": ["RsddModel.Props.C09", "RsddModel.Props.TieCnfUp"],
        "streams": [UP_STREAM],
        "rule": "CNFs (unit, duplicate-literal, tautological clauses, an empty clause in one of ten, unused indices) with random decide/pop walks on the "
                "real SATSolver: decisions of any variable and polarity incl. already assigned ones and re-decisions after backtracking, pops whenever "
                "something was pushed; after construction and after every command the result, model, satisfied flag, hash, stack depth, "
                "difference_iter and (hook) both watch-list vectors are observed; non-trivial = more than one command with propagation taking place",
        "trusted": ["modelled not verified: bit_set::BitSet (function / ascending iteration), primal::Primes (trial division, proved prime), u128 wrapping_mul as multiplication mod 2^128"],
        "assumptions": ["hash clause: conditional on the product of all literal primes being below 2^128 (hash_injective_partial) — the code uses wrapping_mul and the property states the clause without the bound",
                        "fixpoint clause: CNF in Cnf::new normal form (always true for CNFs built through the public constructor)"],
        "level_text": "Kernel-checked about the mirrored two-watched-literal propagator and state stack: every assigned literal is entailed by the CNF and the "
                      "decisions after any decide/pop history (decide_sound, new_sound, history_sound), UNSAT only when no model extends the decisions "
                      "(unsat_sound, history_unsat_sound), the watch invariant is preserved across decide, UNSAT-aborted decide and pop, and gives the "
                      "fixpoint: no falsified and no unit clause (watch_invariants_preserved, fixpoint, history_fixpoint), pop restores the earlier "
                      "state exactly (pop_restores), the satisfied flag is exact (satflag_exact, satset_exact), the hash is the product of the primes "
                      "of the removed literal occurrences and path independent (hash_formula, hash_path_independent) and, without wrap-around, equal "
                      "hashes imply equal residuals (hash_injective_partial); decideOrig_misses_unit is the negative theorem for the pinned watch "
                      "replacement.",
        "level_note": "Trusted: Lean kernel; allowed axioms; harness+driver. The hash clause is inherently conditional (wrapping_mul); watch lists are not restored by pop (proved irrelevant to observables).",
        "explanation": "C09.* theorems; up stream: every observation vs brute-force entailment / fixpoint / flag / hash-vs-residual, pop vs the earlier observation, and exact equality with the mirrored model incl. watch lists.",
    },
    "C11": {
        "modules": ["RsddModel.Props.C11Bdd", "RsddModel.Props.C11", "RsddModel.Props.C06", "RsddModel.Props.TieDnnf", "RsddModel.Props.TieDnnfSource", "RsddModel.Props.TieSddQ"],
        "streams": [HASH_STREAM],
        "rule": "one program of builder operations evaluated in five builders (ROBDD under two orders, compressing SDD builder under one vtree, "
                "uncompressed SDD builder under another, semantic-hash SDD builder) and CNFs compiled bottom-up and top-down under two orders; the "
                "semantic hash (fields U32_TINY, U32_SMALL, U64_LARGEST, weights exported from create_semantic_hash_map) of the last four results, of "
                "their negations, cached twice and recomputed, all compared with the defining weighted sum of the specified function; results and "
                "equality classes of the semantic-hash builder; non-trivial = at least two distinct non-constant hash values",
        "trusted": ["modelled not verified: the ChaCha stream behind create_semantic_hash_map (the actual weights are exported and checked to sum to one)",
                    "hash-identified builders are correct only absent hash collisions: the unconditional statement is false by pigeonhole; theorems carry CollisionFree, the stream reports a wrong result over the 64-bit field as a violation"],
        "assumptions": ["fixed field and weight map for cached hashes (property text)", "no hash collision among the functions of a history (semantic builders)"],
        "level_text": "Kernel-checked: the hash of a free diagram (every ROBDD of every order, every decision-DNNF) with weights summing to one is the "
                      "weighted sum of the function it denotes, so diagrams of one function hash equally whatever the order or history "
                      "(same_function_same_hash, hash_is_denotational), the negation hashes to one minus the hash (neg_hash_add, neg_hash); the "
                      "decision-DNNF store identified by hash is correct under CollisionFree (C06.compileTopdown_correct_semantic_partial). "
                      "Across kinds: a free BDD / decision-DNNF and a builder SDD of the same function hash equally for every vtree (hash_any_kind, "
                      "run_hash_any_kind, run_run_same_hash), SDD negation hashes to one minus (sdd_hash_neg), cached hashes equal recomputed ones over "
                      "any sequence of calls for a fixed map (cached_eq_recomputed_bdd, cached_eq_recomputed_sdd), the semantic-hash SDD builder never "
                      "judges equal functions different (semantic_never_splits) and, whenever the collision detector of the model does not fire, its "
                      "results are the specified functions (semantic_correct_partial; unconditional version false by pigeonhole: collision_wrong).",
        "level_note": "Trusted: Lean kernel; allowed axioms; harness+driver. Last sentence of the property is conditional by nature (collisions).",
        "explanation": "C11Bdd.* theorems; hash stream: all representations of one function vs the defining sum, negation, cached vs recomputed, semantic builder results and equality.",
    },
}
