"""Per-property configuration of tools/check.py: Lean modules holding the property theorems,
correspondence streams with their sizes, trusted base and assumptions."""

COMMON_TRUSTED = [
    "Lean 4.33.0 kernel (thorough tier: re-checked by leanchecker)",
    "axioms propext, Classical.choice, Quot.sound only (audited on every run via #print axioms; no sorry/native_decide/bv_decide)",
    "tools/gen_constants.py (regex extraction of numeric constants from /repo source)",
    "harness/ (Rust; drives the real crate in-process, canonical printing) and tools/check.py (diff, verdict)",
    "Lean compiler for the model driver (executes Model and Spec definitions)",
    "the correspondence is a sample: it ties the hand-written model to the code on the explored cases only",
]

BDD_STREAM = {
    "name": "bdd",
    "quick": {"cases": 400, "args": ["--maxvars=7", "--maxops=40"]},
    "thorough": {"cases": 12000, "args": ["--maxvars=10", "--maxops=60"]},
    "shrink_levels": [
        {"cases": 800, "args": ["--maxvars=2", "--maxops=6"]},
        {"cases": 800, "args": ["--maxvars=3", "--maxops=8"]},
        {"cases": 800, "args": ["--maxvars=4", "--maxops=12"]},
        {"cases": 800, "args": ["--maxvars=5", "--maxops=20"]},
    ],
}

BDD_RULE = ("operation programs over RobddBuilder (random/linear/reversed orders, AllIteTable or LruIteTable with hooked "
            "capacity 2^0..2^3, hooked unique-table capacity 4..16 so the table grows repeatedly); a case is non-trivial when "
            "at least one result has a node whose child is a node; distinct = distinct program text")

HOOK_COMMITS = ["fa17dcb"]

# properties for which the technique genuinely cannot apply (none so far)
NOT_APPLICABLE = {}

PROPS = {
    "C01": {
        "modules": ["RsddModel.Props.C01"],
        "streams": [BDD_STREAM],
        "rule": BDD_RULE,
        "trusted": ["modelled not verified: unique table (C02), FxHasher (arbitrary function), unsafe aliasing of compute_table, std HashMap memo of cond_with_alloc (association list)"],
        "assumptions": ["pointer identity = structural equality (justified by C02 table theorems)",
                        "partial correctness: theorems are about returned results (fuel-indexed ite)"],
        "level_text": "Kernel-checked theorems (run_refines, step_correct, run_stable) state that every diagram returned by any operation "
                      "sequence of the model builder denotes exactly the specified Boolean function, for every injective level map, every "
                      "lawful cache and every fuel; the model is tied to the Rust by differential runs (model pool == implementation pool "
                      "structurally, implementation truth tables == spec).",
        "level_note": "Trusted: Lean kernel; axioms propext/Classical.choice/Quot.sound; harness+driver+check.py; the correspondence is a sample. "
                      "Modelled not verified: unique table (C02), FxHasher, unsafe aliasing, HashMap memo. Partial correctness (returned results).",
        "explanation": "run_refines/step_correct: every pool entry of the model builder denotes the function the spec assigns, "
                       "for every lawful cache, injective level map and fuel; tied to the code by the bdd stream (model = implementation "
                       "structurally, implementation = spec truth tables).",
    },
    "C02": {
        "modules": ["RsddModel.Props.C02", "RsddModel.Props.C02Table", "RsddModel.Props.Tie"],
        "streams": [BDD_STREAM],
        "rule": BDD_RULE,
        "trusted": ["modelled not verified: bump allocator, FxHasher, psl as u8 (PslBound hypothesis: no probe sequence reaches 256)"],
        "assumptions": ["every call passes hashOf(key) for one fixed hash function", "psl < 256 (not reachable through the builder)"],
        "level_text": "Kernel-checked: ROBDD canonicity with complement edges (canonicity), every builder result is ordered/reduced/regular-high "
                      "(wf_of_run), pointer equality iff semantic equality (eq_iff_sem); the robin-hood unique table refines find-or-insert on an "
                      "append-only set across any number of growths (table_refines_set, table_no_duplicates, table_index_stable), instantiated at "
                      "the LOAD_FACTOR/DEFAULT_SIZE extracted from the source; growOrig_orphans proves the pinned grow loses nodes.",
        "level_note": "Trusted: Lean kernel; allowed axioms; harness+driver. Hypotheses: one hash function per key; psl < 256 (u8) not reachable via the builder. "
                      "Bump allocator and FxHasher modelled.",
        "explanation": "canonicity + wf_of_run + eq_iff_sem for the builder; table_refines_set/no_duplicates/index_stable for the "
                       "robin-hood table across any number of growths; growOrig_orphans is the negative theorem for the pinned grow.",
    },
    "C16": {
        "modules": ["RsddModel.Props.C16", "RsddModel.Props.Tie"],
        "streams": [BDD_STREAM],
        "rule": BDD_RULE,
        "trusted": ["modelled not verified: FxHasher (any function of the key)"],
        "assumptions": ["the hash passed with a key is a function of the key (true of LruIteTable)"],
        "level_text": "Kernel-checked: for every capacity, hash function and insert/get history the lossy cache returns nothing or the value most "
                      "recently inserted under exactly that key (lru_lawful, lru_never_foreign), growth loses/confuses nothing (lru_grow_keeps), the "
                      "cache is a lawful CacheImpl so every builder theorem applies to it, and LRU-backed and cache-everything builders return "
                      "identical diagrams (lru_builder_same_diagrams).",
        "level_note": "Trusted: Lean kernel; allowed axioms; harness+driver. Hypothesis: the hash accompanying a key is a function of the key "
                      "(true for LruIteTable; the stale-value counterexample for inconsistent hashes is a theorem). FxHasher modelled as arbitrary.",
        "explanation": "lru_lawful (history form), lru_never_foreign, lru_grow_keeps, LruCache is a lawful CacheImpl for all "
                       "parameters, hence builder results are cache-independent.",
    },
}
