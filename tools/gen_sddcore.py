#!/usr/bin/env python3
"""Translator (SDD builder core): regenerate Lean definitions from the Rust text on every run.

Source (under $VERIF_REPO, default /repo): src/builder/sdd/builder.rs, src/builder/sdd/compression.rs,
src/builder/mod.rs (`or`, `compose` defaults), src/repr/sdd.rs (pointer accessors).
Output: lean/RsddModel/Model/GenSddCore.lean, compared with the hand-written model `Sdd` (Model/Sdd.lean)
by the static theorems of lean/RsddModel/Props/TieSddCore.lean.

The Rust is parsed by tools/rustmini_sdd.py (tokenizer + recursive-descent parser) and compiled
structurally (statement by statement, arm by arm) to Lean terms in explicit state-passing style:

* value types: SddPtr -> Ptr, SddAnd -> Elem = Ptr × Ptr, Vec<SddAnd>/&[SddAnd] -> List Elem,
  VarLabel/VTreeIndex/usize -> Nat, bool -> Bool (conditions: Prop when they contain `==`/`<`),
  BinarySDD -> four values (label, low, high, index), SddOr -> (index, nodes), Ite<SddPtr> -> Ite.
* pure `let`s are inlined (normalisation: renamings / hoisted lets / swapped independent lets vanish).
* a call that can panic is a PARTIAL step:  match e with | none => none | some x => K
* a call that recurses into the builder is a STATE step: match f st args with | none => none | some (st', x) => K
* `for x in it { .. }` becomes a structurally recursive `<fn>_loop<k>` over the list, result type `LoopRes`
  (`.early r` = `return r` inside the loop, `.elems l` = the elements pushed on the output vector, in order);
  `continue` = recursive call, `break` = `.elems []`, `v.push(e)` = cons on the result of the rest.
  Admissible only when the vector is append-only inside the loop and not read there.
* `if v.len() == k { .. }` (k literal) becomes a `match v with | [e0,…] => .. | _ => ..`, so `v[i]` (i<k) is total.
* `match p { SddPtr::BDD(b) | SddPtr::ComplBDD(b) => .. }`: the two variants are the constructor `.bdd c ..` with
  complement flag `c`; inside the arm the scrutinee variable is replaced by the constructor term.

TRUSTED MAPPING TABLE (Rust name -> Lean model term); everything else is compiled structurally:
  self.is_true(x) / x.is_true()        x.isTrue            self.is_false(x)      x.isFalse
  self.eq(a,b), self.sdd_eq, a == b    a = b               x.neg(), negate(x)    x.neg
  x.is_neg()  x.isNeg   x.is_neg_var()  x.isNegVar   x.is_bdd()  x.isBdd   x.is_const()  (x.isTrue || x.isFalse)
  x.low() / x.high() (SddPtr)          Ptr.low? x / Ptr.high? x       (partial: panic on a non-BDD)
  x.node_iter()                        Ptr.nodeIter? x                (partial: panic on constants/literals)
  x.vtree()                            TieSddCoreAux.vtree? x         (partial: panic on constants/literals)
  SddPtr::true_ptr()/PtrTrue  .tru     false_ptr()/PtrFalse  .fls     SddPtr::Var(l,p) / self.var(l,p)  .lit l p
  SddAnd::new(p,s)  (p, s)             e.prime()/.prime  e.1          e.sub()/.sub  e.2
  BinarySDD::new(l,lo,hi,i)            the 4 values; b.label()/low()/high()/index() its components
  self.get_or_insert_bdd(b)            .bdd false l i lo hi           (hash-consing = structural identity, C02)
  self.get_or_insert_sdd(SddOr::new(n,i))   .dec false i n
  node.sort_by_key(|a| a.prime())      node := sortByPrime node       (the derived Ord, Ptr.cmp)
  it.find(|a| c)                       List.find? (fun a => decide c)
  self.unique_bdd(b)  uniqueBdd l lo hi i          self.unique_or(n,i)  uniqueOr n i   (partial)
  self.canonicalize_base_case(&n)      canonBase? n
  self.canonicalize(n,i)               canonicalize cmpr andF st n i        (state)
  self.compress(&mut n)                compress andF st n                   (state, rebinding n)
  self.should_compress                 cmpr
  self.and(a,b)   andF st a b    self.or(a,b)   orF andF st a b          (state)
  self.and_cartesian(a,b,l)  andCartesian vt cmpr andF st a b l   self.and_sub_desc / and_prime_desc likewise (state)
  self.and_indep(a,b,l)                andIndep vt a b l                    (partial)
  self.condition(f,l,v)  condF st f l v    self.exists(f,l)  existsF st f l   (state; recursion abstracted)
  self.ite(f,g,h)  iteF s f g h     self.iff(f,g)  iffF s f g                (state = pair of both caches)
  self.vtree_index(p)                  vtreeIndex vt p
  self.vtree_manager().lca(a,b)  vt.lca 0 a b      .is_prime_index(a,b)  a < b     .vtree(i).is_right_linear()  vt.isRLAt i
  .var_index(l)  (vt.varIndex? 0 l).getD 0          |a, b| self.vtree_manager().is_prime(a, b)   primeOrd vt
  Ite::new(ord,f,g,h)  Ite.new ord f g h     Ite::IteConst(x) .const x   IteChoice{f,g,h} .choice f g h  IteComplChoice .complChoice
  ite.is_compl_choice()                TieSddCoreAux.isComplChoice ite
  self.app_cache_get(&k) / self.app_cache.borrow().get(k).cloned()      A.get st k
  self.app_cache_insert(k,v) / self.app_cache.borrow_mut().insert(k,v)  st := A.insert st k v
  self.ite_cache_hash(&ite)            (the hash value; may only be passed back together with the same `ite`)
  self.ite_cache_get(ite,h) / self.ite_cache.borrow().get(ite,h)        iteCacheGet I si ite
  self.ite_cache_insert(ite,r,h) / self.ite_cache.borrow_mut().insert   si := iteCacheInsert I si ite r
  self.log_recursive_call(), *self.num_…borrow_mut() += 1               (statistics: no effect on the model)
  panic!(..)                           none

If a function leaves the grammar, that function only falls back to an alias of the model definition
(status UNTRANSLATED).  If it can be read and differs, the generated definition differs and the tie fails.
"""
import os, re, sys

sys.path.insert(0, os.path.dirname(os.path.abspath(__file__)))
from rustmini_sdd import Untranslatable, tokenize, find_fn, Parser  # noqa: E402

ROOT = os.path.dirname(os.path.dirname(os.path.abspath(__file__)))
REPO = os.environ.get("VERIF_REPO", "/repo")
OUT = os.path.join(ROOT, "lean", "RsddModel", "Model", "GenSddCore.lean")


# ------------------------------------------------------------------------------------------------ values
class Val:
    def __init__(self, ty, t=None, **kw):
        self.ty, self.t = ty, t
        self.__dict__.update(kw)

    def __repr__(self):
        return "Val(%s,%s)" % (self.ty, self.t)


def par(t):
    t = t.strip()
    if re.match(r"^[A-Za-z0-9_.?'!]+$", t):
        return t
    if t[0] in "([" and matching(t, 0) == len(t) - 1:
        return t
    return "(" + t + ")"


def matching(t, i):
    op, cl = t[i], {"(": ")", "[": "]"}[t[i]]
    d = 0
    for j in range(i, len(t)):
        if t[j] == op:
            d += 1
        elif t[j] == cl:
            d -= 1
            if d == 0:
                return j
    return -1


def ind(text, n=2):
    pad = " " * n
    return "\n".join(pad + l if l else l for l in text.split("\n"))


def as_prop(v):
    if v.ty == "prop":
        return v.t
    if v.ty == "bool":
        return v.t
    raise Untranslatable("condition of type " + v.ty)


def to_prop(v):
    """Prop text for use inside ∧ / ∨"""
    if v.ty == "prop":
        return v.t
    return "%s = true" % v.t


def to_bool(v):
    if v.ty == "bool":
        return v.t
    return "decide (%s)" % v.t


def elem_parts(v):
    if v.ty != "elem":
        raise Untranslatable("expected an SddAnd, got " + v.ty)
    if getattr(v, "pair", None):
        return v.pair
    return Val("ptr", par(v.t) + ".1"), Val("ptr", par(v.t) + ".2")


def elem_term(v):
    if getattr(v, "pair", None):
        return "(%s, %s)" % (v.pair[0].t, v.pair[1].t)
    return v.t


TYPES = [
    (r"^& ?(mut )?Vec < SddAnd ?>$|^Vec < SddAnd ?>$|^& ?\[ SddAnd ?\]$", "elems"),
    (r"^&? ?SddAnd$", "elem"),
    (r"^&? ?SddPtr$|^Ptr$|^Self$", "ptr"),
    (r"^BinarySDD$", "bin"),
    (r"^VTreeIndex$|^usize$|^VarLabel$", "nat"),
    (r"^bool$", "bool"),
    (r"^&? ?Ite < SddPtr ?>$", "ite"),
    (r"^u64$", "hash"),
    (r"^Option < SddPtr ?>$", "opt:ptr"),
    (r"^\( \)$|^\(\)$", "unit"),
]
LEAN_TY = {"elems": "List Elem", "elem": "Elem", "ptr": "Ptr", "nat": "Nat", "bool": "Bool", "ite": "Ite",
           "opt:ptr": "Option Ptr"}


def rust_type(txt):
    txt = re.sub(r"'[A-Za-z_]+ ?", "", txt)
    txt = re.sub(r"< ?>", "", txt)
    txt = re.sub(r"< , ", "< ", txt)
    txt = re.sub(r" +", " ", txt).strip()
    for rx, ty in TYPES:
        if re.match(rx, txt):
            return ty
    raise Untranslatable("type `%s`" % txt)


# ------------------------------------------------------------------------------------------------ compiler
class Ctx:
    """per-function compile context"""

    def __init__(self, spec, fname, toks):
        self.spec, self.fname, self.toks = spec, fname, toks
        self.used = set()          # Lean names in use
        self.binders = {}          # Lean binder name -> Lean type (for loop parameter lists)
        self.loops = []            # emitted loop definitions (text)
        self.nloops = 0
        self.inline_depth = 0
        self.new_state = []        # state used by the body that the model definition does not thread

    def fresh(self, base, ty=None):
        base = re.sub(r"[^A-Za-z0-9_]", "", base) or "x"
        if base in LEAN_KEYWORDS:
            base += "_"
        n, k = base, 0
        while n in self.used:
            k += 1
            n = "%s_%d" % (base, k)
        self.used.add(n)
        if ty:
            self.binders[n] = ty
        return n


LEAN_KEYWORDS = {"at", "from", "have", "show", "fun", "end", "then", "else", "if", "do", "let", "match", "with", "in",
                 "st", "rest", "vt", "cmpr", "andF", "condF", "existsF", "iteF", "iffF", "A", "I", "s", "open", "by",
                 "prefix", "local", "instance", "where", "deriving", "and", "or", "not", "id", "l", "r"} - {"l", "r"}


class State:
    """names of the current cache states"""

    def __init__(self, a=None, i=None, pair=None):
        self.a, self.i, self.pair = a, i, pair

    def with_(self, **kw):
        s = State(self.a, self.i, self.pair)
        s.__dict__.update(kw)
        return s

    def pair_term(self):
        if self.pair and self.a == self.pair + ".1" and self.i == self.pair + ".2":
            return self.pair
        return "(%s, %s)" % (self.a, self.i)


class Flow:
    """where control goes: function return / loop continue / loop break, and the pending pushes of a loop body"""

    def __init__(self, ret, cont=None, brk=None, vec=None, pending=()):
        self.ret, self.cont, self.brk, self.vec, self.pending = ret, cont, brk, vec, tuple(pending)

    def push(self, item):
        return Flow(self.ret, self.cont, self.brk, self.vec, self.pending + (item,))


def none_text(spec):
    if not spec["partial"]:
        raise Untranslatable("a panic / partial step in a function the model treats as total")
    return "none"


class Impure(Exception):
    pass


class NeedPartial(Exception):
    pass


class Differs(Exception):
    """the whole body was read; the only obstacle is state / parameters the model definition has no slot for"""
    pass


PTR_CTORS = {"PtrTrue": "tru", "PtrFalse": "fls"}


class Comp:
    def __init__(self, ctx):
        self.ctx = ctx
        self.spec = ctx.spec
        self.pure_mode = 0

    # ------------------------------------------------------------------ helpers
    def none(self):
        if self.pure_mode:
            raise Impure()
        if not self.spec["partial"]:
            raise NeedPartial()
        return "none"

    def ret_text(self, v, st):
        sp = self.spec
        t = self.val_term(v)
        if sp["ret"] == "state":
            return st.a if sp["state"] == "a" else st.i
        if sp["state"] is None or sp["ret"] == "val":
            return "some " + par(t) if sp["partial"] else t
        if sp["state"] in ("a", "i"):
            return "some (%s, %s)" % (st.a if sp["state"] == "a" else st.i, t)
        return "some (%s, %s)" % (st.pair_term(), t)

    def val_term(self, v):
        if v.ty in ("ptr", "elems", "nat", "ite") or v.ty.startswith("opt"):
            return v.t
        if v.ty == "elem":
            return elem_term(v)
        if v.ty in ("bool", "prop"):
            return to_bool(v)
        if v.ty == "unit":
            return "()"
        raise Untranslatable("value of type %s returned" % v.ty)

    def mk_ret_k(self):
        def k(v, env, st):
            return self.ret_text(v, st)
        k.tail = True
        return k

    def bind_part(self, term, base, ty, env, st, k):
        """partial step"""
        if term in env.get("%part", {}):
            return k(env["%part"][term], env, st)
        if self.pure_mode:
            raise Impure()
        if getattr(k, "tail", False) and self.spec["ret"] != "state" and ty == self.spec["rty"]:
            self.none()
            if self.spec["state"] is None or self.spec["ret"] == "val":
                return term
            s = st.a if self.spec["state"] == "a" else st.pair_term()
            return "(%s).map fun r => (%s, r)" % (term, s)
        cache = env.setdefault("%part", {})
        if term in cache:
            return k(cache[term], env, st)
        base = getattr(self, "hint", None) or base
        self.hint = None
        x = self.ctx.fresh(base, LEAN_TY.get(ty))
        v = Val(ty, x)
        env2 = env
        env2["%part"] = dict(cache)
        env2["%part"][term] = v
        return "match %s with\n| %s => %s\n| some %s =>\n%s" % (term, "none", self.none(), x, ind(k(v, env2, st)))

    def bind_st(self, mk_call, base, ty, env, st, k, which="a"):
        """state step; mk_call(state text) -> call text"""
        if self.pure_mode:
            raise Impure()
        if self.spec["state"] is None or self.spec["ret"] != "stval":
            raise Untranslatable("a call that goes through the builder state inside `%s`" % self.ctx.fname)
        if which == "ai" and self.spec["state"] != "ai":
            raise Untranslatable("ite-cache state inside `%s`" % self.ctx.fname)
        base = getattr(self, "hint", None) or base
        self.hint = None
        if which == "a":
            call = mk_call(st.a)
            if getattr(k, "tail", False) and self.spec["state"] == "a" and ty == self.spec["rty"]:
                return call
            s1 = self.ctx.fresh("st")
            x = self.ctx.fresh(base, LEAN_TY.get(ty))
            st2 = st.with_(a=s1)
            pat = "(%s, %s)" % (s1, x)
        else:
            call = mk_call(st.pair_term())
            if getattr(k, "tail", False) and ty == self.spec["rty"]:
                return call
            s1 = self.ctx.fresh("s")
            x = self.ctx.fresh(base, LEAN_TY.get(ty))
            st2 = State(s1 + ".1", s1 + ".2", s1)
            pat = "(%s, %s)" % (s1, x)
        env["%part"] = dict(env.get("%part", {}))
        return "match %s with\n| none => none\n| some %s =>\n%s" % (call, pat, ind(k(Val(ty, x), env, st2)))

    def try_pure(self, e, env, st):
        """value of `e` if it compiles without binds / control flow / mutation, else None"""
        box = []

        def k(v, env2, st2):
            box.append(v)
            return ""
        self.pure_mode += 1
        snapshot = dict(env)
        used, binders = set(self.ctx.used), dict(self.ctx.binders)
        try:
            self.ex(e, env, st, None, k)
        except Impure:
            env.clear()
            env.update(snapshot)
            self.ctx.used, self.ctx.binders = used, binders
            return None
        finally:
            self.pure_mode -= 1
        if len(box) != 1 or any(env.get(x) is not snapshot.get(x) for x in set(env) | set(snapshot) if not x.startswith("%")):
            env.clear()
            env.update(snapshot)
            return None
        return box[0]

    # ------------------------------------------------------------------ expressions
    def exs(self, es, env, st, fl, k, acc=None):
        acc = acc or []
        if not es:
            return k(acc, env, st)
        return self.ex(es[0], env, st, fl, lambda v, env2, st2: self.exs(es[1:], env2, st2, fl, k, acc + [v]))

    def ex(self, e, env, st, fl, k):
        kind = e[0]
        if kind == "id":
            if e[1] in env:
                return k(env[e[1]], env, st)
            if e[1] == "self":
                return k(Val("self"), env, st)
            if e[1] in env:
                return k(env[e[1]], env, st)
            if e[1] in PTR_CTORS:
                return k(Val("ptr", "Ptr." + PTR_CTORS[e[1]]), env, st)
            if e[1] == "None":
                return k(Val("opt:ptr", "none"), env, st)
            if re.match(r"^[A-Z][A-Z0-9_]*$", e[1]):
                # `const NAME: usize = <literal>;` of the same file
                t = self.ctx.toks
                for j in range(len(t) - 6):
                    if t[j][1] == "const" and t[j + 1][1] == e[1] and t[j + 2][1] == ":":
                        jj = j + 3
                        while jj < len(t) and t[jj][1] != "=":
                            jj += 1
                        if jj + 2 < len(t) and t[jj + 1][0] == "num" and t[jj + 2][1] == ";":
                            return k(Val("nat", str(int(re.match(r"[\d_]+", t[jj + 1][1]).group(0).replace("_", "")))), env, st)
            raise Untranslatable("unknown identifier `%s`" % e[1])
        if kind == "num":
            return k(Val("nat", str(e[1])), env, st)
        if kind == "bool":
            return k(Val("bool", "true" if e[1] else "false"), env, st)
        if kind == "path":
            if e[1][-1] in PTR_CTORS and e[1][0] in ("SddPtr", "Self"):
                return k(Val("ptr", "Ptr." + PTR_CTORS[e[1][-1]]), env, st)
            raise Untranslatable("path " + "::".join(e[1]))
        if kind == "call":
            return self.call(e, env, st, fl, k)
        if kind == "mcall":
            return self.mcall(e, env, st, fl, k)
        if kind == "field":
            return self.ex(e[1], env, st, fl, lambda v, env2, st2: k(self.field(v, e[2]), env2, st2))
        if kind == "index":
            def k1(vs, env2, st2):
                v, i = vs
                if v.ty != "elems" or i.ty != "nat":
                    raise Untranslatable("indexing a " + v.ty)
                items = getattr(v, "items", None)
                if items is not None and re.match(r"^\d+$", i.t) and int(i.t) < len(items):
                    return k(items[int(i.t)], env2, st2)
                return self.bind_part("%s[%s]?" % (par(v.t), i.t), "e", "elem", env2, st2, k)
            return self.exs([e[1], e[2]], env, st, fl, k1)
        if kind == "un":
            if e[1] in ("&", "*"):
                return self.ex(e[2], env, st, fl, k)
            if e[1] == "!":
                def k1(v, env2, st2):
                    if v.ty == "bool":
                        return k(Val("bool", "!" + par(v.t)), env2, st2)
                    if v.ty == "prop":
                        return k(Val("prop", "¬ " + par(v.t)), env2, st2)
                    raise Untranslatable("`!` on " + v.ty)
                return self.ex(e[2], env, st, fl, k1)
            raise Untranslatable("unary " + e[1])
        if kind == "bin":
            return self.binop(e, env, st, fl, k)
        if kind == "tuple":
            if not e[1]:
                return k(Val("unit"), env, st)
            return self.exs(e[1], env, st, fl, lambda vs, env2, st2: k(Val("tuple", items=vs), env2, st2))
        if kind == "array" or (kind == "macro" and e[1] == "vec"):
            es = e[1] if kind == "array" else e[2]

            def k1(vs, env2, st2):
                if any(v.ty != "elem" for v in vs):
                    raise Untranslatable("array of non-elements")
                return k(Val("elems", "[" + ", ".join(elem_term(v) for v in vs) + "]", items=vs), env2, st2)
            return self.exs(es, env, st, fl, k1)
        if kind == "macro":
            if e[1] in ("panic", "unreachable", "unimplemented", "todo"):
                return self.none()
            if e[1] in ("debug_assert", "println", "eprintln"):
                return k(Val("unit"), env, st)
            raise Untranslatable("macro %s!" % e[1])
        if kind == "matches":
            def k1(v, env2, st2):
                alts = self.pat_alts(e[2], v, {})
                if any(b for _, b, _ in alts):
                    pass
                t = "match %s with %s | %s => false" % (self.scrut_term(v), " ".join("| %s => true" % p for p, _, _ in alts),
                                                        self.wild_for(v))
                return k(Val("bool", "(" + t + ")"), env2, st2)
            return self.ex(e[1], env, st, fl, k1)
        if kind == "if":
            return self.if_(e, env, st, fl, k)
        if kind == "match":
            return self.match_(e, env, st, fl, k)
        if kind == "block":
            return self.stmts(e[1], e[2], env, st, fl, k)
        if kind == "closure":
            return k(Val("closure", params=e[1], body=e[2], env=dict(env)), env, st)
        if kind == "return":
            if self.pure_mode:
                raise Impure()
            if e[1] is None:
                return fl.ret(Val("unit"), env, st)
            return self.ex(e[1], env, st, fl, fl.ret)
        if kind == "continue":
            if self.pure_mode:
                raise Impure()
            if fl.cont is None:
                raise Untranslatable("`continue` outside a translated loop")
            return fl.cont(env, st)
        if kind == "break":
            if self.pure_mode:
                raise Impure()
            if fl.brk is None:
                raise Untranslatable("`break` outside a translated loop")
            return fl.brk(env, st)
        if kind == "struct":
            raise Untranslatable("struct literal " + "::".join(e[1]))
        raise Untranslatable("expression form " + kind)

    def field(self, v, name):
        if v.ty == "self":
            if name == "should_compress":
                return Val("bool", "cmpr")
            if name not in ("app_cache", "ite_cache", "vtree", "bdd_tbl", "sdd_tbl") and not name.startswith("num_"):
                note = "field `self.%s` (no counterpart in the model's builder state)" % name
                if note not in self.ctx.new_state:
                    self.ctx.new_state.append(note)
                return Val("opaque", "NEWSTATE")
            return Val("selffield", name=name)
        if v.ty == "elem" and name in ("prime", "sub"):
            return elem_parts(v)[0 if name == "prime" else 1]
        if v.ty == "tuple" and re.match(r"^\d+$", name):
            return v.items[int(name)]
        raise Untranslatable("field .%s of %s" % (name, v.ty))

    def binop(self, e, env, st, fl, k):
        op = e[1]
        if op in ("&&", "||"):
            # the right operand is only evaluated conditionally: it must be pure
            def k1(a, env2, st2):
                b = self.try_pure(e[3], env2, st2)
                if b is None:
                    if self.pure_mode:
                        raise Impure()
                    raise Untranslatable("effect / panic on the right of `%s`" % op)
                if a.ty == "bool" and b.ty == "bool":
                    return k(Val("bool", "%s %s %s" % (self.bpar(a.t, op), op, self.bpar(b.t, op))), env2, st2)
                if a.ty in ("bool", "prop") and b.ty in ("bool", "prop"):
                    sym = "∧" if op == "&&" else "∨"
                    return k(Val("prop", "%s %s %s" % (self.ppar(to_prop(a), sym), sym, self.ppar(to_prop(b), sym))), env2, st2)
                raise Untranslatable("`%s` on %s, %s" % (op, a.ty, b.ty))
            return self.ex(e[2], env, st, fl, k1)

        def k2(vs, env2, st2):
            a, b = vs
            if op in ("==", "!="):
                if a.ty != b.ty and not (a.ty in ("bool", "prop") and b.ty in ("bool", "prop")):
                    raise Untranslatable("comparison of %s and %s" % (a.ty, b.ty))
                if a.ty in ("ptr", "nat", "elems", "bool", "prop", "elem"):
                    ta, tb = (to_bool(a), to_bool(b)) if a.ty in ("bool", "prop") else (self.val_term(a), self.val_term(b))
                    return k(Val("prop", "%s %s %s" % (par(ta), "=" if op == "==" else "≠", par(tb))), env2, st2)
                raise Untranslatable("comparison of " + a.ty)
            if op in ("<", ">", "<=", ">="):
                if a.ty != "nat" or b.ty != "nat":
                    raise Untranslatable("order comparison of " + a.ty)
                return k(Val("prop", "%s %s %s" % (par(a.t), {"<=": "≤", ">=": "≥"}.get(op, op), par(b.t))), env2, st2)
            if op in ("+", "-", "*"):
                if a.ty != "nat" or b.ty != "nat":
                    raise Untranslatable("arithmetic on " + a.ty)
                return k(Val("nat", "(%s %s %s)" % (par(a.t), op, par(b.t))), env2, st2)
            raise Untranslatable("operator " + op)
        return self.exs([e[2], e[3]], env, st, fl, k2)

    @staticmethod
    def bpar(t, op):
        # `&&` binds tighter than `||` in both languages; parenthesise mixed operands
        if op == "&&" and "||" in re.sub(r"\([^()]*\)", "", t):
            return "(" + t + ")"
        if op == "||" and "&&" in re.sub(r"\([^()]*\)", "", t):
            return t
        return t

    @staticmethod
    def ppar(t, sym):
        flat = re.sub(r"\((?:[^()]|\([^()]*\))*\)", "", t)
        if ("∧" in flat or "∨" in flat) and not (sym in flat and ("∧" if sym == "∨" else "∨") not in flat):
            return "(" + t + ")"
        return t

    # ------------------------------------------------------------------ calls
    def call(self, e, env, st, fl, k):
        f = e[1]
        segs = f[1] if f[0] == "path" else [f[1]]
        name = segs[-1]
        head = segs[0] if len(segs) > 1 else None
        args = e[2]
        if name in ("true_ptr", "false_ptr") and not args:
            return k(Val("ptr", "Ptr.tru" if name == "true_ptr" else "Ptr.fls"), env, st)
        if name == "Var" and head in (None, "SddPtr", "Self") and len(args) == 2:
            def k1(vs, env2, st2):
                l, p = vs
                if l.ty != "nat" or p.ty not in ("bool", "prop"):
                    raise Untranslatable("Var of %s, %s" % (l.ty, p.ty))
                return k(Val("ptr", "(Ptr.lit %s %s)" % (par(l.t), par(to_bool(p)))), env2, st2)
            return self.exs(args, env, st, fl, k1)
        if name == "new" and head == "SddAnd" and len(args) == 2:
            def k1(vs, env2, st2):
                if vs[0].ty != "ptr" or vs[1].ty != "ptr":
                    raise Untranslatable("SddAnd::new of non-pointers")
                return k(Val("elem", pair=(vs[0], vs[1])), env2, st2)
            return self.exs(args, env, st, fl, k1)
        if name == "new" and head == "BinarySDD" and len(args) == 4:
            def k1(vs, env2, st2):
                if [v.ty for v in vs] != ["nat", "ptr", "ptr", "nat"]:
                    raise Untranslatable("BinarySDD::new argument types")
                return k(Val("bin", label=vs[0], low=vs[1], high=vs[2], index=vs[3]), env2, st2)
            return self.exs(args, env, st, fl, k1)
        if name == "new" and head == "SddOr" and len(args) == 2:
            def k1(vs, env2, st2):
                if [v.ty for v in vs] != ["elems", "nat"]:
                    raise Untranslatable("SddOr::new argument types")
                return k(Val("or", nodes=vs[0], index=vs[1]), env2, st2)
            return self.exs(args, env, st, fl, k1)
        if name == "new" and head == "Ite" and len(args) == 4:
            def k1(vs, env2, st2):
                o, f_, g, h = vs
                if o.ty != "closure" or [x.ty for x in (f_, g, h)] != ["ptr"] * 3:
                    raise Untranslatable("Ite::new arguments")
                ordt = self.order_closure(o)
                return k(Val("ite", "(Ite.new %s %s %s %s)" % (ordt, par(f_.t), par(g.t), par(h.t))), env2, st2)
            return self.exs(args, env, st, fl, k1)
        if name in ("BDD", "ComplBDD", "Reg", "Compl") and head in (None, "SddPtr", "Self") and len(args) == 1:
            def k1(v, env2, st2):
                c = "true" if name.startswith("Compl") else "false"
                if "BDD" in name and v.ty == "bin":
                    return k(Val("ptr", "(Ptr.bdd %s %s %s %s %s)" % (c, par(v.label.t), par(v.index.t), par(v.low.t), par(v.high.t))), env2, st2)
                if "BDD" not in name and v.ty == "or":
                    return k(Val("ptr", "(Ptr.dec %s %s %s)" % (c, par(v.index.t), par(v.nodes.t))), env2, st2)
                raise Untranslatable("constructor %s of %s" % (name, v.ty))
            return self.ex(args[0], env, st, fl, k1)
        if name == "Some" and len(args) == 1:
            def k1(v, env2, st2):
                if v.ty == "ptr":
                    return k(Val("opt:ptr", "some " + par(v.t), some=v), env2, st2)
                if v.ty == "elem":
                    return k(Val("opt:elem", "some " + par(elem_term(v)), some=v), env2, st2)
                raise Untranslatable("Some of " + v.ty)
            return self.ex(args[0], env, st, fl, k1)
        if head == "Vec" and name in ("new", "with_capacity"):
            if args and self.try_pure(args[0], env, st) is None:
                raise Untranslatable("capacity expression with effects")
            return k(Val("elems", "[]", items=[]), env, st)
        if head is None and name in env and env[name].ty == "closure":
            return self.inline_closure(env[name], args, env, st, fl, k)
        if head is None:
            return self.inline_free(name, args, env, st, fl, k)
        raise Untranslatable("call of " + "::".join(segs))

    def order_closure(self, c):
        """|a, b| self.vtree_manager().is_prime(a, b)  ↦  primeOrd vt"""
        ps = c.params
        b = c.body
        if (len(ps) == 2 and all(p[0] == "bind" for p in ps) and b[0] == "mcall" and b[2] == "is_prime"
                and b[1] == ("mcall", ("id", "self"), "vtree_manager", [])
                and b[3] == [("id", ps[0][1]), ("id", ps[1][1])]):
            return "(primeOrd vt)"
        raise Untranslatable("order closure of Ite::new")

    def inline_free(self, name, args, env, st, fl, k):
        """a free helper function of the same file: inline its body (no `return` inside)"""
        if self.ctx.inline_depth > 3:
            raise Untranslatable("helper nesting")
        params, ret, body = find_fn(self.ctx.toks, name)

        def k1(vs, env2, st2):
            if len(vs) != len(params):
                raise Untranslatable("arity of " + name)
            envf = {p[0]: v for p, v in zip(params, vs)}
            for key in env2:
                if key.startswith("%"):
                    envf[key] = env2[key]
            flf = Flow(ret=self.no_return)
            self.ctx.inline_depth += 1
            try:
                def kb(v, envb, stb):
                    for key in envb:
                        if key.startswith("%"):
                            env2[key] = envb[key]
                    return k(v, env2, stb)
                return self.stmts(body[1], body[2], envf, st2, flf, kb)
            finally:
                self.ctx.inline_depth -= 1
        return self.exs(args, env, st, fl, k1)

    def inline_closure(self, c, args, env, st, fl, k):
        """call of a closure held in a local: its body with the parameters bound (captured variables as they were
        when the closure was made; closures here never capture by mutable reference)"""
        if self.ctx.inline_depth > 3:
            raise Untranslatable("closure nesting")

        def k1(vs, env2, st2):
            if len(vs) != len(c.params):
                raise Untranslatable("closure arity")
            envc = dict(c.env)
            for key in env2:
                if key.startswith("%"):
                    envc[key] = env2[key]
            for pat, v in zip(c.params, vs):
                self.bindpat(pat, v, envc)
            self.ctx.inline_depth += 1
            try:
                def kb(v, envb, stb):
                    for key in envb:
                        if key.startswith("%"):
                            env2[key] = envb[key]
                    return k(v, env2, stb)
                return self.ex(c.body, envc, st2, Flow(ret=self.no_return), kb)
            finally:
                self.ctx.inline_depth -= 1
        return self.exs(args, env, st, fl, k1)

    def closure1(self, c, elem_ty, env, st):
        """a one-parameter closure applied to a fresh Lean variable: (variable, pure body value)"""
        if c[0] != "closure" or len(c[1]) != 1:
            raise Untranslatable("iterator adaptor without a one-parameter closure")
        x = self.ctx.fresh(c[1][0][1] if c[1][0][0] == "bind" else "x")
        envc = dict(env)
        self.bindpat(c[1][0], Val(elem_ty, x), envc)
        b = self.try_pure(c[2], envc, st)
        if b is None:
            if self.pure_mode:
                raise Impure()
            raise Untranslatable("closure of an iterator adaptor with effects / panics")
        return x, b

    @staticmethod
    def no_return(v, env, st):
        raise Untranslatable("`return` inside an inlined helper")

    def mcall(self, e, env, st, fl, k):
        recv, name, args = e[1], e[2], e[3]
        # statistics counters and cache cells
        return self.ex(recv, env, st, fl, lambda rv, env2, st2: self.mcall2(rv, name, args, e, env2, st2, fl, k))

    def mcall2(self, rv, name, args, e, env, st, fl, k):
        ty = rv.ty
        if ty == "self":
            return self.selfcall(name, args, env, st, fl, k)
        if ty == "selffield":
            if name in ("borrow", "borrow_mut") and not args:
                return k(Val("cell", name=rv.name), env, st)
            raise Untranslatable("self.%s.%s" % (rv.name, name))
        if ty == "cell":
            return self.cellcall(rv.name, name, args, env, st, fl, k)
        if ty == "opaque":
            # a container the model does not have: its arguments must still be readable; the results are placeholders
            # (the generated text of this function is discarded: status DIFFERS)
            def ko(vs, env2, st2):
                if name in ("borrow", "borrow_mut", "as_ref", "as_mut", "iter", "clone", "lock", "unwrap", "get_mut_or_default"):
                    return k(Val("opaque", "NEWSTATE"), env2, st2)
                if name in ("get", "remove", "get_mut", "pop", "take", "cloned", "copied"):
                    return k(Val("opt:ptr", "NEWSTATE"), env2, st2)
                if name in ("insert", "push", "clear", "set", "replace", "extend", "truncate"):
                    if self.pure_mode:
                        raise Impure()
                    return k(Val("unit"), env2, st2)
                if name in ("contains_key", "contains", "is_empty", "is_some", "is_none"):
                    return k(Val("bool", "NEWSTATE"), env2, st2)
                if name in ("len", "count"):
                    return k(Val("nat", "NEWSTATE"), env2, st2)
                raise Untranslatable("method .%s on new builder state" % name)
            return self.exs(args, env, st, fl, ko)
        if ty == "vtm":
            return self.vtmcall(name, args, env, st, fl, k)
        if ty == "vtnode":
            if name == "is_right_linear" and not args:
                return k(Val("bool", "vt.isRLAt " + par(rv.idx.t)), env, st)
            raise Untranslatable("vtree node method " + name)
        if ty == "ptr":
            t = par(rv.t)
            simple = {"neg": ("ptr", "%s.neg"), "is_neg": ("bool", "%s.isNeg"), "is_true": ("bool", "%s.isTrue"),
                      "is_false": ("bool", "%s.isFalse"), "is_neg_var": ("bool", "%s.isNegVar"),
                      "is_bdd": ("bool", "%s.isBdd"), "is_const": ("bool", "(%s.isTrue || %s.isFalse)")}
            if name in simple and not args:
                rty, fmt = simple[name]
                txt = fmt.replace("%s", t)
                if name == "neg" and not re.match(r"^[A-Za-z0-9_.']+$", t):
                    txt = "(Ptr.neg %s)" % t
                elif not re.match(r"^[A-Za-z0-9_.']+$", t):
                    txt = "(Ptr.%s %s)" % (fmt.split(".")[-1], t) if name != "is_const" else "(Ptr.isTrue %s || Ptr.isFalse %s)" % (t, t)
                return k(Val(rty, txt), env, st)
            part = {"low": ("ptr", "Ptr.low? %s", "lo"), "high": ("ptr", "Ptr.high? %s", "hi"),
                    "node_iter": ("elems", "Ptr.nodeIter? %s", "es"), "vtree": ("nat", "TieSddCoreAux.vtree? %s", "idx")}
            if name in part and not args:
                rty, fmt, base = part[name]
                return self.bind_part(fmt % t, base, rty, env, st, k)
            if name in ("clone",):
                return k(rv, env, st)
            raise Untranslatable("SddPtr method " + name)
        if ty == "elem":
            if name in ("prime", "sub") and not args:
                return k(elem_parts(rv)[0 if name == "prime" else 1], env, st)
            raise Untranslatable("SddAnd method " + name)
        if ty == "bin":
            if name in ("label", "low", "high", "index") and not args:
                return k(getattr(rv, name), env, st)
            raise Untranslatable("BinarySDD method " + name)
        if ty == "or":
            if name == "iter" and not args:
                return k(rv.nodes, env, st)
            if name == "index" and not args:
                return k(rv.index, env, st)
            raise Untranslatable("SddOr method " + name)
        if ty == "ite":
            if name == "is_compl_choice" and not args:
                return k(Val("bool", "TieSddCoreAux.isComplChoice " + par(rv.t)), env, st)
            raise Untranslatable("Ite method " + name)
        if ty.startswith("opt"):
            if name in ("cloned", "copied") and not args:
                return k(rv, env, st)
            raise Untranslatable("Option method " + name)
        if ty == "elems":
            return self.elemscall(rv, name, args, e, env, st, fl, k)
        raise Untranslatable("method .%s on %s" % (name, ty))

    def elemscall(self, rv, name, args, e, env, st, fl, k):
        if name in ("iter", "as_slice", "into_iter", "to_vec", "clone") and not args:
            return k(rv, env, st)
        if name in ("len", "count") and not args:
            return k(Val("nat", par(rv.t) + ".length"), env, st)
        if name == "is_empty" and not args:
            return k(Val("prop", "%s = []" % par(rv.t)), env, st)
        if name in ("collect", "copied", "cloned", "by_ref") and not args:
            return k(rv, env, st)
        if name in ("find", "any", "all", "filter", "position") and len(args) == 1:
            x, b = self.closure1(args[0], "elem", env, st)
            if b.ty not in ("bool", "prop"):
                raise Untranslatable("predicate closure of type " + b.ty)
            f = "(fun %s => %s)" % (x, to_bool(b))
            if name == "find":
                return k(Val("opt:elem", "List.find? %s %s" % (f, par(rv.t))), env, st)
            if name == "filter":
                return k(Val("elems", "(List.filter %s %s)" % (f, par(rv.t))), env, st)
            if name == "position":
                return k(Val("opt:nat", "List.findIdx? %s %s" % (f, par(rv.t))), env, st)
            return k(Val("bool", "List.%s %s %s" % (name, par(rv.t), f)), env, st)
        if name == "map" and len(args) == 1 and args[0][0] == "closure" and len(args[0][1]) == 1 and not self.pure_mode:
            # a closure with effects (calls back into the builder): `it.map(|a| e)` is the loop that pushes `e`
            probe = None
            try:
                probe = self.closure1(args[0], "elem", dict(env), st)
            except Untranslatable:
                probe = None
            if probe is None:
                self.ctx.nloops += 0
                tmp_it, tmp_v = self.ctx.fresh("it"), self.ctx.fresh("mapped")
                env[tmp_it] = rv
                blk = ("block", [("let", ("bind", tmp_v), ("call", ("path", ["Vec", "new"]), [])),
                                 ("for", args[0][1][0], ("id", tmp_it),
                                  ("block", [("expr", ("mcall", ("id", tmp_v), "push", [args[0][2]]))], None))],
                       ("id", tmp_v))

                def kdone(v, env2, st2):
                    env2.pop(tmp_it, None)
                    env2.pop(tmp_v, None)
                    return k(v, env2, st2)
                return self.stmts(blk[1], blk[2], env, st, fl, kdone)
        if name == "map" and len(args) == 1:
            x, b = self.closure1(args[0], "elem", env, st)
            if b.ty == "elem":
                return k(Val("elems", "(List.map (fun %s => %s) %s)" % (x, elem_term(b), par(rv.t))), env, st)
            if b.ty == "ptr":
                return k(Val("ptrs", "(List.map (fun %s => %s) %s)" % (x, b.t, par(rv.t))), env, st)
            raise Untranslatable("map to " + b.ty)
        if name in ("first", "last") and not args:
            return k(Val("opt:elem", "%s.%s" % (par(rv.t), "head?" if name == "first" else "getLast?")), env, st)
        if name == "contains" and len(args) == 1:
            def kc(v, env2, st2):
                if v.ty != "elem":
                    raise Untranslatable("contains of " + v.ty)
                return k(Val("bool", "List.contains %s %s" % (par(rv.t), par(elem_term(v)))), env2, st2)
            return self.ex(args[0], env, st, fl, kc)
        # mutation of a local vector (receiver must be a plain local)
        var = e[1][1] if e[1][0] == "id" else None
        if name == "push" and len(args) == 1 and var:
            def k1(v, env2, st2):
                if v.ty != "elem":
                    raise Untranslatable("push of " + v.ty)
                if self.pure_mode:
                    raise Impure()
                if fl is not None and fl.vec == var:
                    env2["%pending"] = env2.get("%pending", ()) + (("one", elem_term(v)),)
                    return k(Val("unit"), env2, st2)
                if fl is not None and fl.cont is not None and not getattr(fl, "acc", False):
                    raise Untranslatable("push on a second vector inside a loop")
                cur = env2[var]
                items = getattr(cur, "items", None)
                if items is not None:
                    env2[var] = Val("elems", "[" + ", ".join(elem_term(x) for x in items + [v]) + "]", items=items + [v])
                else:
                    env2[var] = Val("elems", "(%s ++ [%s])" % (cur.t, elem_term(v)))
                return k(Val("unit"), env2, st2)
            return self.ex(args[0], env, st, fl, k1)
        if name == "swap_remove" and len(args) == 1 and var:
            def ksr(i, env2, st2):
                if i.ty != "nat":
                    raise Untranslatable("swap_remove index")
                cur = env2[var]

                def kb(v, env3, st3):
                    env3[var] = v
                    return k(Val("unit"), env3, st3)
                self.hint = var
                return self.bind_part("TieSddCoreCompress.swapRemove? %s %s" % (par(cur.t), par(i.t)), var, "elems", env2, st2, kb)
            return self.ex(args[0], env, st, fl, ksr)
        if name == "sort_by_key" and len(args) == 1 and var and args[0][0] == "closure":
            c = args[0]
            if not (len(c[1]) == 1 and c[1][0][0] == "bind" and c[2] == ("mcall", ("id", c[1][0][1]), "prime", [])):
                raise Untranslatable("sort key")
            if self.pure_mode:
                raise Impure()
            env[var] = Val("elems", "(sortByPrime %s)" % par(env[var].t))
            return k(Val("unit"), env, st)
        raise Untranslatable("Vec method " + name)

    def vtmcall(self, name, args, env, st, fl, k):
        def k1(vs, env2, st2):
            tys = [v.ty for v in vs]
            if name == "lca" and tys == ["nat", "nat"]:
                return k(Val("nat", "(vt.lca 0 %s %s)" % (par(vs[0].t), par(vs[1].t))), env2, st2)
            if name == "is_prime_index" and tys == ["nat", "nat"]:
                return k(Val("prop", "%s < %s" % (par(vs[0].t), par(vs[1].t))), env2, st2)
            if name == "vtree" and tys == ["nat"]:
                return k(Val("vtnode", idx=vs[0]), env2, st2)
            if name == "var_index" and tys == ["nat"]:
                return k(Val("nat", "((vt.varIndex? 0 %s).getD 0)" % par(vs[0].t)), env2, st2)
            if name == "is_prime" and tys == ["ptr", "ptr"]:
                return k(Val("bool", "primeOrd vt %s %s" % (par(vs[0].t), par(vs[1].t))), env2, st2)
            raise Untranslatable("VTreeManager method " + name)
        return self.exs(args, env, st, fl, k1)

    def cellcall(self, cell, name, args, env, st, fl, k):
        def k1(vs, env2, st2):
            if cell == "app_cache" and name == "get" and len(vs) == 1 and vs[0].ty == "elem":
                return k(Val("opt:ptr", "A.get %s %s" % (st2.a, par(elem_term(vs[0])))), env2, st2)
            if cell == "app_cache" and name == "insert" and [v.ty for v in vs] == ["elem", "ptr"]:
                return self.upd(env2, st2.with_(a="(A.insert %s %s %s)" % (st2.a, par(elem_term(vs[0])), par(vs[1].t))), k)
            if cell == "ite_cache" and name == "get" and [v.ty for v in vs] == ["ite", "hash"]:
                return k(Val("opt:ptr", "iteCacheGet I %s %s" % (st2.i, par(vs[0].t))), env2, st2)
            if cell == "ite_cache" and name == "insert" and [v.ty for v in vs] == ["ite", "ptr", "hash"]:
                return self.upd(env2, st2.with_(i="(iteCacheInsert I %s %s %s)" % (st2.i, par(vs[0].t), par(vs[1].t))), k)
            if cell == "ite_cache" and name == "hash" and [v.ty for v in vs] == ["ite"]:
                return k(Val("hash", of=vs[0].t), env2, st2)
            raise Untranslatable("self.%s.%s" % (cell, name))
        return self.exs(args, env, st, fl, k1)

    def upd(self, env, st, k):
        if self.pure_mode:
            raise Impure()
        if (st.a is None) or (self.spec["state"] == "ai" and st.i is None):
            raise Untranslatable("cache update in a function without that state")
        return k(Val("unit"), env, st)

    def selfcall(self, name, args, env, st, fl, k):
        if name == "vtree_manager" and not args:
            return k(Val("vtm"), env, st)
        if name in ("log_recursive_call",) and not args:
            return k(Val("unit"), env, st)

        def k1(vs, env2, st2):
            tys = [v.ty for v in vs]
            t = [par(self.val_term(v)) if v.ty in ("ptr", "elems", "nat", "ite", "elem", "bool", "prop") else None for v in vs]
            if name in ("is_true", "is_false") and tys == ["ptr"]:
                f = "isTrue" if name == "is_true" else "isFalse"
                txt = "%s.%s" % (t[0], f) if re.match(r"^[A-Za-z0-9_.']+$", t[0]) else "Ptr.%s %s" % (f, t[0])
                return k(Val("bool", txt), env2, st2)
            if name in ("eq", "sdd_eq") and tys == ["ptr", "ptr"]:
                return k(Val("prop", "%s = %s" % (t[0], t[1])), env2, st2)
            if name == "negate" and tys == ["ptr"]:
                return k(Val("ptr", "%s.neg" % t[0] if re.match(r"^[A-Za-z0-9_.']+$", t[0]) else "(Ptr.neg %s)" % t[0]), env2, st2)
            if name == "var" and tys[:1] == ["nat"] and len(vs) == 2 and tys[1] in ("bool", "prop"):
                return k(Val("ptr", "(Ptr.lit %s %s)" % (t[0], t[1])), env2, st2)
            if name in ("true_ptr", "false_ptr") and not vs:
                return k(Val("ptr", "Ptr.tru" if name == "true_ptr" else "Ptr.fls"), env2, st2)
            if name == "unique_bdd" and tys == ["bin"]:
                b = vs[0]
                return k(Val("ptr", "(uniqueBdd %s %s %s %s)" % tuple(par(x.t) for x in (b.label, b.low, b.high, b.index))), env2, st2)
            if name == "get_or_insert_bdd" and tys == ["bin"]:
                b = vs[0]
                return k(Val("ptr", "(Ptr.bdd false %s %s %s %s)" % tuple(par(x.t) for x in (b.label, b.index, b.low, b.high))), env2, st2)
            if name == "get_or_insert_sdd" and tys == ["or"]:
                return k(Val("ptr", "(Ptr.dec false %s %s)" % (par(vs[0].index.t), par(vs[0].nodes.t))), env2, st2)
            if name == "vtree_index" and tys == ["ptr"]:
                return k(Val("nat", "(vtreeIndex vt %s)" % t[0]), env2, st2)
            if name == "canonicalize_base_case" and tys == ["elems"]:
                return k(Val("opt:ptr", "canonBase? %s" % t[0]), env2, st2)
            if name == "unique_or" and tys == ["elems", "nat"]:
                return self.bind_part("uniqueOr %s %s" % (t[0], t[1]), "r", "ptr", env2, st2, k)
            if name == "and_indep" and tys == ["ptr", "ptr", "nat"]:
                return self.bind_part("andIndep vt %s %s %s" % tuple(t), "r", "ptr", env2, st2, k)
            if name in ("and", "or") and tys == ["ptr", "ptr"]:
                f = "andF" if name == "and" else "orF andF"
                return self.bind_st(lambda s: "%s %s %s %s" % (f, s, t[0], t[1]), "r", "ptr", env2, st2, k)
            if name == "canonicalize" and tys == ["elems", "nat"]:
                return self.bind_st(lambda s: "canonicalize cmpr andF %s %s %s" % (s, t[0], t[1]), "r", "ptr", env2, st2, k)
            if name == "and_cartesian" and tys == ["ptr", "ptr", "nat"]:
                return self.bind_st(lambda s: "andCartesian vt cmpr andF %s %s %s %s" % (s, t[0], t[1], t[2]), "r", "ptr", env2, st2, k)
            if name in ("and_sub_desc", "and_prime_desc") and tys == ["ptr", "ptr"]:
                f = "andSubDesc" if name == "and_sub_desc" else "andPrimeDesc"
                return self.bind_st(lambda s: "%s cmpr andF %s %s %s" % (f, s, t[0], t[1]), "r", "ptr", env2, st2, k)
            if name == "condition" and tys[:2] == ["ptr", "nat"] and len(vs) == 3 and tys[2] in ("bool", "prop"):
                return self.bind_st(lambda s: "condF %s %s %s %s" % (s, t[0], t[1], t[2]), "r", "ptr", env2, st2, k)
            if name == "exists" and tys == ["ptr", "nat"]:
                return self.bind_st(lambda s: "existsF %s %s %s" % (s, t[0], t[1]), "r", "ptr", env2, st2, k)
            if name == "ite" and tys == ["ptr"] * 3:
                return self.bind_st(lambda s: "iteF %s %s %s %s" % (s, t[0], t[1], t[2]), "r", "ptr", env2, st2, k, which="ai")
            if name == "iff" and tys == ["ptr"] * 2:
                return self.bind_st(lambda s: "iffF %s %s %s" % (s, t[0], t[1]), "r", "ptr", env2, st2, k, which="ai")
            if name in ("app_cache_get", "app_cache_insert") and "A" not in ctx_names(self.spec["ctx"]):
                note = "the apply cache (`self.%s`) is used directly; the model definition only reaches it through `and`" % name
                if note not in self.ctx.new_state:
                    self.ctx.new_state.append(note)
            if name in ("ite_cache_get", "ite_cache_insert", "ite_cache_hash") and "I" not in ctx_names(self.spec["ctx"]):
                note = "the ite cache (`self.%s`) is used; the model definition does not thread it" % name
                if note not in self.ctx.new_state:
                    self.ctx.new_state.append(note)
                if name == "ite_cache_hash":
                    return k(Val("hash", of=vs[0].t), env2, st2)
                if name == "ite_cache_get":
                    return k(Val("opt:ptr", "NEWSTATE"), env2, st2)
                return k(Val("unit"), env2, st2)
            if name == "app_cache_get" and tys == ["elem"]:
                if st2.a is None:
                    raise Untranslatable("apply cache outside a stateful function")
                return k(Val("opt:ptr", "A.get %s %s" % (st2.a, t[0])), env2, st2)
            if name == "app_cache_insert" and tys == ["elem", "ptr"]:
                if st2.a is None:
                    raise Untranslatable("apply cache outside a stateful function")
                return self.upd(env2, st2.with_(a="(A.insert %s %s %s)" % (st2.a, t[0], t[1])), k)
            if name == "ite_cache_hash" and tys == ["ite"]:
                return k(Val("hash", of=vs[0].t), env2, st2)
            if name == "ite_cache_get" and tys == ["ite", "hash"]:
                if vs[1].of != vs[0].t or st2.i is None:
                    raise Untranslatable("ite cache probed with a foreign hash")
                return k(Val("opt:ptr", "iteCacheGet I %s %s" % (st2.i, t[0])), env2, st2)
            if name == "ite_cache_insert" and tys == ["ite", "ptr", "hash"]:
                if vs[2].of != vs[0].t or st2.i is None:
                    raise Untranslatable("ite cache filled with a foreign hash")
                return self.upd(env2, st2.with_(i="(iteCacheInsert I %s %s %s)" % (st2.i, t[0], t[1])), k)
            raise Untranslatable("self.%s(%s)" % (name, ", ".join(tys)))

        if name == "compress" and len(args) == 1 and args[0][0] == "un" and args[0][2][0] == "id":
            var = args[0][2][1]
            cur = env.get(var)
            if cur is None or cur.ty != "elems":
                raise Untranslatable("compress argument")

            def kc(v, env2, st2):
                env2[var] = v
                return k(Val("unit"), env2, st2)
            return self.bind_st(lambda s: "compress andF %s %s" % (s, par(cur.t)), var, "elems", env, st, kc)
        return self.exs(args, env, st, fl, k1)

    # ------------------------------------------------------------------ patterns
    def scrut_term(self, v):
        if v.ty == "tuple":
            return ", ".join(self.scrut_term(x) for x in v.items)
        if v.ty == "elem":
            return elem_term(v)
        if v.ty in ("bool", "prop"):
            return to_bool(v)
        if v.t is None:
            raise Untranslatable("match on a %s" % v.ty)
        return v.t

    def wild_for(self, v):
        return ", ".join(self.wild_for(x) for x in v.items) if v.ty == "tuple" else "_"

    def pat_alts(self, p, v, _unused=None):
        """alternatives [(lean pattern, {rust name: Val}, reconstructed scrutinee Val | None)]"""
        ty = v.ty
        k = p[0]
        if k == "por":
            alts = []
            for q in p[1]:
                alts += self.pat_struct(q, v)
            return self.render_alts(self.merge_flags(alts), v)
        return self.render_alts(self.pat_struct(p, v), v)

    def pat_struct(self, p, v):
        """structured alternatives: dicts"""
        ty, k = v.ty, p[0]
        if k == "por":
            out = []
            for q in p[1]:
                out += self.pat_struct(q, v)
            return self.merge_flags(out)
        if k == "wild":
            return [dict(kind="wild")]
        if k == "bind":
            return [dict(kind="bind", name=p[1])]
        if ty == "tuple":
            if k != "ptuple" or len(p[1]) != len(v.items):
                raise Untranslatable("tuple pattern")
            combos = [[]]
            for q, item in zip(p[1], v.items):
                alts = self.pat_struct(q, item)
                combos = [c + [a] for c in combos for a in alts]
            return [dict(kind="tuple", sub=c) for c in combos]
        if k == "plit":
            return [dict(kind="lit", val=p[1])]
        if ty == "ptr" and k == "ppath":
            c = p[1][-1]
            if c in ("PtrTrue", "PtrFalse") and p[2] is None:
                return [dict(kind="tru" if c == "PtrTrue" else "fls")]
            if c == "Var" and p[2] is not None and len(p[2]) == 2:
                subs = [[]]
                for q, t in zip(p[2], ("nat", "bool")):
                    alts = self.pat_struct(q, Val(t, "?"))
                    subs = [s + [a] for s in subs for a in alts]
                return [dict(kind="var", sub=s) for s in subs]
            if c in ("BDD", "ComplBDD", "Reg", "Compl") and p[2] is not None and len(p[2]) == 1 and p[2][0][0] in ("wild", "bind"):
                return [dict(kind="bdd" if "BDD" in c else "dec", flag=c.startswith("Compl"),
                             name=p[2][0][1] if p[2][0][0] == "bind" else None)]
        if ty.startswith("opt") and k == "ppath":
            if p[1][-1] == "None" and p[2] is None:
                return [dict(kind="none")]
            if p[1][-1] == "Some" and p[2] is not None and len(p[2]) == 1:
                return [dict(kind="some", sub=a) for a in self.pat_struct(p[2][0], Val(ty[4:], "?"))]
        if ty == "elems" and k == "pslice":
            if all(q[0] in ("wild", "bind") for q in p[1]):
                return [dict(kind="slice", sub=[self.pat_struct(q, Val("elem", "?"))[0] for q in p[1]])]
        if ty == "ite" and k == "ppath" and p[1][-1] == "IteConst" and p[2] is not None and len(p[2]) == 1:
            return [dict(kind="iteconst", sub=self.pat_struct(p[2][0], Val("ptr", "?"))[0])]
        if ty == "ite" and k == "pstruct" and p[1][-1] in ("IteChoice", "IteComplChoice"):
            fs = dict(p[2])
            if set(fs) != {"f", "g", "h"}:
                raise Untranslatable("Ite struct pattern")
            return [dict(kind="itechoice", compl=p[1][-1] == "IteComplChoice",
                         sub=[self.pat_struct(fs[x], Val("ptr", "?"))[0] for x in "fgh"])]
        raise Untranslatable("pattern %s on a %s" % (k, ty))

    @staticmethod
    def merge_flags(alts):
        out = []
        for a in alts:
            if a["kind"] in ("bdd", "dec"):
                twin = [b for b in out if b["kind"] == a["kind"] and b.get("name") == a.get("name")
                        and b.get("flag") is not None and b["flag"] != a["flag"]]
                if twin:
                    twin[0]["flag"] = None
                    continue
            out.append(dict(a))
        return out

    def render_alts(self, alts, v):
        return [self.render(a, v.ty, v) for a in alts]

    def render(self, a, ty, v=None):
        """-> (text, binds, recon Val|None)"""
        k = a["kind"]
        fr = self.ctx.fresh
        if k == "wild":
            return (self.wild_for(v) if (v is not None and ty == "tuple") else "_"), {}, None
        if k == "bind":
            if ty == "elem":
                x = fr(a["name"], "Elem")
                val = Val("elem", x)
            elif ty in LEAN_TY:
                x = fr(a["name"], LEAN_TY[ty])
                val = Val(ty, x)
            elif ty in ("tuple", "bin", "or"):
                return "_", {a["name"]: v}, None       # irrefutable rename of a symbolic value
            else:
                raise Untranslatable("binding a " + ty)
            return x, {a["name"]: val}, val
        if k == "lit":
            val = a["val"]
            return ("true" if val is True else "false" if val is False else str(val)), {}, None
        if k == "tuple":
            parts = [self.render(s, item.ty, item) for s, item in zip(a["sub"], v.items)]
            binds = {}
            for p in parts:
                binds.update(p[1])
            return ", ".join(p[0] for p in parts), binds, None
        if k in ("tru", "fls"):
            return "." + k, {}, Val("ptr", "Ptr." + k)
        if k == "var":
            l = self.render(a["sub"][0], "nat")
            p = self.render(a["sub"][1], "bool")
            binds = dict(l[1])
            binds.update(p[1])
            recon = None
            if "_" not in (l[0], p[0]):
                recon = Val("ptr", "(Ptr.lit %s %s)" % (l[0], p[0]))
            return ".lit %s %s" % (l[0], p[0]), binds, recon
        if k in ("bdd", "dec"):
            flag = a["flag"]
            c = fr("c", "Bool") if flag is None else ("true" if flag else "false")
            if a["name"] is None and k == "bdd":
                return ".bdd %s _ _ _ _" % ("_" if flag is None else c), {}, None
            if a["name"] is None:
                return ".dec %s _ _" % ("_" if flag is None else c), {}, None
            if k == "bdd":
                l, i, lo, hi = fr("l", "Nat"), fr("i", "Nat"), fr("lo", "Ptr"), fr("hi", "Ptr")
                val = Val("bin", label=Val("nat", l), low=Val("ptr", lo), high=Val("ptr", hi), index=Val("nat", i))
                return ".bdd %s %s %s %s %s" % (c, l, i, lo, hi), {a["name"]: val}, \
                    Val("ptr", "(Ptr.bdd %s %s %s %s %s)" % (c, l, i, lo, hi))
            i, es = fr("i", "Nat"), fr("es", "List Elem")
            val = Val("or", nodes=Val("elems", es), index=Val("nat", i))
            return ".dec %s %s %s" % (c, i, es), {a["name"]: val}, Val("ptr", "(Ptr.dec %s %s %s)" % (c, i, es))
        if k == "none":
            return "none", {}, None
        if k == "some":
            inner = self.render(a["sub"], ty[4:])
            return "some " + par(inner[0]), inner[1], None
        if k == "slice":
            parts = [self.render(s, "elem") for s in a["sub"]]
            binds = {}
            for p in parts:
                binds.update(p[1])
            recon = None
            if all(p[2] is not None for p in parts):
                recon = Val("elems", "[" + ", ".join(p[0] for p in parts) + "]", items=[p[2] for p in parts])
            return "[" + ", ".join(p[0] for p in parts) + "]", binds, recon
        if k == "iteconst":
            inner = self.render(a["sub"], "ptr")
            return ".const " + inner[0], inner[1], None
        if k == "itechoice":
            parts = [self.render(s, "ptr") for s in a["sub"]]
            binds = {}
            for p in parts:
                binds.update(p[1])
            return ".%s %s" % ("complChoice" if a["compl"] else "choice", " ".join(p[0] for p in parts)), binds, None
        raise Untranslatable("pattern kind " + k)

    @staticmethod
    def irrefutable(text):
        return all(re.match(r"^[a-z_][A-Za-z0-9_']*$", x.strip()) and x.strip() not in ("none", "true", "false")
                   for x in text.split(","))

    # ------------------------------------------------------------------ if / match
    def if_(self, e, env, st, fl, k):
        cond, th, el = e[1], e[2], e[3]
        if cond[0] == "let":
            arms = [(cond[1], None, th), (("wild",), None, el if el is not None else ("tuple", []))]
            return self.match_(("match", cond[2], arms), env, st, fl, k)
        # value form
        if el is not None:
            c = self.try_pure(cond, env, st)
            if c is not None and c.ty in ("bool", "prop"):
                a = self.try_pure(th, dict(env), st)
                b = self.try_pure(el, dict(env), st)
                if a is not None and b is not None and a.ty == b.ty and a.ty in ("ptr", "nat", "elems"):
                    return k(Val(a.ty, "(if %s then %s else %s)" % (as_prop(c), a.t, b.t)), env, st)
                if a is not None and b is not None and a.ty == "elem" and b.ty == "elem":
                    return k(Val("elem", "(if %s then %s else %s)" % (as_prop(c), elem_term(a), elem_term(b))), env, st)
                if a is not None and b is not None and a.ty in ("bool", "prop") and b.ty in ("bool", "prop"):
                    return k(Val("bool", "(if %s then %s else %s)" % (as_prop(c), to_bool(a), to_bool(b))), env, st)
        if self.pure_mode:
            raise Impure()
        if cond[0] == "bin" and cond[1] in ("&&", "||") and self.try_pure(cond, dict(env), st) is None \
                and self.try_pure(cond[2], dict(env), st) is not None:
            # short-circuit with a partial right operand: `if a && b {T} else {E}` = `if a { if b {T} else {E} } else {E}`
            els = el if el is not None else ("block", [], None)
            if cond[1] == "&&":
                return self.if_(("if", cond[2], ("block", [], ("if", cond[3], th, els)), els), env, st, fl, k)
            return self.if_(("if", cond[2], th, ("block", [], ("if", cond[3], th, els))), env, st, fl, k)
        # `if v.len() == k { .. }`  ->  match on the shape of the list
        lk = self.len_known(cond, env)
        if lk is not None:
            if lk:
                return self.block(th, env, st, fl, k)
            return self.block(el, env, st, fl, k) if el is not None else k(Val("unit"), env, st)
        lg = self.len_guard(cond, env)
        if lg:
            var, n = lg
            items, names = [], []
            for j in range(n):
                p, s = self.ctx.fresh("p%d" % j, "Ptr"), self.ctx.fresh("s%d" % j, "Ptr")
                items.append(Val("elem", pair=(Val("ptr", p), Val("ptr", s))))
                names.append("(%s, %s)" % (p, s))
            lit = "[" + ", ".join(names) + "]"
            env_t = dict(env)
            env_t[var] = Val("elems", lit, items=items, exact=True, refines=env[var])
            t1 = self.block(th, env_t, st, fl, k)
            t2 = self.block(el, dict(env), st, fl, k) if el is not None else k(Val("unit"), dict(env), st)
            return "match %s with\n| %s =>\n%s\n| _ =>\n%s" % (env[var].t, lit, ind(t1), ind(t2))

        def k1(c, env2, st2):
            if c.ty not in ("bool", "prop"):
                raise Untranslatable("condition of type " + c.ty)
            t1 = self.block(th, dict(env2), st2, fl, k)
            t2 = self.block(el, dict(env2), st2, fl, k) if el is not None else k(Val("unit"), dict(env2), st2)
            return "if %s then\n%s\nelse\n%s" % (as_prop(c), ind(t1), ind(t2))
        return self.ex(cond, env, st, fl, k1)

    def len_known(self, cond, env):
        if cond[0] == "bin" and cond[1] == "==":
            for a, b in ((cond[2], cond[3]), (cond[3], cond[2])):
                if a[0] == "mcall" and a[2] == "len" and a[1][0] == "id" and b[0] == "num":
                    v = env.get(a[1][1])
                    if v is not None and v.ty == "elems" and getattr(v, "items", None) is not None and getattr(v, "exact", False):
                        return len(v.items) == b[1]
        if cond[0] == "mcall" and cond[2] == "is_empty" and cond[1][0] == "id":
            v = env.get(cond[1][1])
            if v is not None and v.ty == "elems" and getattr(v, "items", None) is not None and getattr(v, "exact", False):
                return len(v.items) == 0
        return None

    def len_guard(self, cond, env):
        if cond[0] == "bin" and cond[1] == "==":
            for a, b in ((cond[2], cond[3]), (cond[3], cond[2])):
                if a[0] == "mcall" and a[2] == "len" and a[1][0] == "id" and b[0] == "num":
                    v = env.get(a[1][1])
                    if v is not None and v.ty == "elems" and getattr(v, "items", None) is None \
                            and re.match(r"^[A-Za-z0-9_']+$", v.t):
                        return a[1][1], b[1]
        if cond[0] == "mcall" and cond[2] == "is_empty" and cond[1][0] == "id":
            v = env.get(cond[1][1])
            if v is not None and v.ty == "elems" and getattr(v, "items", None) is None and re.match(r"^[A-Za-z0-9_']+$", v.t):
                return cond[1][1], 0
        return None

    def block(self, b, env, st, fl, k):
        """a `{ }` block (or an else-if): let-bound names do not escape"""
        if b[0] != "block":
            return self.ex(b, env, st, fl, k)
        declared = set()
        for s in b[1]:
            if s[0] == "let":
                declared |= set(pat_names(s[1]))
        outer = {n: env.get(n) for n in declared}

        def k1(v, env2, st2):
            for n, o in outer.items():
                if o is None:
                    env2.pop(n, None)
                else:
                    env2[n] = o
            return k(v, env2, st2)
        if getattr(k, "tail", False):
            k1.tail = True
        return self.stmts(b[1], b[2], env, st, fl, k1)

    def match_(self, e, env, st, fl, k):
        scrut_var = e[1][1] if e[1][0] == "id" and e[1][1] != "self" else None

        def k1(v, env2, st2):
            return self.arms(v, scrut_var, list(e[2]), env2, st2, fl, k)
        return self.ex(e[1], env, st, fl, k1)

    def arms(self, v, var, arms, env, st, fl, k):
        if self.pure_mode:
            # value form: every arm pure, no guards, scalar result
            if any(g is not None for _, g, _ in arms):
                raise Impure()
            outs, rty = [], None
            for pat, _, body in arms:
                for text, binds, recon in self.pat_alts(pat, v):
                    env_a = dict(env)
                    env_a.update(binds)
                    if var and recon is not None:
                        env_a[var] = recon
                    r = self.try_pure(body, env_a, st)
                    if r is None or r.ty not in ("ptr", "nat", "bool", "prop"):
                        raise Impure()
                    ty = "bool" if r.ty == "prop" else r.ty
                    if rty not in (None, ty):
                        raise Impure()
                    rty = ty
                    outs.append("| %s => %s" % (text, to_bool(r) if ty == "bool" else r.t))
            return k(Val(rty, "(match %s with %s)" % (self.scrut_term(v), " ".join(outs))), env, st)
        if not arms:
            raise Untranslatable("non-exhaustive match")
        guards = any(g is not None for _, g, _ in arms)
        if not guards:
            out = ["match %s with" % self.scrut_term(v)]
            for idx, (pat, _, body) in enumerate(arms):
                alts = self.pat_alts(pat, v)
                for text, binds, recon in alts:
                    env_a = dict(env)
                    env_a.update(binds)
                    if var and recon is not None:
                        recon.refines = env.get(var)
                        env_a[var] = recon
                    if self.irrefutable(text) and idx == 0 and len(arms) == 1:
                        return self.block(body, env_a, st, fl, k)
                    if v.ty.startswith("opt") and text == "_" and idx == len(arms) - 1 and len(arms) == 2:
                        first = self.pat_alts(arms[0][0], v)[0][0]
                        text = "none" if first.startswith("some") else text
                    out.append("| %s =>\n%s" % (text, ind(self.block(body, env_a, st, fl, k))))
                if any(self.irrefutable(t) for t, _, _ in alts):
                    break
            return "\n".join(out)
        # guards: arm by arm, falling through to the remaining arms
        pat, guard, body = arms[0]
        alts = self.pat_alts(pat, v)
        rest = memo(lambda: self.arms(v, var, arms[1:], dict(env), st, fl, k))
        return self.alt_chain(alts, pat, guard, body, v, var, env, st, fl, k, rest)

    def alt_chain(self, alts, pat, guard, body, v, var, env, st, fl, k, rest):
        if not alts:
            return rest()
        text, binds, recon = alts[0]
        nxt = memo(lambda: self.alt_chain(alts[1:], pat, guard, body, v, var, env, st, fl, k, rest))
        env_a = dict(env)
        env_a.update(binds)
        if var and recon is not None:
            recon.refines = env.get(var)
            env_a[var] = recon
        if v.ty == "tuple" and self.irrefutable(text) and len(alts) == 1:
            # bind by substitution: no Lean match needed
            env_a = dict(env)
            env_a.update(self.irrefutable_subst(pat, v))
            return self.guarded(guard, body, env_a, st, fl, k, nxt)
        if self.irrefutable(text):
            inner = self.guarded(guard, body, env_a, st, fl, k, nxt)
            if text == "_":
                return inner
            return "match %s with\n| %s =>\n%s" % (self.scrut_term(v), text, ind(inner))
        inner = self.guarded(guard, body, env_a, st, fl, k, nxt)
        return "match %s with\n| %s =>\n%s\n| %s =>\n%s" % (self.scrut_term(v), text, ind(inner), self.wild_for(v), ind(nxt()))

    def irrefutable_subst(self, pat, v):
        if pat[0] == "wild":
            return {}
        if pat[0] == "bind":
            return {pat[1]: v}
        if pat[0] == "ptuple" and v.ty == "tuple":
            out = {}
            for q, item in zip(pat[1], v.items):
                out.update(self.irrefutable_subst(q, item))
            return out
        raise Untranslatable("pattern")

    def guarded(self, guard, body, env, st, fl, k, rest):
        if guard is None:
            return self.block(body, env, st, fl, k)
        g = self.try_pure(guard, env, st)
        if g is None or g.ty not in ("bool", "prop"):
            raise Untranslatable("match guard with effects")
        return "if %s then\n%s\nelse\n%s" % (as_prop(g), ind(self.block(body, env, st, fl, k)), ind(rest()))

    # ------------------------------------------------------------------ statements
    def bindpat(self, pat, v, env):
        k = pat[0]
        if k == "wild":
            return
        if k == "bind":
            env[pat[1]] = v
            return
        if k == "ptuple" and v.ty == "tuple" and len(pat[1]) == len(v.items):
            for q, item in zip(pat[1], v.items):
                self.bindpat(q, item, env)
            return
        raise Untranslatable("refutable / unsupported `let` pattern")

    def stmts(self, ss, tail, env, st, fl, k):
        if not ss:
            if tail is None:
                return k(Val("unit"), env, st)
            return self.ex(tail, env, st, fl, k)
        s = ss[0]

        def rest(env2, st2):
            return self.stmts(ss[1:], tail, env2, st2, fl, k)
        kind = s[0]
        if kind == "let":
            pat, e = s[1], s[2]
            if e is None:
                raise Untranslatable("`let` without initialiser")
            v = self.try_pure(e, env, st)
            if v is not None:
                self.bindpat(pat, v, env)
                return rest(env, st)
            if self.pure_mode:
                raise Impure()
            self.hint = pat[1] if pat[0] == "bind" else None
            if e[0] in ("if", "match") and pat[0] == "bind" and not has_ctrl(e) and self.spec["partial"]:
                m = self.mval(e, env, st)
                if m is not None:
                    text, ty = m

                    def kb(v2, env2, st2):
                        self.bindpat(pat, v2, env2)
                        return rest(env2, st2)
                    x = self.ctx.fresh(pat[1], LEAN_TY.get(ty))
                    if self.spec["state"] is None or self.spec["ret"] == "val":
                        return "match %s with\n| none => none\n| some %s =>\n%s" % (text, x, ind(kb(Val(ty, x), env, st)))
                    if self.spec["state"] == "a":
                        s1 = self.ctx.fresh("st")
                        return "match %s with\n| none => none\n| some (%s, %s) =>\n%s" % (
                            text, s1, x, ind(kb(Val(ty, x), env, st.with_(a=s1))))
            def kl(v2, env2, st2):
                self.bindpat(pat, v2, env2)
                return rest(env2, st2)
            return self.ex(e, env, st, fl, kl)
        if kind == "expr" and s[1][0] in ("if", "match") and not self.pure_mode and ss[1:] + ([tail] if tail else []):
            shared = self.shared_k(s[1], env, st, fl, rest)
            if shared is not None:
                return shared
        if kind == "expr":
            return self.ex(s[1], env, st, fl, lambda v, env2, st2: rest(env2, st2))
        if kind == "for":
            if self.pure_mode:
                raise Impure()
            if s[2][0] == "range":
                return self.state_loop("for", s[2], s[1], s[3], env, st, fl, rest)
            return self.for_(s[1], s[2], s[3], env, st, fl, rest)
        if kind == "while":
            if self.pure_mode:
                raise Impure()
            if s[1][0] == "let":
                raise Untranslatable("`while let`")
            return self.state_loop("while", s[1], None, s[2], env, st, fl, rest)
        if kind == "assign":
            if self.pure_mode:
                raise Impure()
            op, lhs, rhs = s[1], s[2], s[3]
            if (lhs[0] == "un" and lhs[1] == "*" and lhs[2][0] == "mcall" and lhs[2][2] == "borrow_mut"
                    and lhs[2][1][0] == "field" and lhs[2][1][1] == ("id", "self") and lhs[2][1][2].startswith("num_")):
                return rest(env, st)          # statistics counter
            if lhs[0] == "id" and lhs[1] in env and op == "=":
                def ka(v, env2, st2):
                    if v.ty == "prop" and env2[lhs[1]].ty == "bool":
                        v = Val("bool", to_bool(v))
                    if v.ty != env2[lhs[1]].ty:
                        raise Untranslatable("assignment changes the type")
                    env2[lhs[1]] = v
                    return rest(env2, st2)
                return self.ex(rhs, env, st, fl, ka)
            if lhs[0] == "id" and lhs[1] in env and op in ("+=", "-=") and env[lhs[1]].ty == "nat":
                def kp(v, env2, st2):
                    if v.ty != "nat":
                        raise Untranslatable("`+=` of a " + v.ty)
                    env2[lhs[1]] = Val("nat", "(%s %s %s)" % (par(env2[lhs[1]].t), op[0], par(v.t)))
                    return rest(env2, st2)
                return self.ex(rhs, env, st, fl, kp)
            if lhs[0] == "index" and lhs[1][0] == "id" and lhs[1][1] in env and op == "=" \
                    and env[lhs[1][1]].ty == "elems":
                # v[i] = e : evaluate e, then i (bounds check = panic), then store
                var = lhs[1][1]

                def ki(vs, env2, st2):
                    v, i = vs
                    if v.ty != "elem" or i.ty != "nat":
                        raise Untranslatable("indexed store of %s at %s" % (v.ty, i.ty))
                    cur = env2[var]

                    def kb(_e, env3, st3):
                        env3[var] = Val("elems", "(%s.set %s %s)" % (par(cur.t), par(i.t), elem_term(v)))
                        return rest(env3, st3)
                    return self.bind_part("%s[%s]?" % (par(cur.t), i.t), "e", "elem", env2, st2, kb)
                return self.exs([rhs, lhs[2]], env, st, fl, ki)
            raise Untranslatable("assignment to this place")
        raise Untranslatable("statement " + kind)

    def shared_k(self, e, env, st, fl, rest):
        """a branching statement several of whose branches fall through unchanged: compile the rest once"""
        ctx = self.ctx
        snap = (list(ctx.loops), ctx.nloops)
        calls = []
        PH = "\x01K\x01"

        def kprobe(v, env2, st2):
            calls.append((env2, st2))
            return PH
        entry = dict(env)
        try:
            text = self.ex(e, dict(env), st, fl, kprobe)
        except (Untranslatable, Impure, NeedPartial):
            ctx.loops, ctx.nloops = snap
            return None

        def clean(env2, st2):
            if (st2.a, st2.i) != (st.a, st.i) or env2.get("%pending", ()) != entry.get("%pending", ()):
                return False
            for key, val in entry.items():
                if key.startswith("%"):
                    continue
                v2 = env2.get(key)
                while v2 is not val and v2 is not None and getattr(v2, "refines", None) is not None:
                    v2 = v2.refines
                if v2 is not val:
                    return False
            return True
        if len(calls) < 2 or not all(clean(*c) for c in calls):
            ctx.loops, ctx.nloops = snap
            return None
        ktext = rest(dict(env), st)
        if "_loop" not in ktext and ktext.count("\n") < 12:
            ctx.loops, ctx.nloops = snap
            return None
        kname = ctx.fresh("k")
        text = text.replace(PH, kname + " ()")
        return "let %s : Unit → %s := fun _ =>\n%s\n%s" % (kname, self.rtype, ind(ktext), text)

    def mval(self, e, env, st):
        """`e` as a term of the monadic type of the function (no control flow inside)"""
        tys = []
        kr = self.mk_ret_k()

        def k(v, env2, st2):
            tys.append(v.ty)
            return kr(v, env2, st2)
        k.tail = True
        saved = self.spec["rty"]
        fl = Flow(ret=self.no_return)
        try:
            # the bound value is a pointer in every use of this form
            self.spec["rty"] = "ptr"
            text = self.ex(e, dict(env), st, fl, k)
        except Untranslatable:
            return None
        finally:
            self.spec["rty"] = saved
        if any(t != "ptr" for t in tys):
            return None
        return "(" + text + ")" if "\n" not in text else "(\n" + ind(text) + ")", "ptr"

    # ------------------------------------------------------------------ loops with mutable locals
    def state_loop(self, kind, head, pat, body, env, st, fl, rest):
        """`while c { .. }` / `for i in lo..hi { .. }` whose body mutates locals: a recursive definition that
        threads the builder state and the mutated locals.  `while`: fuel `wf` (a parameter of the function),
        out of fuel = none.  `for`: recursion on the number of remaining iterations."""
        ctx = self.ctx
        if st.a is None or self.spec["state"] != "a":
            raise Untranslatable("loop in a function without builder state")
        if kind == "while" and "wf" not in ctx_names(self.spec["ctx"]):
            raise Untranslatable("`while` loop in a function without a fuel parameter")
        if kind == "while" and getattr(self, "in_while", 0):
            raise Untranslatable("nested `while` loops (one fuel parameter per function: fuel accounting is outside the grammar)")
        if kind in ("for", "each") and (pat is None or pat[0] != "bind"):
            raise Untranslatable("loop pattern")
        self.none()
        muts = [n for n in mutated_vars(body) if n in env]
        for n in muts:
            if env[n].ty not in ("nat", "elems", "ptr", "bool"):
                raise Untranslatable("loop mutates a " + env[n].ty)

        def after_head(hv, env1, st1):
            ctx.nloops += 1
            lname = "%s_%s%d" % (self.spec["lean"].rstrip("?"), kind, ctx.nloops)
            outer = list(ctx.binders.keys())
            envb = dict(env1)
            envb["%pending"] = ()
            envb["%part"] = {}
            mparams = []
            for n in muts:
                x = ctx.fresh(n, LEAN_TY[env1[n].ty])
                envb[n] = Val(env1[n].ty, x)
                mparams.append(x)
            ivar = None
            if kind == "for":
                ivar = ctx.fresh(pat[1], "Nat")
                envb[pat[1]] = Val("nat", ivar)
            if kind == "each":
                if hv.ty != "elems":
                    raise Untranslatable("loop over a " + hv.ty)
                ivar = ctx.fresh(pat[1], "Elem")
                envb[pat[1]] = Val("elem", ivar)
            sig = self.spec["sigma"]
            mty = " × ".join(LEAN_TY[env1[n].ty] for n in muts) or "Unit"

            def tup(e):
                return "(" + ", ".join(e[n].t for n in muts) + ")" if muts else "()"

            def margs(e):
                return " ".join(par(e[n].t) for n in muts)
            CALL = "\x00CALL\x00"

            def cont(envc, stc):
                if envc.get("%pending"):
                    raise Untranslatable("push inside an index loop")
                if kind == "while":
                    return ("%s fuel %s %s" % (CALL, stc.a, margs(envc))).rstrip()
                if kind == "each":
                    return ("%s %s rest %s" % (CALL, stc.a, margs(envc))).rstrip()
                return ("%s k %s (%s + 1) %s" % (CALL, stc.a, ivar, margs(envc))).rstrip()

            def brk(envc, stc):
                if kind == "each":
                    return "some (%s, .inr %s)" % (stc.a, tup(envc))
                return "some (%s, %s)" % (stc.a, tup(envc))

            def ret(v, envc, stc):
                if kind == "each" and v.ty == "ptr":
                    return "some (%s, .inl %s)" % (stc.a, par(v.t))
                raise Untranslatable("`return` inside an index loop")
            flb = Flow(ret=ret, cont=cont, brk=brk, vec=None)
            flb.acc = True
            saved_rt = self.rtype
            self.rtype = "Option (%s × (%s))" % (sig, mty) if kind != "each" else "Option (%s × Sum Ptr (%s))" % (sig, mty)
            try:
                stb = State(a="st", i="st")
                if kind == "while":
                    c = self.try_pure(head, envb, stb)
                    if c is None or c.ty not in ("bool", "prop"):
                        raise Untranslatable("loop condition with effects")
                    self.in_while = getattr(self, "in_while", 0) + 1
                    try:
                        inner = self.block(body, envb, stb, flb, lambda v, envc, stc: cont(envc, stc))
                    finally:
                        self.in_while -= 1
                    body_text = "if %s then\n%s\nelse\n%s" % (as_prop(c), ind(inner), ind(brk(envb, stb)))
                else:
                    body_text = self.block(body, envb, stb, flb, lambda v, envc, stc: cont(envc, stc))
            finally:
                self.rtype = saved_rt
            free = [n for n in outer if re.search(r"(?<![A-Za-z0-9_.'])%s(?![A-Za-z0-9_'])" % re.escape(n), body_text)]
            params = " ".join("(%s : %s)" % (n, ctx.binders[n]) for n in free)
            call = " ".join([lname] + ctx_names(self.spec["ctx"]) + free)
            body_text = body_text.replace(CALL, call)
            mpat = "".join(", " + x for x in mparams)
            mtys = "".join(" → " + LEAN_TY[env1[n].ty] for n in muts)
            if kind == "while":
                ctx.loops.append("def %s %s %s : Nat → %s%s → Option (%s × (%s))\n  | 0, st%s => none\n"
                                 "  | fuel + 1, st%s =>\n%s\n" % (lname, self.spec["ctx"], params, sig, mtys, sig, mty,
                                                                  mpat, mpat, ind(body_text, 4)))
                site = "%s wf %s %s" % (call, st1.a, margs(env1))
            elif kind == "each":
                ctx.loops.append("def %s %s %s : %s → List Elem%s → Option (%s × Sum Ptr (%s))\n  | st, []%s => some (st, .inr %s)\n"
                                 "  | st, %s :: rest%s =>\n%s\n" % (lname, self.spec["ctx"], params, sig, mtys, sig, mty, mpat,
                                                                    "(" + ", ".join(mparams) + ")" if mparams else "()",
                                                                    ivar, mpat, ind(body_text, 4)))
                site = "%s %s %s %s" % (call, st1.a, par(hv.t), margs(env1))
            else:
                ctx.loops.append("def %s %s %s : Nat → %s → Nat%s → Option (%s × (%s))\n  | 0, st, %s%s => some (st, %s)\n"
                                 "  | k + 1, st, %s%s =>\n%s\n" % (lname, self.spec["ctx"], params, sig, mtys, sig, mty,
                                                                   ivar, mpat, tup(envb) if False else "(" + ", ".join(mparams) + ")" if mparams else "()",
                                                                   ivar, mpat, ind(body_text, 4)))
                lo, hi = hv
                site = "%s (%s - %s) %s %s %s" % (call, par(hi.t), par(lo.t), st1.a, par(lo.t), margs(env1))
            s2 = ctx.fresh("st")
            env2 = dict(env1)
            env2["%part"] = {}
            news = []
            for n in muts:
                x = ctx.fresh(n, LEAN_TY[env1[n].ty])
                env2[n] = Val(env1[n].ty, x)
                news.append(x)
            pat_t = "(" + ", ".join(news) + ")" if news else "_"
            if kind == "each":
                r = ctx.fresh("r", "Ptr")
                early = fl.ret(Val("ptr", r), dict(env1), st1.with_(a=s2))
                return "match %s with\n| none => none\n| some (%s, .inl %s) => %s\n| some (%s, .inr %s) =>\n%s" % (
                    site.rstrip(), s2, r, early, s2, pat_t, ind(rest(env2, st1.with_(a=s2))))
            return "match %s with\n| none => none\n| some (%s, %s) =>\n%s" % (
                site.rstrip(), s2, pat_t, ind(rest(env2, st1.with_(a=s2))))
        if kind == "each":
            return self.ex(head, env, st, fl, after_head)
        if kind == "while":
            return after_head(None, env, st)
        lo = self.try_pure(head[1], env, st)
        hi = self.try_pure(head[2], env, st)
        if lo is None or hi is None or lo.ty != "nat" or hi.ty != "nat":
            raise Untranslatable("range bounds")
        return after_head((lo, hi), env, st)

    # ------------------------------------------------------------------ loops
    def for_(self, pat, it, body, env, st, fl, rest):
        # `for x in v.iter_mut() { *x = e; }`  ->  v := v.map (fun x => e)
        if it[0] == "mcall" and it[2] == "iter_mut" and it[1][0] == "id" and pat[0] == "bind":
            var = it[1][1]
            cur = env.get(var)
            if cur is None or cur.ty != "elems" or body[2] is not None:
                raise Untranslatable("iter_mut loop")
            x = self.ctx.fresh(pat[1])
            xv = Val("elem", x)
            envb = dict(env)
            envb[pat[1]] = xv
            for s in body[1]:
                if s[0] != "assign" or s[1] != "=":
                    raise Untranslatable("iter_mut loop body")
                lhs = s[2]
                r = self.try_pure(s[3], envb, st)
                if r is None:
                    raise Untranslatable("iter_mut loop body with effects")
                if lhs == ("un", "*", ("id", pat[1])) and r.ty == "elem":
                    envb[pat[1]] = r
                elif lhs[0] == "field" and lhs[1] == ("id", pat[1]) and lhs[2] in ("prime", "sub") and r.ty == "ptr":
                    p, s_ = elem_parts(envb[pat[1]])
                    envb[pat[1]] = Val("elem", pair=(r, s_) if lhs[2] == "prime" else (p, r))
                else:
                    raise Untranslatable("iter_mut loop body")
            env[var] = Val("elems", "(%s.map fun %s => %s)" % (par(cur.t), x, elem_term(envb[pat[1]])))
            return rest(env, st)
        if pat[0] != "bind":
            raise Untranslatable("loop pattern")
        vecs = sorted(push_targets(body))
        others = [n for n in mutated_vars(body) if n in env and n not in vecs]
        if len(vecs) > 1 or others or (vecs and reads_var(body, vecs[0])) or getattr(fl, "acc", False):
            # locals other than one append-only vector are carried through the loop: accumulator style
            return self.state_loop("each", it, pat, body, env, st, fl, rest)
        vec = vecs[0] if vecs else None
        if vec is not None and (vec not in env or env[vec].ty != "elems"):
            raise Untranslatable("loop pushes on a vector declared inside it")
        if reads_var(body, vec):
            raise Untranslatable("loop reads the vector it builds")
        if fl.cont is not None and vec is not None and fl.vec != vec:
            raise Untranslatable("nested loop builds a different vector")

        def after_iter(itv, env1, st1):
            if itv.ty != "elems":
                raise Untranslatable("loop over a " + itv.ty)
            ctx = self.ctx
            ctx.nloops += 1
            lname = "%s_loop%d" % (self.spec["lean"].rstrip("?"), ctx.nloops)
            outer = list(ctx.binders.keys())
            a = ctx.fresh(pat[1], "Elem")
            envb = dict(env1)
            envb[pat[1]] = Val("elem", a)
            envb["%pending"] = ()
            envb["%part"] = dict(env1.get("%part", {}))
            sig = self.spec["sigma"]
            call_holder = {}

            def seg_list(pending):
                singles = all(kind == "one" for kind, _ in pending)
                if singles:
                    return "[" + ", ".join(t for _, t in pending) + "]"
                parts, run = [], []
                for kind, t in pending:
                    if kind == "one":
                        run.append(t)
                    else:
                        if run:
                            parts.append("[" + ", ".join(run) + "]")
                            run = []
                        parts.append(t)
                if run:
                    parts.append("[" + ", ".join(run) + "]")
                return " ++ ".join(parts)

            def prepend(pending, l):
                out = l
                for kind, t in reversed(pending):
                    out = "%s :: %s" % (t, out) if kind == "one" else "%s ++ %s" % (t, out)
                return out

            def cont(envc, stc):
                pend = envc.get("%pending", ())
                call = "%s %s rest" % (call_holder["call"], stc.a)
                if not pend:
                    return call
                s3, l, r = ctx.fresh("st"), ctx.fresh("l"), ctx.fresh("r")
                return ("match %s with\n| none => none\n| some (%s, .early %s) => some (%s, .early %s)\n"
                        "| some (%s, .elems %s) => some (%s, .elems (%s))" % (call, s3, r, s3, r, s3, l, s3, prepend(pend, l)))

            def brk(envc, stc):
                return "some (%s, .elems %s)" % (stc.a, seg_list(envc.get("%pending", ())) or "[]")

            def ret(v, envc, stc):
                if v.ty != "ptr":
                    raise Untranslatable("loop returns a " + v.ty)
                return "some (%s, .early %s)" % (stc.a, par(v.t))
            flb = Flow(ret=ret, cont=cont, brk=brk, vec=vec)
            call_holder["call"] = "\x00CALL\x00"
            if st1.a is None:
                raise Untranslatable("loop in a function without builder state")
            saved_rt = self.rtype
            self.rtype = "Option (%s × LoopRes)" % sig
            try:
                body_text = self.block(body, envb, State(a="st"), flb, lambda v, envc, stc: cont(envc, stc))
            finally:
                self.rtype = saved_rt
            free = [n for n in outer if re.search(r"(?<![A-Za-z0-9_.'])%s(?![A-Za-z0-9_'])" % re.escape(n), body_text)]
            ctxnames = ctx_names(self.spec["ctx"])
            params = " ".join("(%s : %s)" % (n, ctx.binders[n]) for n in free)
            call = " ".join([lname] + ctxnames + free)
            body_text = body_text.replace("\x00CALL\x00", call)
            ctx.loops.append("def %s %s %s : %s → List Elem → Option (%s × LoopRes)\n  | st, [] => some (st, .elems [])\n"
                             "  | st, %s :: rest =>\n%s\n" % (lname, self.spec["ctx"], params, sig, sig, a, ind(body_text, 4)))
            # the call site
            s2, r, l = ctx.fresh("st"), ctx.fresh("r"), ctx.fresh("l", "List Elem")
            st2 = st1.with_(a=s2)
            early = fl.ret(Val("ptr", r), dict(env1), st2)
            env2 = dict(env1)
            if fl.cont is not None:
                env2["%pending"] = env1.get("%pending", ()) + ((("list", l),) if vec else ())
            elif vec is not None:
                cur = env1[vec]
                env2[vec] = Val("elems", l if cur.t == "[]" else "(%s ++ %s)" % (cur.t, l))
            return ("match %s %s %s with\n| none => none\n| some (%s, .early %s) => %s\n| some (%s, .elems %s) =>\n%s"
                    % (call, st1.a, par(itv.t), s2, r, early, s2, l, ind(rest(env2, st2))))
        self.none()
        return self.ex(it, env, st, fl, after_iter)


def mutated_vars(body):
    """locals assigned / mutated in place inside a loop body, in order of first occurrence"""
    out = []

    def base(e):
        while e[0] in ("index", "field", "un"):
            e = e[1] if e[0] != "un" else e[2]
        return e[1] if e[0] == "id" else None
    for n in walk(body):
        v = None
        if n and n[0] == "assign":
            v = base(n[2])
        elif n and n[0] == "mcall" and len(n) == 4 and n[2] in ("swap_remove", "push", "sort_by_key", "pop", "remove", "insert",
                                                               "truncate", "clear"):
            v = base(n[1])
        elif n and n[0] == "mcall" and len(n) == 4 and n[2] == "compress" and n[3] and n[3][0][0] == "un":
            v = base(n[3][0])
        if v and v != "self" and v not in out:
            out.append(v)
    return out


def memo(f):
    """compile a continuation once and reuse its text (the loops inside it are then emitted once)"""
    box = []

    def g():
        if not box:
            box.append(f())
        return box[0]
    return g


def ctx_names(ctx):
    return re.findall(r"\(([A-Za-z_][A-Za-z0-9_]*) :", ctx)


def pat_names(p):
    if p[0] == "bind":
        return [p[1]]
    out = []
    for x in p[1:]:
        if isinstance(x, list):
            for q in x:
                if isinstance(q, tuple):
                    out += pat_names(q if not (len(q) == 2 and isinstance(q[0], str) and isinstance(q[1], tuple)) else q[1])
    return out


def walk(e):
    if isinstance(e, tuple):
        yield e
        for x in e:
            yield from walk(x)
    elif isinstance(e, list):
        for x in e:
            yield from walk(x)


MUT_METHODS = {"push", "sort_by_key", "swap_remove", "compress", "app_cache_insert", "ite_cache_insert", "insert", "iter_mut"}


def has_ctrl(e):
    for n in walk(e):
        if n and n[0] in ("return", "break", "continue", "assign", "for", "while"):
            return True
        if n and n[0] == "mcall" and len(n) == 4 and n[2] in MUT_METHODS:
            return True
    return False


def push_targets(body):
    out = set()
    for n in walk(body):
        if n and n[0] == "mcall" and len(n) == 4 and n[2] == "push" and n[1][0] == "id":
            out.add(n[1][1])
    return out


def reads_var(body, var):
    if var is None:
        return False
    for n in walk(body):
        if n == ("id", var):
            # allowed only as the receiver of push
            pass
    cnt_all = sum(1 for n in walk(body) if n == ("id", var))
    cnt_push = sum(1 for n in walk(body) if n and n[0] == "mcall" and len(n) == 4 and n[2] == "push" and n[1] == ("id", var))
    return cnt_all != cnt_push


# ------------------------------------------------------------------------------------------------ functions
B = "src/builder/sdd/builder.rs"
C = "src/builder/sdd/compression.rs"
M = "src/builder/mod.rs"
R = "src/repr/sdd.rs"
SIG_AND = "{σ : Type} (cmpr : Bool) (andF : AndF σ)"
CONDF = "(condF : σ → Ptr → Nat → Bool → Option (σ × Ptr))"
AA = "(A : CacheImpl (Ptr × Ptr))"
II = "(I : CacheImpl (Ptr × Ptr × Ptr))"


def S(rust, file, lean, alias, ctx="", state=None, ret="val", partial=False, rty="ptr", sigma="σ", selfptr=False,
      loops=()):
    lean = "r" + lean[0].upper() + lean[1:]
    loops = [(n if n.startswith("r") else (lean.rstrip("?") + "_loop%d" % (j + 1)), a) for j, (n, a) in enumerate(loops)]
    return dict(rust=rust, file=file, lean=lean, alias=alias, ctx=ctx, state=state, ret=ret, partial=partial, rty=rty,
                sigma=sigma, selfptr=selfptr, loops=list(loops))


X = "TieSddCoreAux."
SPECS = [
    # pointer accessors (src/repr/sdd.rs)
    S("neg", R, "ptrNeg", "@Sdd.Ptr.neg", selfptr=True),
    S("is_neg", R, "ptrIsNeg", "@Sdd.Ptr.isNeg", selfptr=True, rty="bool"),
    S("is_true", R, "ptrIsTrue", "@Sdd.Ptr.isTrue", selfptr=True, rty="bool"),
    S("is_false", R, "ptrIsFalse", "@Sdd.Ptr.isFalse", selfptr=True, rty="bool"),
    S("is_neg_var", R, "ptrIsNegVar", "@Sdd.Ptr.isNegVar", selfptr=True, rty="bool"),
    S("is_bdd", R, "ptrIsBdd", "@Sdd.Ptr.isBdd", selfptr=True, rty="bool"),
    S("low", R, "ptrLow?", "@Sdd.Ptr.low?", selfptr=True, partial=True),
    S("high", R, "ptrHigh?", "@Sdd.Ptr.high?", selfptr=True, partial=True),
    S("vtree", R, "ptrVtree?", "@" + X + "vtree?", selfptr=True, partial=True, rty="nat"),
    # SddBuilder default methods (src/builder/sdd/builder.rs)
    S("is_true", B, "isTrue", "@Sdd.Ptr.isTrue", rty="bool"),
    S("is_false", B, "isFalse", "@Sdd.Ptr.isFalse", rty="bool"),
    S("unique_bdd", B, "uniqueBdd", "@Sdd.uniqueBdd"),
    S("unique_or", B, "uniqueOr", "@Sdd.uniqueOr", partial=True),
    S("vtree_index", B, "vtreeIndex?", "@" + X + "vtreeIndex?", ctx="(vt : VTree)", partial=True, rty="nat"),
    S("and_indep", B, "andIndep", "@Sdd.andIndep", ctx="(vt : VTree)", partial=True),
    S("and_sub_desc", B, "andSubDesc", "@Sdd.andSubDesc", ctx=SIG_AND, state="a", ret="stval", partial=True,
      loops=[("andSubDesc_loop1", "@" + X + "subDescLoopG")]),
    S("and_prime_desc", B, "andPrimeDesc", "@Sdd.andPrimeDesc", ctx=SIG_AND, state="a", ret="stval", partial=True,
      loops=[("", "@" + X + "primeOuterG"), ("", "@" + X + "primeInnerG")]),
    S("and_cartesian", B, "andCartesian", "@Sdd.andCartesian", ctx="{σ : Type} (vt : VTree) (cmpr : Bool) (andF : AndF σ)",
      state="a", ret="stval", partial=True,
      loops=[("", "@" + X + "cartOuterG"), ("", "@" + X + "cartInnerG")]),
    # BottomUpBuilder for SddBuilder (src/builder/sdd/builder.rs)
    S("var", B, "var", "fun (label : Nat) (polarity : Bool) => Sdd.Ptr.lit label polarity"),
    S("negate", B, "negate", "@Sdd.Ptr.neg"),
    S("and", B, "andBody", "@Sdd.andBody", ctx=AA + " (vt : VTree) (cmpr : Bool) (andF : AndF A.σ)", sigma="A.σ",
      state="a", ret="stval", partial=True),
    S("condition", B, "condition", "@" + X + "condBody", ctx=SIG_AND + " " + CONDF, state="a", ret="stval", partial=True,
      loops=[("condition_loop1", "@" + X + "condLoopG")]),
    S("ite", B, "ite", "@" + X + "iteBody", ctx=AA + " " + II + " (vt : VTree) (andF : AndF A.σ)", sigma="A.σ × I.σ",
      state="ai", ret="stval", partial=True),
    S("iff", B, "iff", "@" + X + "iffBody", ctx="{τ : Type} (iteF : τ → Ptr → Ptr → Ptr → Option (τ × Ptr))", sigma="τ",
      state="ai", ret="stval", partial=True),
    S("xor", B, "xor", "@" + X + "xorBody", ctx="{τ : Type} (iteF : τ → Ptr → Ptr → Ptr → Option (τ × Ptr))", sigma="τ",
      state="ai", ret="stval", partial=True),
    S("exists", B, "exists_", "@" + X + "existsBody", ctx="{σ : Type} (andF : AndF σ) " + CONDF, state="a", ret="stval",
      partial=True),
    # BottomUpBuilder default methods (src/builder/mod.rs)
    S("or", M, "or_", "@Sdd.orF", ctx="{σ : Type} (andF : AndF σ)", state="a", ret="stval", partial=True),
    S("compose", M, "compose", "@" + X + "composeBody",
      ctx=AA + " " + II + " (andF : AndF A.σ) (iffF : A.σ × I.σ → Ptr → Ptr → Option ((A.σ × I.σ) × Ptr)) "
          "(existsF : A.σ → Ptr → Nat → Option (A.σ × Ptr))", sigma="A.σ × I.σ", state="ai", ret="stval", partial=True),
    # CompressionSddBuilder (src/builder/sdd/compression.rs)
    S("sdd_eq", C, "sddEq", "fun (a b : Sdd.Ptr) => decide (a = b)", rty="bool"),
    S("canonicalize_base_case", C, "canonBase?", "fun (node : List Sdd.Elem) => some (Sdd.canonBase? node)", partial=True,
      rty="opt:ptr"),
    S("canonicalize", C, "canonicalize", "@Sdd.canonicalize", ctx=SIG_AND, state="a", ret="stval", partial=True),
    S("compress", C, "compress", "@TieSddCoreCompress.compressIdx", ctx="{σ : Type} (wf : Nat) (andF : AndF σ)", state="a",
      ret="stval", partial=True, rty="elems",
      loops=[("rCompress_for1", "@TieSddCoreCompress.compressFor"), ("rCompress_while2", "@TieSddCoreCompress.compressWhile")]),
    S("app_cache_get", C, "appCacheGet", "fun " + AA + " (st : A.σ) (k : Sdd.Elem) => A.get st k", ctx=AA, sigma="A.σ",
      state="a", ret="val", rty="opt:ptr"),
    S("app_cache_insert", C, "appCacheInsert", "fun " + AA + " (st : A.σ) (k : Sdd.Elem) (r : Sdd.Ptr) => A.insert st k r",
      ctx=AA, sigma="A.σ", state="a", ret="state", rty="unit"),
    S("ite_cache_get", C, "iteCacheGet", "@Sdd.iteCacheGet", ctx=II, sigma="I.σ", state="i", ret="val", rty="opt:ptr"),
    S("ite_cache_insert", C, "iteCacheInsert", "@Sdd.iteCacheInsert", ctx=II, sigma="I.σ", state="i", ret="state",
      rty="unit"),
]
UNT = "UNTRANSLATED (translator route not available, tied by correspondence only): "


IMPL_ANCHOR = ["impl", "<", "'a", ",", "T", ">"]
# context a body may need beyond the parameters of the model definition it is compared with ({S} = apply-cache
# state type, {P} = state type of the function): added to the generated signature when used, so that the tie
# theorem then fails on the TYPE (the function was read, it now depends on more than the model does)
CTX_EXTRA = [
    ("vt", "(vt : VTree)"), ("cmpr", "(cmpr : Bool)"), ("andF", "(andF : AndF {S})"),
    ("condF", "(condF : {S} → Ptr → Nat → Bool → Option ({S} × Ptr))"),
    ("existsF", "(existsF : {S} → Ptr → Nat → Option ({S} × Ptr))"),
    ("iteF", "(iteF : {P} → Ptr → Ptr → Ptr → Option ({P} × Ptr))"),
    ("iffF", "(iffF : {P} → Ptr → Ptr → Option ({P} × Ptr))"),
]


def extend_ctx(spec, texts):
    """binders for context symbols used by the generated text but absent from the model signature"""
    have = set(ctx_names(spec["ctx"]))
    S_ = "A.σ" if "A" in have else ("σ" if "σ" in spec["ctx"] else ("τ" if "τ" in spec["ctx"] else None))
    P_ = spec["sigma"] if spec["state"] == "ai" else None
    extra = []
    blob = "\n".join(texts)
    for name, binder in CTX_EXTRA:
        if name in have or not re.search(r"(?<![A-Za-z0-9_.'])%s(?![A-Za-z0-9_'])" % name, blob):
            continue
        if ("{S}" in binder and S_ is None) or ("{P}" in binder and P_ is None):
            raise Untranslatable("uses `%s`, which needs builder state this function does not thread" % name)
        extra.append(binder.replace("{S}", S_ or "").replace("{P}", "(%s)" % P_ if P_ else ""))
    return extra


def compile_fn(spec, toks, override=None):
    if override is not None:
        params, ret, body = override
    else:
        params, ret, body = find_fn(toks, spec["rust"], after=IMPL_ANCHOR if (
            spec["file"] == B and spec["rust"] in ("var", "negate", "and", "condition", "ite", "iff", "xor", "exists")) else None)
    rty = rust_type(ret) if not (spec["rust"] == "vtree" and spec["file"] == R) else "nat"
    if spec["rust"] in ("vtree_index",):
        rty = "nat"
    if spec["rust"] == "compress":
        if rty != "unit" or [t for _, t in params if t != "&self"] == [] :
            raise Untranslatable("signature of compress")
        rty = "elems"        # the `&mut Vec` out-parameter
    if rty != spec["rty"] and not (rty == "unit" and spec["ret"] == "state") and not (spec["rust"] == "compress"):
        raise Untranslatable("return type `%s`" % ret)
    last = None
    extra_ctx = []
    for attempt in (0, 1, 2, 3):
        sp = dict(spec)
        if extra_ctx:
            sp["ctx"] = (sp["ctx"] + " " + " ".join(extra_ctx)).strip()
        if last == "partial":
            sp["partial"] = True
        ctx = Ctx(sp, spec["rust"], toks)
        ctx.used |= set(LEAN_KEYWORDS) | set(ctx_names(sp["ctx"])) | {"st", "rest", "s", "σ", "τ"}
        comp = Comp(ctx)
        env, binders = {}, []
        have_self = False
        prev_ite = None
        for name, ty in params:
            if name == "self":
                have_self = True
                if sp["selfptr"]:
                    x = ctx.fresh("p", "Ptr")
                    env["self"] = Val("ptr", x)
                    binders.append("(%s : Ptr)" % x)
                continue
            t = rust_type(ty)
            if t == "bin":
                l, lo, hi, idx = (ctx.fresh(n, T) for n, T in (("l", "Nat"), ("lo", "Ptr"), ("hi", "Ptr"), ("idx", "Nat")))
                env[name] = Val("bin", label=Val("nat", l), low=Val("ptr", lo), high=Val("ptr", hi), index=Val("nat", idx))
                binders.append("(%s : Nat) (%s %s : Ptr) (%s : Nat)" % (l, lo, hi, idx))
            elif t == "hash":
                if prev_ite is None:
                    raise Untranslatable("hash parameter without its Ite")
                env[name] = Val("hash", of=prev_ite)
            elif t in LEAN_TY:
                x = ctx.fresh(name, LEAN_TY[t])
                env[name] = Val(t, x)
                binders.append("(%s : %s)" % (x, LEAN_TY[t]))
                if t == "ite":
                    prev_ite = x
            else:
                raise Untranslatable("parameter type `%s`" % ty)
        st = State()
        stb = ""
        if sp["state"] in ("a", "i"):
            st = State(a="st", i="st")
            stb = "(st : %s)" % sp["sigma"]
        elif sp["state"] == "ai":
            st = State("s.1", "s.2", "s")
            stb = "(s : %s)" % sp["sigma"]
        kret = comp.mk_ret_k()
        if spec["rust"] == "compress":
            # `&mut Vec` out-parameter: the function returns the final vector
            inner_k = kret

            def kret(v, env2, st2, inner_k=inner_k):
                return inner_k(env2["node"], env2, st2)
            kret.tail = False
        fl = Flow(ret=kret)
        T = LEAN_TY.get(rty, "Unit")
        if rty == "elems":
            T = "List Elem"
        if sp["ret"] == "state":
            R_ = sp["sigma"]
        elif sp["ret"] == "stval":
            R_ = "Option (%s × %s)" % (par(sp["sigma"]) if "×" in sp["sigma"] else sp["sigma"], T)
        else:
            R_ = "Option %s" % par(T) if sp["partial"] else T
        comp.rtype = R_
        try:
            text = comp.stmts(body[1], body[2], env, st, fl, kret)
        except NeedPartial:
            last = "partial"
            continue
        if ctx.new_state:
            raise Differs("; ".join(ctx.new_state))
        more = extend_ctx(sp, [text] + ctx.loops)
        if more:
            extra_ctx += more
            continue
        T = LEAN_TY.get(rty, "Unit")
        if rty == "elems":
            T = "List Elem"
        if sp["ret"] == "state":
            R_ = sp["sigma"]
        elif sp["ret"] == "stval":
            R_ = "Option (%s × %s)" % (par(sp["sigma"]) if "×" in sp["sigma"] else sp["sigma"], T)
        else:
            R_ = "Option %s" % par(T) if sp["partial"] else T
        head = "def %s %s %s %s : %s :=\n" % (sp["lean"], sp["ctx"], stb, " ".join(binders), R_)
        head = re.sub(r" +", " ", head)
        nl = len(ctx.loops)
        if nl != len(spec["loops"]):
            # the tie file quantifies over the loop definitions by name: keep the names it knows defined
            pass
        return "\n".join(ctx.loops) + ("\n" if ctx.loops else "") + head + ind(text) + "\n", nl
    raise Untranslatable("needs a panic step the model type does not have (%s)" % last)


def fallback(spec):
    out = []
    for lname, lalias in spec["loops"]:
        out.append("abbrev %s := %s" % (lname, lalias))
    out.append("abbrev %s := %s" % (spec["lean"], spec["alias"]))
    return "\n".join(out) + "\n"


def write_if_changed(path, text):
    old = open(path).read() if os.path.exists(path) else None
    if old != text:
        open(path, "w").write(text)


HEADER = """import RsddModel.Model.Sdd
import RsddModel.Lemmas.TieSddCoreAux
import RsddModel.Lemmas.TieSddCoreCompress
/-!
# Generated by tools/gen_sddcore.py from the Rust source — do not edit

The SDD builder core (src/builder/sdd/builder.rs, src/builder/sdd/compression.rs, the `or`/`compose`
defaults of src/builder/mod.rs, the pointer accessors of src/repr/sdd.rs), function by function.
Compared with the hand-written model in `Props/TieSddCore.lean`.
-/
set_option linter.unusedVariables false
namespace Gen.SddCore
open _root_.Sdd

"""


def main():
    status, parts, toks_cache = {}, [HEADER], {}
    for spec in SPECS:
        key = "%s::%s" % (os.path.basename(spec["file"]), spec["rust"])
        try:
            if os.environ.get("SDDCORE_FORCE_ALIAS"):
                raise Untranslatable("forced alias mode (SDDCORE_FORCE_ALIAS)")
            if spec["file"] not in toks_cache:
                toks_cache[spec["file"]] = tokenize(open(os.path.join(REPO, spec["file"])).read())
            override, note = None, ""
            if spec["file"] == M:
                # a default method of the trait may have been overridden in the SDD impl block
                if B not in toks_cache:
                    toks_cache[B] = tokenize(open(os.path.join(REPO, B)).read())
                try:
                    override = find_fn(toks_cache[B], spec["rust"], after=IMPL_ANCHOR)
                    note = "; OVERRIDE of the trait default found in %s, translated instead of the default" % B
                except Untranslatable:
                    override = None
            text, nl = compile_fn(spec, toks_cache[B] if override else toks_cache[spec["file"]], override)
            extra = ""
            if nl < len(spec["loops"]):
                # fewer loops than the tie file names: define the missing names as aliases so that the
                # file elaborates; the tie of the function itself still compares the real definition
                extra = "".join("abbrev %s := %s\n" % (n, a) for n, a in spec["loops"][nl:])
            parts.append("/-- `%s` (%s) -/\n%s%s" % (spec["rust"], spec["file"], text, extra))
            status[key] = "translated (Gen.SddCore.%s%s)%s" % (spec["lean"], ", %d loop definitions" % nl if nl else "", note)
        except Differs as e:
            parts.append("-- `%s` WAS READ and DIFFERS from the model (new state: %s): alias kept so that the build stays green\n%s"
                         % (spec["rust"], str(e).replace("\n", " "), fallback(spec)))
            status[key] = "DIFFERS (new state): %s" % e
        except Untranslatable as e:
            parts.append("-- TRANSLATOR ROUTE NOT AVAILABLE for `%s` (%s): alias of the hand-written model\n%s"
                         % (spec["rust"], str(e).replace("\n", " "), fallback(spec)))
            status[key] = UNT + str(e)
        except Exception as e:      # never crash
            parts.append("-- TRANSLATOR ROUTE NOT AVAILABLE for `%s` (internal: %s): alias of the hand-written model\n%s"
                         % (spec["rust"], repr(e).replace("\n", " "), fallback(spec)))
            status[key] = UNT + "internal translator error: %r" % (e,)
    parts.append("end Gen.SddCore\n")
    write_if_changed(OUT, "\n".join(parts))
    return status


if __name__ == "__main__":
    for k_, v_ in main().items():
        print(k_, "->", v_)
