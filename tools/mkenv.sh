#!/bin/bash
# Isolated evaluation environment for seeded changes: a clone of /repo and a copy of /verif under
# /tmp/envN with every absolute path redirected (harness path dependency, cargo target dir (!),
# CLI prebuild, seed_eval, translators' default source root).  Then: tools/envrun.sh N <list>, where
# each line of <list> is "<seeded name> <property>"; results in /tmp/envN/results.txt.  Several
# environments can run side by side; nothing touches /repo or /verif.
# usage: mkenv.sh N  — an isolated copy of /repo and /verif under /tmp/envN
n=$1; E=/tmp/env$n
rm -rf $E; mkdir -p $E
git clone -q /repo $E/repo
rsync -a --exclude .git --exclude 'lean/.lake/build/ir' /verif/ $E/verif/
cd $E/verif
sed -i "s#path = \"/repo\"#path = \"$E/repo\"#" harness/Cargo.toml
sed -i "s#\"/repo\"#\"$E/repo\"#g; s#/verif/#$E/verif/#g" tools/properties_cfg.py tools/seed_eval.py
grep -rl '"/repo"' tools/*.py | head
sed -i "s#\"/verif/#\"$E/verif/#g" harness/src/main.rs
sed -i "s#os.environ.get(\"VERIF_REPO\", \"/repo\")#os.environ.get(\"VERIF_REPO\", \"$E/repo\")#" tools/*.py
grep -rn '"/repo"' tools/*.py | grep -v 'get("VERIF_REPO"' | head
sed -i "s#/verif/.build#$E/verif/.build#" harness/.cargo/config.toml
