#!/usr/bin/env python3
"""Orchestrator: the quick_cmd / thorough_cmd of every property.

  tools/check.py --property C01 --tier quick|thorough [--seed N]
  tools/check.py --setup
  tools/check.py --replay evidence/replay/C01-....json

Per property (DESIGN.md section 2.2):
  1. regenerate Model/Constants.lean from /repo's source (translator),
  2. build the Lean proof obligations of the property, audit forbidden constructs and the
     axioms every property theorem depends on,
  3. build the harness against /repo's current working tree (feature verif_hooks),
  4. correspondence: harness (real code) -> lines -> Lean driver (model + spec oracle),
  5. verdict + evidence/<id>.json.
"""
import argparse, fcntl, hashlib, json, os, re, subprocess, sys, time
from concurrent.futures import ThreadPoolExecutor

ROOT = os.path.dirname(os.path.dirname(os.path.abspath(__file__)))
LEAN = os.path.join(ROOT, "lean")
HARNESS_DIR = os.path.join(ROOT, "harness")
BUILD = os.path.join(ROOT, ".build")
HARNESS_BIN = os.path.join(BUILD, "harness-target", "debug", "harness")
DRIVER_BIN = os.path.join(LEAN, ".lake", "build", "bin", "rsdd_model_driver")
EVIDENCE = os.path.join(ROOT, "evidence")
REPLAY = os.path.join(EVIDENCE, "replay")
ALLOWED_AXIOMS = {"propext", "Classical.choice", "Quot.sound"}
FORBIDDEN = re.compile(r"\bsorry\b|\badmit\b|^\s*axiom\s|native_decide|bv_decide|implemented_by|\bunsafe\s|maxHeartbeats\s+0")
NCPU = os.cpu_count() or 4

sys.path.insert(0, os.path.dirname(os.path.abspath(__file__)))
from properties_cfg import PROPS, COMMON_TRUSTED  # noqa: E402


def sh(cmd, cwd=None, timeout=None, env=None, inp=None):
    e = dict(os.environ)
    e["CARGO_NET_OFFLINE"] = "true"
    if env:
        e.update(env)
    p = subprocess.run(cmd, cwd=cwd, stdout=subprocess.PIPE, stderr=subprocess.STDOUT, text=True,
                       timeout=timeout, env=e, input=inp)
    return p.returncode, p.stdout


class Lock:
    def __init__(self, name):
        os.makedirs(BUILD, exist_ok=True)
        self.path = os.path.join(BUILD, name + ".lock")

    def __enter__(self):
        self.f = open(self.path, "w")
        fcntl.flock(self.f, fcntl.LOCK_EX)

    def __exit__(self, *a):
        fcntl.flock(self.f, fcntl.LOCK_UN)
        self.f.close()


def strip_comments(text):
    # remove /- ... -/ (nested) and -- line comments
    out, i, depth, n = [], 0, 0, len(text)
    while i < n:
        if text.startswith("/-", i):
            depth += 1
            i += 2
        elif depth > 0 and text.startswith("-/", i):
            depth -= 1
            i += 2
        elif depth > 0:
            if text[i] == "\n":
                out.append("\n")
            i += 1
        elif text.startswith("--", i):
            while i < n and text[i] != "\n":
                i += 1
        else:
            out.append(text[i])
            i += 1
    return "".join(out)


def audit_sources():
    """grep for forbidden constructs outside comments in every .lean file of the project"""
    hits = []
    for d, _, fs in os.walk(LEAN):
        if ".lake" in d:
            continue
        for f in fs:
            if not f.endswith(".lean"):
                continue
            p = os.path.join(d, f)
            src = strip_comments(open(p).read())
            # string literals may mention the words; drop them
            src = re.sub(r'"(?:[^"\\]|\\.)*"', '""', src)
            for ln, line in enumerate(src.split("\n"), 1):
                if FORBIDDEN.search(line):
                    hits.append("%s:%d: %s" % (os.path.relpath(p, ROOT), ln, line.strip()[:120]))
    return hits


def gen_constants():
    rc, out = sh([sys.executable, os.path.join(ROOT, "tools", "gen_constants.py")])
    return rc == 0, out.strip()


# translators of the translator route, run in this order on every check; each regenerates its
# own Model/Gen*.lean from the Rust text and reports one status line per function
TRANSLATORS = ["gen_source_model.py", "gen_bddcore.py", "gen_tables.py", "gen_dnnf.py", "gen_sddcore.py",
               "gen_cnfup.py", "gen_orders.py", "gen_optim.py", "gen_compile.py", "gen_vtree.py", "gen_cnford.py", "gen_ffi.py",
               "gen_sddq.py", "gen_scratch.py", "gen_cli.py"]


def gen_source_model():
    """translator route: regenerate Model/Gen*.lean from the source text (every translator that exists)"""
    ok_all, lines = True, []
    for t in TRANSLATORS:
        path = os.path.join(ROOT, "tools", t)
        if not os.path.exists(path):
            continue
        with Lock("gen"):
            rc, out = sh([sys.executable, path], timeout=600)
        ok_all = ok_all and rc == 0
        if rc != 0:
            lines.append("%s -> CRASHED: %s" % (t, out.strip()[-200:].replace("\n", " ")))
        lines += ["[%s] %s" % (t, l) for l in out.strip().split("\n") if "->" in l]
    return ok_all, lines


# which translator regenerates the definitions a tie module is about
TIE_GEN = {"TieIte": "gen_source_model.py", "TieFF": "gen_source_model.py", "TieSem": "gen_source_model.py",
           "TieOrders": "gen_orders.py", "TieFfi": "gen_ffi.py", "TieVTree": "gen_vtree.py", "TieCnfOrd": "gen_cnford.py",
           "TieBddCore": "gen_bddcore.py", "TieTables": "gen_tables.py", "TieOptim": "gen_optim.py",
           "TieCompile": "gen_compile.py", "TieSddCore": "gen_sddcore.py", "TieCnfUp": "gen_cnfup.py",
           "TieDnnf": "gen_dnnf.py", "TieSddQ": "gen_sddq.py", "TieScratch": "gen_scratch.py", "TieCli": "gen_cli.py"}


def unavailable_for(cfg, translated):
    """status lines of functions that left a translator's grammar, restricted to the translators
    whose tie modules this property claims"""
    gens = {TIE_GEN[m.split(".")[-1].replace("Source", "")] for m in cfg["modules"]
            if m.split(".")[-1].replace("Source", "") in TIE_GEN}
    return [t for t in translated if "UNTRANSLATED" in t and any(t.startswith("[%s]" % g) for g in gens)]


def differing_for(cfg, translated):
    """status lines `… -> DIFFERS (new state): …`: the translator read the whole function and found
    that it now takes / returns / keeps state the model definition has no counterpart for, so the
    tie `Gen.f = Model.f` cannot even be stated.  Counts as a tie that no longer checks."""
    gens = {TIE_GEN[m.split(".")[-1].replace("Source", "")] for m in cfg["modules"]
            if m.split(".")[-1].replace("Source", "") in TIE_GEN}
    return [t for t in translated if "-> DIFFERS" in t and any(t.startswith("[%s]" % g) for g in gens)]


def lake_build(targets):
    with Lock("lake"):
        rc, out = sh(["lake", "build"] + targets, cwd=LEAN, timeout=3600)
    return rc == 0, out


def module_file(mod):
    return os.path.join(LEAN, *mod.split(".")) + ".lean"


def check_props_module(mod):
    """audit one (already built) Props module: every `theorem` of its source must be reported by
    `#audit_module` with an allowed axiom set; return (ok, theorems, discharged, problems)"""
    path = module_file(mod)
    if not os.path.exists(path):
        return False, [], [], ["missing " + path]
    src = strip_comments(open(path).read())
    # private theorems are helper lemmas: their axioms surface in the public theorems that use them
    names = re.findall(r"^\s*(?:protected\s+)?theorem\s+([^\s:({\[]+)", src, flags=re.M)
    os.makedirs(BUILD, exist_ok=True)
    audit = os.path.join(BUILD, "audit_%s.lean" % mod.replace(".", "_"))
    with open(audit, "w") as f:
        f.write("import RsddModel.Audit\nimport %s\n#audit_module %s\n" % (mod, mod))
    rc, out = sh(["lake", "env", "lean", audit], cwd=LEAN, timeout=3600)
    problems = []
    if rc != 0 or "AUDIT-DONE" not in out:
        problems.append("audit failed: " + out[-500:].replace("\n", " "))
    ax = {}
    for m in re.finditer(r"AUDIT (\S+) \[([^\]]*)\]", out.replace("\n ", " ")):
        ax[m.group(1)] = set(a.strip() for a in m.group(2).split(",") if a.strip())
    discharged = []
    for n in names:
        full = [k for k in ax if k == n or k.endswith("." + n)]
        if not full:
            problems.append("theorem %s is not in the compiled module" % n)
            continue
        bad = set().union(*[ax[k] for k in full]) - ALLOWED_AXIOMS
        if bad:
            problems.append("theorem %s depends on %s" % (n, sorted(bad)))
        else:
            discharged.append(n)
    # every audited theorem (including ones the regex missed) must be clean
    for k, v in ax.items():
        if v - ALLOWED_AXIOMS:
            problems.append("declaration %s depends on %s" % (k, sorted(v - ALLOWED_AXIOMS)))
    return not problems, names, discharged, problems


def build_harness():
    with Lock("cargo"):
        rc, out = sh(["cargo", "build", "--offline"], cwd=HARNESS_DIR, timeout=3600)
    return rc == 0, out


def run_stream(stream, seed, cases, extra, shards=None):
    """run harness | driver over `cases` cases split into shards; returns list of (line, verdict)"""
    shards = shards or min(NCPU, max(1, cases // 20))
    per = (cases + shards - 1) // shards
    jobs = []
    for s in range(shards):
        frm = s * per
        cnt = min(per, cases - frm)
        if cnt <= 0:
            break
        jobs.append((frm, cnt))

    def one(job):
        frm, cnt = job
        cmd = [HARNESS_BIN, stream, "--seed=%d" % seed, "--from=%d" % frm, "--cases=%d" % cnt] + extra
        # how to regenerate exactly these cases from the CURRENT tree (used by --replay)
        rerun = {"stream": stream, "seed": seed, "from": frm, "cases": cnt, "args": extra}
        rc, lines = sh(cmd, timeout=7200)
        lines = [l for l in lines.split("\n") if l.strip()]
        if rc != 0:
            return [("<harness %s>" % " ".join(cmd), "FAIL HARNESS exit %d: %s" % (rc, "\n".join(lines[-3:])[:300]), rerun)]
        rc2, out = sh([DRIVER_BIN], inp="\n".join(lines) + "\n", timeout=7200)
        verdicts = [l for l in out.split("\n") if l.strip()]
        if rc2 != 0 or len(verdicts) != len(lines):
            return [(lines[0] if lines else "<none>",
                     "FAIL DRIVER exit %d, %d verdicts for %d lines: %s" % (rc2, len(verdicts), len(lines), out[-300:]), rerun)]
        return [(l, v, rerun) for l, v in zip(lines, verdicts)]

    res = []
    with ThreadPoolExecutor(max_workers=NCPU) as ex:
        for r in ex.map(one, jobs):
            res.extend(r)
    return res


def load_known():
    p = os.path.join(ROOT, "known_findings.json")
    if os.path.exists(p):
        return json.load(open(p))
    return {"findings": [], "fixed": []}


def write_json(path, obj):
    os.makedirs(os.path.dirname(path), exist_ok=True)
    with open(path, "w") as f:
        json.dump(obj, f, indent=1)


def small_scope_search(pid, cfg, seed, deadline):
    """search for a (small) failing input: progressively larger sizes, many seeds"""
    for st in cfg["streams"]:
        for level in st.get("shrink_levels", []):
            if time.time() > deadline:
                return None
            res = run_stream(st["name"], seed + 7919, level.get("cases", 600), level["args"])
            fails = [(l, v, rr) for l, v, rr in res if v.startswith("FAIL SPEC")]
            if fails:
                fails.sort(key=lambda lv: len(lv[0]))
                return {"stream": st["name"], "args": level["args"], "line": fails[0][0], "verdict": fails[0][1],
                        "rerun": fails[0][2]}
    return None


def run_property(pid, tier, seed):
    t0 = time.time()
    # time limits of the harness watchdog (per case) and of the driver (per line): time is not
    # part of any property; a case over the limit is reported as `ok timeout` / `ok driver-timeout`
    os.environ.setdefault("HARNESS_CASE_TIMEOUT_MS", "5000" if tier == "quick" else "20000")
    os.environ.setdefault("DRIVER_LINE_TIMEOUT_MS", "10000" if tier == "quick" else "30000")
    cfg = PROPS[pid]
    os.makedirs(REPLAY, exist_ok=True)
    stale = os.path.join(REPLAY, "%s-%d.json" % (pid, seed))
    if os.path.exists(stale):
        os.remove(stale)
    report = {"lean": {}, "streams": {}}
    broken = []          # descriptions of broken obligations / correspondence
    spec_fails = []      # concrete failing inputs (implementation vs property)

    ok, consts = gen_constants()
    report["constants"] = consts
    if not ok:
        broken.append("constants translator: " + consts[-300:])
    ok, translated = gen_source_model()
    report["translated"] = translated
    if not ok:
        broken.append("source translator failed to run")

    for t in differing_for(cfg, translated):
        broken.append("translator route: " + t)

    # ---- proof obligations
    targets = list(cfg["modules"]) + ["RsddModel.Audit", "rsdd_model_driver"]
    ok, out = lake_build(targets)
    if not ok:
        errs = [l for l in out.split("\n") if "error" in l][:8]
        broken.append("lake build failed: " + " | ".join(errs)[:800])
    obligations, discharged = [], []
    for mod in cfg["modules"]:
        okm, names, dis, problems = check_props_module(mod)
        obligations += ["%s.%s" % (mod, n) for n in names]
        discharged += ["%s.%s" % (mod, n) for n in dis]
        for p in problems:
            broken.append("%s: %s" % (mod, p))
    hits = audit_sources()
    for h in hits:
        broken.append("forbidden construct: " + h)
    if tier == "thorough" and not broken:
        for mod in cfg["modules"]:
            rc, o = sh(["lake", "env", "leanchecker", mod], cwd=LEAN, timeout=3600)
            report["lean"]["leanchecker " + mod] = "ok" if rc == 0 else o[-300:]
            if rc != 0:
                broken.append("leanchecker rejected " + mod)

    # ---- implementation side
    for cwd, cmd in cfg.get("prebuild", []):
        with Lock("cargo"):
            rc, o = sh(cmd, cwd=cwd, timeout=3600)
        if rc != 0:
            broken.append("prebuild failed (%s): %s" % (" ".join(cmd), o[-400:]))
    ok, out = build_harness()
    if not ok:
        errs = [l for l in out.split("\n") if l.startswith("error")][:5]
        broken.append("harness does not build against /repo's working tree: " + " | ".join(errs)[:600])

    evaluations, nontrivial_hashes, samples, model_fails, other_fails = 0, set(), [], [], []
    hist = {}
    driver_ready = os.path.exists(DRIVER_BIN) and os.path.exists(HARNESS_BIN)
    if driver_ready:
        corpus_dir = os.path.join(ROOT, "corpus", pid)
        corpus_lines = []
        if os.path.isdir(corpus_dir):
            for f in sorted(os.listdir(corpus_dir)):
                if f.endswith(".case"):
                    corpus_lines += [l for l in open(os.path.join(corpus_dir, f)).read().split("\n")
                                     if l.strip() and not l.startswith("#")]
        # ESCALATION: a function of this property's tie modules whose source left the translator's
        # grammar is no longer covered by a kernel-checked tie; that is not an alarm (DESIGN 9.7c),
        # but the quick tier then compensates with the thorough tier's sizes for the streams (capped),
        # so that the missing proof obligation is replaced by a wider search, not by silence
        unavailable = unavailable_for(cfg, translated)
        escalate = bool(unavailable) and tier == "quick"
        report["escalated"] = unavailable if escalate else []
        for st in cfg["streams"]:
            n = st[tier]["cases"]
            args = st[tier]["args"]
            if escalate:
                n = min(st["thorough"]["cases"], 10 * n)
                args = st["thorough"]["args"]
            res = run_stream(st["name"], seed, n, args)
            report["streams"][st["name"]] = {"cases": len(res), "args": args}
            for line, v, rr in res:
                evaluations += 1
                key = v.split(" ")[0] + " " + (v.split(" ")[1] if (v.startswith("FAIL") or v.startswith("ok timeout") or v.startswith("ok driver-timeout") or v.startswith("ok rejected")) and " " in v else "")
                hist[key.strip()] = hist.get(key.strip(), 0) + 1
                if v.startswith("ok"):
                    m = re.search(r"nontrivial=(\d+)", v)
                    if m and int(m.group(1)) > 0:
                        nontrivial_hashes.add(hashlib.sha1(line.split(" => ")[0].encode()).hexdigest())
                    if len(samples) < 3 and m and int(m.group(1)) > 0:
                        samples.append(line[:1500])
                elif v.startswith("FAIL SPEC"):
                    spec_fails.append({"stream": st["name"], "line": line, "verdict": v, "rerun": rr})
                elif v.startswith("FAIL MODEL"):
                    model_fails.append({"stream": st["name"], "line": line, "verdict": v, "rerun": rr})
                else:
                    other_fails.append({"stream": st["name"], "line": line[:2000], "verdict": v, "rerun": rr})
    else:
        broken.append("driver or harness binary missing")

    if model_fails:
        broken.append("correspondence: model and implementation differ on %d case(s); first: %s"
                      % (len(model_fails), model_fails[0]["verdict"][:300]))
    if other_fails:
        broken.append("correspondence machinery failure (%d): %s" % (len(other_fails), other_fails[0]["verdict"][:300]))

    # ---- verdict
    known = load_known()
    violations, known_lines = [], []
    if spec_fails:
        spec_fails.sort(key=lambda d: len(d["line"]))
        small = None
        if driver_ready:
            small = small_scope_search(pid, cfg, seed, time.time() + (120 if tier == "quick" else 900))
        worst = small or spec_fails[0]
        matched = None
        for kf in known.get("findings", []):
            if kf.get("property") == pid and all(re.search(kf["match"], d["line"] + " " + d["verdict"]) for d in spec_fails):
                matched = kf
        if matched:
            known_lines.append("KNOWN-FINDING: property=%s %s" % (pid, matched["what"]))
        else:
            path = os.path.join(REPLAY, "%s-%d.json" % (pid, seed))
            write_json(path, {"property": pid, "kind": "failing-input", "seed": seed, "tier": tier,
                              "case": worst, "all_failures": len(spec_fails),
                              "broken": broken,
                              "replay": "tools/check.py --replay " + os.path.relpath(path, ROOT)})
            violations.append("VIOLATION property=%s replay=%s" % (pid, path))
    elif broken:
        found = None
        if driver_ready:
            found = small_scope_search(pid, cfg, seed, time.time() + (180 if tier == "quick" else 1200))
        path = os.path.join(REPLAY, "%s-%d.json" % (pid, seed))
        if found:
            write_json(path, {"property": pid, "kind": "failing-input", "seed": seed, "tier": tier,
                              "case": found, "broken": broken,
                              "replay": "tools/check.py --replay " + os.path.relpath(path, ROOT)})
            violations.append("VIOLATION property=%s replay=%s" % (pid, path))
        else:
            write_json(path, {"property": pid, "kind": "no-failing-input-found", "seed": seed, "tier": tier,
                              "no_longer_checks": broken,
                              "first_model_disagreement": model_fails[:1],
                              "replay": "tools/check.py --property %s --tier %s --seed %d" % (pid, tier, seed)})
            violations.append("VIOLATION property=%s replay=%s no-failing-input-found" % (pid, path))

    wall = time.time() - t0
    evidence = {
        "property_id": pid, "tier": tier, "seed": seed, "level": "proof",
        "coverage": {
            "obligations": len(obligations), "discharged": len(discharged),
            "checker_cmd": "cd lean && lake build %s && lake env lean <#audit_module for each Props module> (axioms of every theorem)%s"
                           % (" ".join(cfg["modules"]), " && lake env leanchecker <module>" if tier == "thorough" else ""),
            "trusted_base": COMMON_TRUSTED + cfg.get("trusted", []),
            "theorems": obligations,
            "undischarged": sorted(set(obligations) - set(discharged)),
            "evaluations": evaluations,
            "distinct_nontrivial": len(nontrivial_hashes),
            "rule": cfg.get("rule", ""),
            "samples": samples if samples else ["<no correspondence sample>"],
            "programs": evaluations,
            "disagreements_checked": len(model_fails) + len(spec_fails),
            "traces_validated_against_impl": evaluations,
            "verdict_histogram": hist,
            "streams": report["streams"],
            "constants_from_source": consts,
            "definitions_translated_from_source": translated,
            "translator_route_unavailable": [t for t in translated if "UNTRANSLATED" in t],
            "escalated_because_untranslated": report.get("escalated", []),
            "broken": broken,
            "explanation": cfg.get("explanation", ""),
        },
        "assumptions": cfg.get("assumptions", []),
        "wall_s": round(wall, 2),
        "violations": len(violations),
    }
    write_json(os.path.join(EVIDENCE, pid + ".json"), evidence)
    for l in known_lines:
        print(l)
    for v in violations:
        print(v)
    print("%s %s: obligations %d/%d, cases %d (nontrivial %d), model-diffs %d, spec-fails %d, %.1fs"
          % (pid, tier, len(discharged), len(obligations), evaluations, len(nontrivial_hashes),
             len(model_fails), len(spec_fails), wall))
    return 1 if violations else 0


def setup():
    ok, c = gen_constants()
    print("constants:", c)
    okt, tr = gen_source_model()
    print("translated:", tr)
    ok = ok and okt
    ok1, out = lake_build(["RsddModel", "rsdd_model_driver"])
    print(out[-2000:])
    ok2, out2 = build_harness()
    print(out2[-1000:])
    ok3 = True
    for pid, cfg in PROPS.items():
        for cwd, cmd in cfg.get("prebuild", []):
            rc, o = sh(cmd, cwd=cwd, timeout=3600)
            print(o[-500:])
            ok3 = ok3 and rc == 0
    return 0 if (ok and ok1 and ok2 and ok3) else 1


def replay(path):
    """Replay a violation file against the CURRENT tree: rebuild the harness from /repo's working
    tree, regenerate exactly the cases of the recorded shard (every case is a function of stream,
    seed and index), run them through the implementation again and let the driver judge them.
    Exit 0 when no case of the shard fails any more, 1 otherwise.  The stored line (input and the
    output the implementation gave at the time) is re-judged as well, for reference."""
    d = json.load(open(path))
    case = d.get("case") or (d.get("first_model_disagreement") or [None])[0]
    if not case:
        print(json.dumps(d, indent=1))
        return 1
    rc, out = sh([DRIVER_BIN], inp=case["line"] + "\n")
    print("stored line re-judged by the current model/spec driver:", out.strip()[:300])
    rr = case.get("rerun")
    if not rr:
        return 0 if out.strip().startswith("ok") else 1
    ok, o = build_harness()
    if not ok:
        print("harness does not build against the current tree")
        return 1
    cmd = [HARNESS_BIN, rr["stream"], "--seed=%d" % rr["seed"], "--from=%d" % rr["from"], "--cases=%d" % rr["cases"]] + rr["args"]
    rc, lines = sh(cmd, timeout=7200)
    lines = [l for l in lines.split("\n") if l.strip()]
    rc2, vo = sh([DRIVER_BIN], inp="\n".join(lines) + "\n", timeout=7200)
    verdicts = [l for l in vo.split("\n") if l.strip()]
    bad = [(l, v) for l, v in zip(lines, verdicts) if v.startswith("FAIL")]
    print("re-run of %s on the current tree: %d cases, %d failing" % (" ".join(cmd[1:]), len(lines), len(bad)))
    for l, v in bad[:3]:
        print("  ", v[:300])
        print("     input:", l.split(" => ")[0][:400])
    return 1 if (bad or rc != 0 or rc2 != 0) else 0


def main():
    ap = argparse.ArgumentParser()
    ap.add_argument("--property")
    ap.add_argument("--tier", default=os.environ.get("VERIF_TIER", "quick"))
    ap.add_argument("--seed", type=int, default=int(os.environ.get("VERIF_SEED", "1")))
    ap.add_argument("--setup", action="store_true")
    ap.add_argument("--replay")
    a = ap.parse_args()
    if a.setup:
        sys.exit(setup())
    if a.replay:
        sys.exit(replay(a.replay))
    if a.property not in PROPS:
        print("unknown property", a.property)
        sys.exit(2)
    sys.exit(run_property(a.property, a.tier, a.seed))


if __name__ == "__main__":
    main()
