#!/usr/bin/env python3
"""Sensitivity / robustness sweep of the translator route over the stored changes.

  tools/tie_sweep.py <verif-copy> <pristine-repo> [name-prefix…]

For every `seeded/<id>/patch.diff` (of the REAL /verif): apply it to a scratch copy of the pristine
source, run every translator of <verif-copy> on the scratch source, `lake build` every tie module
of <verif-copy>, and record (a) which functions left the grammar (UNTRANSLATED), (b) which tie
modules / theorems no longer check.  Nothing touches /repo or /verif/lean: run it on a copy of
/verif (with its .lake) so that it cannot disturb checks running at the same time.
Writes <verif-copy>/tie_sweep.json; prints one line per change.
"""
import json, os, re, shutil, subprocess, sys

copy, pristine = sys.argv[1], sys.argv[2]
prefixes = sys.argv[3:]
REAL = os.path.dirname(os.path.dirname(os.path.abspath(__file__)))
sys.path.insert(0, os.path.join(copy, "tools"))
import check  # noqa: E402  (the copy's TRANSLATORS list)

ties = sorted(f[:-5] for f in os.listdir(os.path.join(copy, "lean", "RsddModel", "Props")) if re.match(r"Tie[A-Z].*\.lean$", f))
mods = ["RsddModel.Props." + t for t in ties]


def run(cmd, cwd=None, env=None):
    e = dict(os.environ)
    if env:
        e.update(env)
    p = subprocess.run(cmd, cwd=cwd, stdout=subprocess.PIPE, stderr=subprocess.STDOUT, text=True, env=e)
    return p.returncode, p.stdout


differs = []


def evaluate(src_root):
    untranslated = []
    differs.clear()
    for t in check.TRANSLATORS:
        path = os.path.join(copy, "tools", t)
        if os.path.exists(path):
            rc, out = run([sys.executable, path], env={"VERIF_REPO": src_root})
            untranslated += [l.split(" -> ")[0] for l in out.split("\n") if "UNTRANSLATED" in l]
            differs.extend(l.split(" -> ")[0] for l in out.split("\n") if "-> DIFFERS" in l)
            if rc != 0:
                untranslated.append(t + " CRASHED")
    rc, out = run(["lake", "build"] + mods, cwd=os.path.join(copy, "lean"))
    failing = sorted(set(re.findall(r"error: RsddModel/(?:Props|Model|Lemmas)/(\w+)\.lean:(\d+)", out)))
    return untranslated, failing


results = {}
scratch = "/tmp/tie_sweep_scratch"
names = sorted(os.listdir(os.path.join(REAL, "seeded")))
for name in names:
    if prefixes and not any(name.startswith(p) for p in prefixes):
        continue
    patch = os.path.join(REAL, "seeded", name, "patch.diff")
    if not os.path.exists(patch):
        continue
    shutil.rmtree(scratch, ignore_errors=True)
    os.makedirs(scratch)
    for d in ("src", "bin"):
        shutil.copytree(os.path.join(pristine, d), os.path.join(scratch, d))
    rc, out = run(["patch", "-p1", "-s", "-i", patch], cwd=scratch)
    if rc != 0:
        results[name] = {"error": "patch does not apply: " + out[-200:]}
        print(name, "PATCH-FAILED")
        continue
    unt, failing = evaluate(scratch)
    files = sorted(set(f for f, _ in failing))
    results[name] = {"untranslated": unt, "failing": ["%s:%s" % x for x in failing], "differs": list(differs)}
    print("%-55s ties failing: %-40s differs: %-30s untranslated: %s" % (name, ",".join(files) or "-", ", ".join(differs) or "-", ", ".join(unt) or "-"), flush=True)
shutil.rmtree(scratch, ignore_errors=True)
# restore the generated files of the copy
unt, failing = evaluate(pristine)
print("pristine: untranslated", unt, "failing", failing)
json.dump(results, open(os.path.join(copy, "tie_sweep.json"), "w"), indent=1)
