R=$(dirname $0)/sddq_runmut.sh
# ---- stored patches
for p in C11-semantic-sdd-compl-probe R4-C10-sddor-clear-skips-false-sub R6-C11-semantic-sdd-stats-poisons-hash-memo C04-binarysdd-ord H2-C11-refactoring; do $R "stored:$p" -p /tmp/tw/sddq/verif/seeded/$p/patch.diff; done
# ---- sdd.rs
$R "sdd.rs neg: Var keeps polarity" src/repr/sdd.rs 'Var(x, p) => Var(*x, !p),' 'Var(x, p) => Var(*x, *p),'
$R "sdd.rs neg: Compl->Compl" src/repr/sdd.rs 'Compl(x) => Reg(x),' 'Compl(x) => Compl(x),'
$R "sdd.rs is_neg: drops ComplBDD" src/repr/sdd.rs 'matches!(self, Compl(_) | ComplBDD(_))' 'matches!(self, Compl(_))'
$R "sdd.rs low: no neg under ComplBDD" src/repr/sdd.rs 'ComplBDD(bdd) => bdd.low().neg(),' 'ComplBDD(bdd) => bdd.low(),'
$R "sdd.rs high: returns low" src/repr/sdd.rs 'BDD(bdd) => bdd.high(),' 'BDD(bdd) => bdd.low(),'
$R "sdd.rs cached_semantic_hash: polarity swapped" src/repr/sdd.rs 'if *polarity {
                    *h_w' 'if !*polarity {
                    *h_w'
$R "sdd.rs cached_semantic_hash: negate dropped" src/repr/sdd.rs 'self.neg().cached_semantic_hash(vtree, map).negate(),' 'self.neg().cached_semantic_hash(vtree, map),'
$R "sdd.rs cached_semantic_hash: True hashes to 0" src/repr/sdd.rs 'PtrTrue => FiniteField::new(1),' 'PtrTrue => FiniteField::new(0),'
$R "sdd.rs fold: sub not negated" src/repr/sdd.rs 'and.sub().neg()
                            } else {' 'and.sub()
                            } else {'
$R "sdd.rs fold: prime negated too" src/repr/sdd.rs 'let p_sub = bottomup_pass_h(and.prime(), f);' 'let p_sub = bottomup_pass_h(if ptr.is_neg() { and.prime().neg() } else { and.prime() }, f);'
$R "sdd.rs fold: cache slots swapped" src/repr/sdd.rs 'ptr.set_scratch::<DDNNFCache<T>>((Some(or_v), cached));' 'ptr.set_scratch::<DDNNFCache<T>>((cached, Some(or_v)));'
$R "sdd.rs fold: guard negation dropped" src/repr/sdd.rs 'Some((None, Some(v))) if !ptr.is_neg() => v,' 'Some((None, Some(v))) if ptr.is_neg() => v,'
$R "sdd.rs fold: hit returns wrong slot" src/repr/sdd.rs 'if ptr.is_neg() {
                                l
                            } else {
                                h
                            }' 'if ptr.is_neg() {
                                h
                            } else {
                                l
                            }'
$R "sdd.rs fold: final clear_scratch removed" src/repr/sdd.rs 'let r = bottomup_pass_h(*self, &f);
        self.clear_scratch();' 'let r = bottomup_pass_h(*self, &f);'
$R "sdd.rs fold: or starts from True" src/repr/sdd.rs 'let mut or_v = f(DDNNF::False);' 'let mut or_v = f(DDNNF::True);'
$R "sdd.rs count_h: marker check removed" src/repr/sdd.rs 'BDD(_) | ComplBDD(_) | Reg(_) | Compl(_) if ptr.scratch::<usize>().is_some() => 0,' ''
$R "sdd.rs count_h: +1 dropped" src/repr/sdd.rs '1 + count_h(node.low()) + 1 + count_h(node.high())' '1 + count_h(node.low()) + count_h(node.high())'
$R "sdd.rs count_h: prime not counted" src/repr/sdd.rs 'c += count_h(a.prime());' ''
$R "sdd.rs clear_scratch: BDD arm does nothing" src/repr/sdd.rs 'BDD(bdd) | ComplBDD(bdd) => bdd.clear_scratch(),
            Reg(or) | Compl(or) => or.clear_scratch(),
        }
    }

    #[inline]
    pub fn is_const' 'BDD(_) | ComplBDD(_) => {}
            Reg(or) | Compl(or) => or.clear_scratch(),
        }
    }

    #[inline]
    pub fn is_const'
$R "sdd.rs enum order: Var before BDD" src/repr/sdd.rs '    BDD(&'"'"'a BinarySDD<'"'"'a>),
    ComplBDD(&'"'"'a BinarySDD<'"'"'a>),
    Var(VarLabel, bool),' '    Var(VarLabel, bool),
    BDD(&'"'"'a BinarySDD<'"'"'a>),
    ComplBDD(&'"'"'a BinarySDD<'"'"'a>),'
# ---- binary_sdd.rs
$R "binary_sdd.rs semantic_hash: weights swapped" src/repr/sdd/binary_sdd.rs 'self.low().cached_semantic_hash(vtree, map) * (*low_w)' 'self.low().cached_semantic_hash(vtree, map) * (*high_w)'
$R "binary_sdd.rs semantic_hash: high twice" src/repr/sdd/binary_sdd.rs '+ self.high().cached_semantic_hash(vtree, map) * (*high_w)' '+ self.low().cached_semantic_hash(vtree, map) * (*high_w)'
$R "binary_sdd.rs semantic_hash: mul for add" src/repr/sdd/binary_sdd.rs '            + self.high()' '            * self.high()'
$R "binary_sdd.rs cached: memo not written" src/repr/sdd/binary_sdd.rs '*(self.semantic_hash.borrow_mut()) = Some(h.value());' ''
$R "binary_sdd.rs cached: memo hit returns raw new(h+1)" src/repr/sdd/binary_sdd.rs 'return FiniteField::new(h);' 'return FiniteField::new(h + 1);'
$R "binary_sdd.rs clear_scratch: high skipped" src/repr/sdd/binary_sdd.rs '        self.high.clear_scratch();' ''
$R "binary_sdd.rs clear_scratch: own cell kept" src/repr/sdd/binary_sdd.rs '*(self.scratch.borrow_mut()) = None;

        self.low.clear_scratch();' 'self.low.clear_scratch();'
$R "binary_sdd.rs cmp: index before label" src/repr/sdd/binary_sdd.rs 'match self.label.cmp(&other.label) {
            core::cmp::Ordering::Equal => {}
            ord => return ord,
        }
        match self.index.cmp(&other.index) {' 'match self.index.cmp(&other.index) {
            core::cmp::Ordering::Equal => {}
            ord => return ord,
        }
        match self.label.cmp(&other.label) {'
$R "binary_sdd.rs cmp: reversed low" src/repr/sdd/binary_sdd.rs 'match self.low.cmp(&other.low) {' 'match other.low.cmp(&self.low) {'
# ---- sdd_or.rs
$R "sdd_or.rs SddAnd::semantic_hash: prime squared" src/repr/sdd/sdd_or.rs 'self.prime.cached_semantic_hash(vtree, map) * self.sub.cached_semantic_hash(vtree, map)' 'self.prime.cached_semantic_hash(vtree, map) * self.prime.cached_semantic_hash(vtree, map)'
$R "sdd_or.rs SddOr::semantic_hash: new() dropped to first elem" src/repr/sdd/sdd_or.rs '.map(|and| and.semantic_hash(vtree, map).value())' '.map(|and| and.prime.cached_semantic_hash(vtree, map).value())'
$R "sdd_or.rs cached: memo condition inverted (stores h+0, returns new(0))" src/repr/sdd/sdd_or.rs '        let h = self.semantic_hash(vtree, map);
        *(self.semantic_hash.borrow_mut()) = Some(h.value());

        h
    }

    pub fn scratch' '        let h = self.semantic_hash(vtree, map);
        *(self.semantic_hash.borrow_mut()) = Some(h.value());

        FiniteField::new(0)
    }

    pub fn scratch'
$R "sdd_or.rs clear_scratch: sub skipped" src/repr/sdd/sdd_or.rs '            n.sub.clear_scratch();' ''
$R "sdd_or.rs clear_scratch: sub before prime" src/repr/sdd/sdd_or.rs '            n.prime.clear_scratch();
            n.sub.clear_scratch();' '            n.sub.clear_scratch();
            n.prime.clear_scratch();'
$R "sdd_or.rs cmp: nodes not compared" src/repr/sdd/sdd_or.rs '        match self.nodes.cmp(&other.nodes) {
            core::cmp::Ordering::Equal => {}
            ord => return ord,
        }' ''
$R "sdd_or.rs SddAnd field order swapped" src/repr/sdd/sdd_or.rs '    pub prime: SddPtr<'"'"'a>,
    pub sub: SddPtr<'"'"'a>,' '    pub sub: SddPtr<'"'"'a>,
    pub prime: SddPtr<'"'"'a>,'
# ---- semantic.rs
$R "semantic.rs get_shared: 1 maps to False" src/builder/sdd/semantic.rs '1 => Some(SddPtr::PtrTrue),
            _ => {
                unsafe' '1 => Some(SddPtr::PtrFalse),
            _ => {
                unsafe'
$R "semantic.rs get_shared: sdd table probed with negation" src/builder/sdd/semantic.rs 'return Some(SddPtr::Reg(sdd));' 'return Some(SddPtr::Reg(sdd).neg());'
$R "semantic.rs check: complement not applied" src/builder/sdd/semantic.rs 'return Some(sdd.neg());' 'return Some(sdd);'
$R "semantic.rs check: negated probe uses plain hash key" src/builder/sdd/semantic.rs '        let semantic_hash = semantic_hash.negate();
        let mut hasher = FxHasher::default();' '        let mut hasher = FxHasher::default();'
$R "semantic.rs check: early return removed (regular probe ignored)" src/builder/sdd/semantic.rs '        if let Some(sdd) = self.get_shared_sdd_ptr(semantic_hash, hash) {
            return Some(sdd);
        }

        // check negated hash' '        // check negated hash'
$R "semantic.rs get_or_insert_sdd: inserts into bdd table" src/builder/sdd/semantic.rs 'let tbl = &mut *self.sdd_tbl.as_ptr();
            SddPtr::Reg(tbl.get_or_insert_by_hash(hash, or, true))' 'let tbl = &mut *self.bdd_tbl.as_ptr();
            SddPtr::Reg(tbl.get_or_insert_by_hash(hash, or, true))'
$R "semantic.rs get_or_insert_bdd: lookup skipped" src/builder/sdd/semantic.rs '        if let Some(sdd) = self.check_cached_hash_and_neg(semantic_hash) {
            return sdd;
        }

        let hash = self.hash_bdd(&bdd);' '        let hash = self.hash_bdd(&bdd);'
$R "semantic.rs app_cache_get: 0 maps to True" src/builder/sdd/semantic.rs '0 => Some(SddPtr::PtrFalse),
            1 => Some(SddPtr::PtrTrue),
            _ => self.app_cache' '0 => Some(SddPtr::PtrTrue),
            1 => Some(SddPtr::PtrTrue),
            _ => self.app_cache'
$R "semantic.rs app_cache_insert: > 1 becomes >= 1" src/builder/sdd/semantic.rs 'if h.value() > 1 {' 'if h.value() >= 1 {'
$R "semantic.rs sdd_eq: != for ==" src/builder/sdd/semantic.rs '        h1 == h2' '        h1 != h2'
$R "semantic.rs stats: counts misses instead of hits" src/builder/sdd/semantic.rs 'if s.contains(&h.value()) {' 'if !s.contains(&h.value()) {'
$R "semantic.rs stats: set never filled" src/builder/sdd/semantic.rs '            s.insert(h.value());' ''
# ---- ddnnf.rs
$R "ddnnf.rs wmc closure: And adds" src/repr/ddnnf.rs 'And(l, r) => l * r,' 'And(l, r) => l + r,'
$R "ddnnf.rs wmc closure: literal weights swapped" src/repr/ddnnf.rs 'if polarity {
                        *high_w' 'if !polarity {
                        *high_w'
$R "ddnnf.rs wmc closure: True is zero" src/repr/ddnnf.rs 'True => params.one,' 'True => params.zero,'
