#!/usr/bin/env python3
"""Translator route for the per-node scratch mechanism of BDDs and the memoised traversals that
use it: regenerates `lean/RsddModel/Model/GenScratch.lean` from the Rust text on every run;
`Props/TieScratch.lean` proves the regenerated definitions equal to the definitions of
`Model/Scratch.lean` (the model of property C10) or to their literal mirrors in
`Lemmas/TieScratchAux.lean`.

Translated (src/repr/bdd.rs): `neg`, `is_neg`, `is_const`, `low`, `high`, `low_raw`, `high_raw`,
`is_scratch_cleared`, `scratch`, `set_scratch`, `clear_scratch`, `bdd_fold_h`, `bdd_fold`,
`fold` (+ nested `bottomup_pass_h`), `count_nodes` (+ nested `count_h`);
(src/repr/ddnnf.rs): the closure of `unsmoothed_wmc`, `unsmoothed_wmc`, `evaluate`, `semantic_hash`;
(src/builder/bdd/builder.rs, src/builder/decision_nnf/builder.rs): `condition`.
Besides, a *census* of the scratch calls (`scratch`, `set_scratch`, `clear_scratch`, `bdd_fold`, `fold`, …)
made by functions that the model treats as scratch-free or as sequences of `bdd_fold` passes.

How a function is translated.  The body is parsed (tools/rustmini_scratch.py) and executed
symbolically, statement by statement: every read of the scratch state uses the current state
expression, every write / recursive call produces a `let` with the new state (explicit state
passing, as in the model).  `match` is compiled arm by arm, guard by guard into an exhaustive Lean
`match` over the constructor shapes that the patterns distinguish (first matching arm wins, a
guarded arm becomes `if guard then body else <later arms>`).  `return` jumps to the function's
(or closure's) continuation.  A recursive function `F` becomes `FStep (rec_ : Ref → S → R) (self_ : PV) …`
(recursive calls ↦ `rec_`) and `F := Scratch.Tr.knot FStep dflt` (the store recursion of the model).

Mapping table (trusted, kept small):
  BddPtr (the pointer the function runs on)  ↦ Scratch.Tr.PV  (patterns `Reg(n)`/`Compl(n)` bind the node `n` and
                                               the index `n_i` of its `data` cell); any other BddPtr value ↦ Scratch.Ref
  n.var / n.low / n.high                     ↦ n.var / n.lo / n.hi
  n.data.borrow()                            ↦ (σ n_i)          (σ = current scratch state)
  cell.is_some() / is_none()                 ↦ (cell).isSome / !(cell).isSome
  cell.as_ref() / .unwrap() / .cloned()      ↦ cell             (the panic of `unwrap` on an empty cell: outside the hypotheses)
  cell?                                      ↦ if (cell).isSome then <continue with cell> else return none
  cell.downcast_ref::<T>()                   ↦ cast cell        (`cast` = the downcast at the generic parameter T of `scratch`)
  *n.data.borrow_mut() = None                ↦ σ := σ.set n_i .empty
  *n.data.borrow_mut() = Some(Box::new(v))   ↦ σ := σ.set n_i (box v)
  turbofish types  (Option<T>,Option<T>) [= DDNNFCache<T>, alias read from the source] ↦ Cell.asPair t / Cell.pair t
                   usize ↦ Cell.asCount / Cell.count      BddPtr ↦ Cell.asPtr / Cell.ptr
  p.is_neg() p.neg() p.is_const() p.low() …  ↦ the generated isNeg / neg / isConst / low … (on `self_.ref` for Ref functions)
  F(child, same other args) / child.F(..)    ↦ rec_ child state      (inside F)
  self.F(..) / F(*self, ..) in a wrapper     ↦ F … s r state        (the wrapper runs on store `s`, root `r`)
  &mut usize parameter / `let mut` local     ↦ a component of the threaded state
  Some(e) None (a, b) e.unwrap_or(d)         ↦ some e / none / (a, b) / (e).getD d
  DDNNF::Or(a,b,vs) And Lit True False       ↦ Scratch.DDNNF.or a b (Tr.theVar vs) / .and / .lit / .tru / .fls
  VarSet::new() / vs.insert(x)               ↦ ([] : List Nat) / vs := vs ++ [x]
  debug_assert!(..)                          ↦ skipped (a precondition; see Props/C10.lean)     panic!(..) ↦ default
  (ddnnf.rs) l + r, l * r, params.one/zero, params.var_weight(x) ↦ S.add l r, S.mul l r, S.one/S.zero, w x
  (ddnnf.rs) self.fold(c) ↦ Query.fold t (Alg.ofF c);  self.unsmoothed_wmc(p) ↦ the generated unsmoothedWmc
  (ddnnf.rs) WmcParams::new(HashMap::from_iter(xs.iter().enumerate().map(|(i, p)| (VarLabel::new(i as u64), (A, B)))))
                                             ↦ fun i => (A, B) with p := xs i ;  BooleanSemiring(b) ↦ b ;  `.0` ↦ identity
  (builders) self.cond_helper(p, l, v)       ↦ Scratch.condAlloc lt l v s p (s, [])   resp.  Scratch.dnnfCondH l v σ s p s
                                               (RobddBuilder::cond_helper = cond_with_alloc with a fresh map; the store `s` is threaded)
  census                                     ↦ the list of `.scratch` / `.set_scratch` / `.clear_scratch` / `.is_scratch_cleared`
                                               method-call tokens of a function body, in source order (debug_assert! removed)
"""
import os, re, sys

sys.path.insert(0, os.path.dirname(os.path.abspath(__file__)))
from rustmini_scratch import (Untranslatable, find_fn, parse_body, parse_params, find_type_alias,  # noqa: E402
                              fn_names_in, strip_comments)

ROOT = os.path.dirname(os.path.dirname(os.path.abspath(__file__)))
REPO = os.environ.get("VERIF_REPO", "/repo")
OUT = os.path.join(ROOT, "lean", "RsddModel", "Model", "GenScratch.lean")

IMPL_BDD = r"impl<'a>\s+BddPtr<'a>\s*\{"
IMPL_DDNNF_BDD = r"impl<'a>\s+DDNNFPtr<'a>\s+for\s+BddPtr<'a>\s*\{"
TRAIT_DDNNF = r"pub\s+trait\s+DDNNFPtr<'a>"


# ---------------------------------------------------------------------------------------------
# values and text helpers
# ---------------------------------------------------------------------------------------------
class V:
    """a translated value: Lean text + what kind of Rust thing it is"""

    def __init__(self, lean, kind="val", extra=None):
        self.lean, self.kind, self.extra = lean, kind, extra

    def __repr__(self):
        return "V(%r,%s)" % (self.lean, self.kind)


UNIT = V("()", "unit")
ATOM = re.compile(r"^[A-Za-z0-9_.'σ]+$")


def balanced(s):
    d = 0
    for ch in s:
        if ch == "(":
            d += 1
        elif ch == ")":
            d -= 1
            if d < 0:
                return False
    return d == 0


def paren(e):
    if ATOM.match(e) or (e.startswith("(") and e.endswith(")") and balanced(e[1:-1])):
        return e
    if "\n" in e:
        return "(\n" + ind(e, 2) + ")"
    return "(" + e + ")"


def ind(s, k):
    return "\n".join((" " * k + l) if l else l for l in s.split("\n"))


def is_atom(e):
    return bool(ATOM.match(e))


class Fx:
    """per-function context"""

    def __init__(self, mode, name, callees=None, arith=None, aliases=None):
        self.mode = mode          # 'ref' | 'pv' | 'step' | 'top' | 'closure'
        self.name = name          # Rust name of the function being translated (recursion target in 'step')
        self.callees = callees or {}
        self.arith = arith        # None (Nat arithmetic) or name of the SROps record
        self.aliases = aliases or {}
        self.n = 0
        self.ret = None           # continuation of `return`
        self.params = {}          # Rust parameter name -> expected Lean text (for "same other args")

    def fresh(self, base):
        self.n += 1
        return "%s%d" % (base, self.n)


class Impure(Exception):
    pass


# ---------------------------------------------------------------------------------------------
# types in turbofish position
# ---------------------------------------------------------------------------------------------
def cast_box(ty, fx):
    t = ty.replace(" ", "")
    for _ in range(3):
        m = re.match(r"^([A-Za-z_][A-Za-z0-9_]*)<T>$", t)
        if m and m.group(1) in fx.aliases:
            t = fx.aliases[m.group(1)]
        else:
            break
    if t == "(Option<T>,Option<T>)":
        return "(Scratch.Cell.asPair t)", "(fun p => Scratch.Cell.pair t p.1 p.2)"
    if t == "usize":
        return "Scratch.Cell.asCount", "Scratch.Cell.count"
    if t == "BddPtr":
        return "Scratch.Cell.asPtr", "Scratch.Cell.ptr"
    raise Untranslatable("scratch type %s" % ty)


# ---------------------------------------------------------------------------------------------
# constructors known to the match compiler
# ---------------------------------------------------------------------------------------------
CTORS = {
    "Option": [("None", 0), ("Some", 1)],
    "BddPtr": [("PtrTrue", 0), ("PtrFalse", 0), ("Reg", 1), ("Compl", 1)],
    "DDNNF": [("Or", 3), ("And", 2), ("Lit", 2), ("True", 0), ("False", 0)],
    "bool": [("true", 0), ("false", 0)],
}
CTOR_TYPE = {c: t for t, cs in CTORS.items() for c, _ in cs}
LEAN_CTOR = {"None": "none", "Some": "some", "PtrTrue": ".tru", "PtrFalse": ".fls", "Reg": ".reg", "Compl": ".compl",
             "Or": ".or", "And": ".and", "Lit": ".lit", "True": ".tru", "False": ".fls", "true": "true", "false": "false"}


def norm_pat(p):
    """patterns -> ('w',) | ('b', name) | ('c', ctor, [pats]) | ('t', [pats]) | ('or', [pats])"""
    k = p[0]
    if k == "pwild":
        return ("w",)
    if k == "pvar":
        return ("b", p[1])
    if k == "pref":
        return norm_pat(p[1])
    if k == "ptuple":
        return ("t", [norm_pat(x) for x in p[1]])
    if k == "por":
        return ("or", [norm_pat(x) for x in p[1]])
    if k == "pctor":
        c = p[1][-1]
        if c not in CTOR_TYPE:
            raise Untranslatable("constructor %s" % c)
        if len(p[2]) != dict(CTORS[CTOR_TYPE[c]])[c]:
            raise Untranslatable("arity of %s" % c)
        return ("c", c, [norm_pat(x) for x in p[2]])
    if k == "plit" and p[1][0] == "bool":
        return ("c", "true" if p[1][1] else "false", [])
    raise Untranslatable("pattern kind " + k)


def alts(p):
    """expand or-patterns to a list of or-free patterns"""
    if p[0] in ("w", "b"):
        return [p]
    if p[0] == "or":
        return [a for x in p[1] for a in alts(x)]
    subs = p[-1]
    combos = [[]]
    for s in subs:
        combos = [c + [a] for c in combos for a in alts(s)]
    return [(p[0], c) if p[0] == "t" else (p[0], p[1], c) for c in combos]


class Shapes:
    """shape = ('v', name, kind) | ('c', ctor, [shapes], scrutkind) | ('t', [shapes])"""

    def __init__(self, fx):
        self.fx = fx

    def var(self, kind="val"):
        return ("v", self.fx.fresh("x"), kind)

    def split(self, s, p, skind):
        if p[0] in ("w", "b"):
            return [s]
        if p[0] == "t":
            if s[0] == "v":
                s = ("t", [self.var() for _ in p[1]])
            if s[0] != "t" or len(s[1]) != len(p[1]):
                raise Untranslatable("tuple pattern against non-tuple")
            res = [[]]
            for sub, pp in zip(s[1], p[1]):
                res = [pre + [x] for pre in res for x in self.split(sub, pp, "val")]
            return [("t", r) for r in res]
        if p[0] == "c":
            if s[0] == "v":
                ty = CTOR_TYPE[p[1]]
                sk = s[2] if s[2] in ("pv", "ref") else skind
                out = []
                for c, ar in CTORS[ty]:
                    if ty == "BddPtr":
                        if sk not in ("pv", "ref"):
                            raise Untranslatable("match on a BddPtr of unknown provenance")
                        subs = [self.var("node" if sk == "pv" else "val") for _ in range(ar)]
                    else:
                        subs = [self.var() for _ in range(ar)]
                    out.append(("c", c, subs, sk))
                return [y for x in out for y in self.split(x, p, skind)]
            if s[0] != "c":
                raise Untranslatable("constructor pattern against tuple")
            if CTOR_TYPE[s[1]] != CTOR_TYPE[p[1]]:
                raise Untranslatable("patterns of different types")
            if s[1] != p[1]:
                return [s]
            res = [[]]
            for sub, pp in zip(s[2], p[2]):
                res = [pre + [x] for pre in res for x in self.split(sub, pp, "val")]
            return [("c", s[1], r, s[3]) for r in res]
        raise Untranslatable("pattern " + p[0])


def shape_term(s):
    """Lean term/pattern of a shape, and its kind"""
    if s[0] == "v":
        if s[2] == "node":
            return s[1] + " " + s[1] + "_i"
        return s[1]
    if s[0] == "t":
        return "(" + ", ".join(shape_term(x) for x in s[1]) + ")"
    lc = LEAN_CTOR[s[1]]
    if CTOR_TYPE[s[1]] == "DDNNF":
        lc = "Scratch.DDNNF" + lc
    if CTOR_TYPE[s[1]] == "BddPtr":
        lc = ("Scratch.Tr.PV" if s[3] == "pv" else "Scratch.Ref") + lc
    if not s[2]:
        return lc
    return "(" + lc + " " + " ".join(shape_term(x) for x in s[2]) + ")"


def shape_value(s):
    if s[0] == "v":
        return V(s[1], s[2])
    return V(shape_term(s), "val")


def match_shape(s, p, binds):
    """does or-free pattern p match shape s (shapes are refined enough that the answer is definite)"""
    if p[0] == "w":
        return True
    if p[0] == "b":
        binds[p[1]] = shape_value(s)
        return True
    if p[0] == "t":
        if s[0] != "t":
            raise Untranslatable("shape not refined")
        return all(match_shape(a, b, binds) for a, b in zip(s[1], p[1]))
    if p[0] == "c":
        if s[0] != "c":
            raise Untranslatable("shape not refined")
        if s[1] != p[1]:
            return False
        return all(match_shape(a, b, binds) for a, b in zip(s[2], p[2]))
    raise Untranslatable("pattern " + p[0])


# ---------------------------------------------------------------------------------------------
# the symbolic executor (continuation passing: K(value, state) -> Lean text of the rest)
# ---------------------------------------------------------------------------------------------
RET = "\0ret"


def contains_ret(a):
    if isinstance(a, tuple):
        if a and a[0] in ("ret", "return"):
            return True
        if a and a[0] in ("closure", "fn"):
            return False
        if a and a[0] == "macro":
            return a[1] in ("panic", "unreachable", "unimplemented")
        return any(contains_ret(x) for x in a)
    if isinstance(a, list):
        return any(contains_ret(x) for x in a)
    return False


def pack(vals):
    return vals[0] if len(vals) == 1 else "(" + ", ".join(vals) + ")"


def projs(name, n):
    """projections of an n-tuple bound to `name`"""
    if n == 1:
        return [name]
    out = []
    for i in range(n):
        out.append(name + ".2" * i + (".1" if i < n - 1 else ""))
    return out


def state_keys(st):
    return [k for k in st if k != "s" or True]


def run_list(es, env, st, fx, K):
    def go(i, acc, st1):
        if i == len(es):
            return K(acc, st1)
        return run(es[i], env, st1, fx, lambda v, st2: go(i + 1, acc + [v], st2))
    return go(0, [], st)


def let_(fx, base, rhs, body_fn):
    """`let name := rhs` followed by the body (atoms are not re-bound)"""
    if is_atom(rhs):
        return body_fn(rhs)
    name = fx.fresh(re.sub(r"[^A-Za-z0-9_]", "", base) + "_")
    body = body_fn(name)
    rhs_t = rhs if "\n" not in rhs else "(\n" + ind(rhs, 2) + ")"
    return "let %s := %s\n%s" % (name, rhs_t, body)


def join(branches_fn, env, st, fx, K, discard, tail, diverges):
    """branches_fn(Kb) -> Lean text of a branching construct whose leaves are produced by Kb.
    Either inline K into the leaves (tail position / early exits) or bind the branching construct
    with a `let` that packs the value and the changed state components."""
    if tail or diverges:
        return branches_fn(K)
    probe = []
    n0 = fx.n
    branches_fn(lambda v, st1: (probe.append((v, st1)), "")[1])
    fx.n = n0
    if not probe:
        return branches_fn(K)
    changed = [k for k in st if any(st1.get(k) != st[k] for _, st1 in probe)]
    for _, st1 in probe:
        for k in st1:
            if k not in st:
                raise Untranslatable("state component %s created in a branch" % k)
    has_val = (not discard) and any(v.kind != "unit" for v, _ in probe)
    kinds = set(v.kind for v, _ in probe)
    if not has_val and not changed:
        return K(UNIT, st)
    text = branches_fn(lambda v, st1: pack(([v.lean] if has_val else []) + [st1[k] for k in changed]))

    def after(name):
        ps = projs(name, (1 if has_val else 0) + len(changed))
        st2 = dict(st)
        for k, p in zip(changed, ps[1:] if has_val else ps):
            st2[k] = p
        v = V(ps[0], kinds.pop() if len(kinds) == 1 else "val") if has_val else UNIT
        return K(v, st2)
    if is_atom(text):
        return after(text)
    name = fx.fresh("j_")
    rhs_t = text if "\n" not in text else "(\n" + ind(text, 2) + ")"
    return "let %s := %s\n%s" % (name, rhs_t, after(name))


def if_text(c, a, b):
    if "\n" not in a and "\n" not in b and len(a) + len(b) < 100:
        return "if %s then %s else %s" % (c, a, b)
    return "if %s then\n%s\nelse\n%s" % (c, ind(a, 2), ind(b, 2))


def compile_match(scr, arms, env, st, fx, K, discard, tail, default=None):
    """arms: [(normalised pattern, guard AST or None, body_fn(env2, st, K) -> text)]"""
    sh = Shapes(fx)
    skind = scr.kind
    shapes = [("v", scr.lean, skind)]
    arm_alts = [(alts(p), g, b) for p, g, b in arms]
    for als, _, _ in arm_alts:
        for p in als:
            shapes = [y for s in shapes for y in sh.split(s, p, skind)]
    diverges = any(getattr(b, "diverges", False) for _, _, b in arm_alts) or (default is not None and getattr(default, "diverges", False))

    def branches(Kb):
        def chain(s, i, st1):
            if i == len(arm_alts):
                if default is None:
                    raise Untranslatable("match is not exhaustive")
                return default(env, st1, Kb)
            als, g, body = arm_alts[i]
            for p in als:
                binds = {}
                if match_shape(s, p, binds):
                    env2 = dict(env)
                    env2.update(binds)
                    if g is None:
                        return body(env2, st1, Kb)
                    return run(g, env2, st1, fx,
                               lambda gv, st2: if_text(gv.lean, body(env2, st2, Kb), chain(s, i + 1, st2)))
            return chain(s, i + 1, st1)
        if len(shapes) == 1 and shapes[0][0] == "v":
            return chain(shapes[0], 0, st)
        lines = ["match %s with" % scr.lean]
        for s in shapes:
            lines.append("| %s =>\n%s" % (shape_term(s), ind(chain(s, 0, st), 4)))
        return "(" + "\n".join(lines) + ")"
    return join(branches, env, st, fx, K, discard, tail, diverges)


def body_fn_of(ast, fx, discard=False):
    def f(env2, st1, Kb):
        return run(ast, env2, st1, fx, Kb, discard=discard, tail=True)
    f.diverges = contains_ret(ast)
    return f


def bind_pat(pat, v, env, st, fx, cont, else_blk=None):
    """bind a `let` pattern; cont(env2, st) -> text"""
    k = pat[0]
    if k == "pwild":
        return cont(env, st)
    if k == "pvar":
        if v.kind in ("closure", "pv", "node", "fn", "params", "top", "data", "cell", "unit") or is_atom(v.lean):
            env2 = dict(env)
            env2[pat[1]] = v
            return cont(env2, st)

        def body(name):
            env2 = dict(env)
            env2[pat[1]] = V(name, v.kind, v.extra)
            return cont(env2, st)
        return let_(fx, pat[1], v.lean, body)
    if k == "ptuple" and all(p[0] in ("pvar", "pwild") for p in pat[1]):
        if v.extra is not None and len(v.extra) == len(pat[1]):
            def go(i, env1):
                if i == len(pat[1]):
                    return cont(env1, st)
                return bind_pat(pat[1][i], v.extra[i], env1, st, fx, lambda e2, _s: go(i + 1, e2))
            return go(0, env)

        def body(name):
            env2 = dict(env)
            for p, pr in zip(pat[1], projs(name, len(pat[1]))):
                if p[0] == "pvar":
                    env2[p[1]] = V(pr)
            return cont(env2, st)
        return let_(fx, "p", v.lean, body)
    # refutable / structured pattern: a one-armed match (with the `else` block of a let-else)
    arm = (norm_pat(pat), None, _cont_body(cont))
    default = None
    if else_blk is not None:
        default = body_fn_of(else_blk, fx)
    return compile_match(v, [arm], env, st, fx, None, False, True, default=default)


def _cont_body(cont):
    def f(env2, st1, _Kb):
        return cont(env2, st1)
    f.diverges = True
    return f


def run_block(blk, env, st, fx, K, discard=False, tail=False):
    stmts, tl = blk[1], blk[2]

    def seq(i, env1, st1):
        if i == len(stmts):
            if tl is None:
                return K(UNIT, st1)
            return run(tl, env1, st1, fx, K, discard=discard, tail=tail)
        s = stmts[i]
        k = s[0]
        rest_tail = tail and i == len(stmts) - 1 and tl is None
        if k in ("use", "fn"):
            if k == "fn" and s[1] not in fx.callees:
                env2 = dict(env1)
                env2[s[1]] = V(None, "closure", ([("pvar", p) for p, _ in s[2]], s[3], None))
                return seq(i + 1, env2, st1)
            return seq(i + 1, env1, st1)
        if k == "let":
            if s[3][0] == "closure":
                env2 = dict(env1)
                if s[1][0] != "pvar":
                    raise Untranslatable("closure bound to a pattern")
                env2[s[1][1]] = V(None, "closure", (s[3][1], s[3][2], env1))
                return seq(i + 1, env2, st1)

            def after(v, st2):
                if s[2]:     # let mut
                    if s[1][0] != "pvar":
                        raise Untranslatable("let mut with a pattern")

                    def body(name):
                        st3 = dict(st2)
                        st3["L:" + s[1][1]] = name
                        return seq(i + 1, env1, st3)
                    return let_(fx, s[1][1], v.lean, body)
                return bind_pat(s[1], v, env1, st2, fx, lambda e2, s2: seq(i + 1, e2, s2))
            return run(s[3], env1, st1, fx, after)
        if k == "letelse":
            return run(s[2], env1, st1, fx,
                       lambda v, st2: bind_pat(s[1], v, env1, st2, fx, lambda e2, s2: seq(i + 1, e2, s2), else_blk=s[3]))
        if k == "return":
            if s[1] is None:
                return env1[RET](UNIT, st1)
            return run(s[1], env1, st1, fx, env1[RET], tail=True)
        if k == "expr":
            return run(s[1], env1, st1, fx, lambda v, st2: seq(i + 1, env1, st2), discard=True, tail=False)
        if k == "assign":
            return assign(s, env1, st1, fx, lambda st2: seq(i + 1, env1, st2))
        raise Untranslatable("statement kind " + k)
    return seq(0, env, st)


def strip_ref(e):
    while e[0] == "un" and e[1] in ("*", "&"):
        e = e[2]
    return e


def assign(s, env, st, fx, cont):
    op, lhs, rhs = s[1], s[2], s[3]
    tgt = strip_ref(lhs)
    # *n.data.borrow_mut() = None | Some(Box::new(v))
    if tgt[0] == "mcall" and tgt[2] == "borrow_mut" and not tgt[3] and op == "=":
        def after(cv, st1):
            if cv.kind != "data":
                raise Untranslatable("borrow_mut of something that is not a node's data")
            r = strip_ref(rhs)
            if r == ("var", "None"):
                newcell = "Scratch.Cell.empty"
            elif r[0] == "call" and r[1] == ("var", "Some") and len(r[2]) == 1 and r[2][0][0] == "call" \
                    and r[2][0][1] == ("path", ["Box", "new"]) and len(r[2][0][2]) == 1:
                if "box" not in env:
                    raise Untranslatable("boxing outside set_scratch")
                inner = run(r[2][0][2][0], env, st1, fx, lambda v, _s: v.lean)
                newcell = "(box %s)" % paren(inner)
            else:
                raise Untranslatable("value written to a node's data")
            return let_(fx, "s", "Scratch.Scr.set %s %s %s" % (paren(st1["σ"]), cv.lean, newcell),
                        lambda name: cont(dict(st1, **{"σ": name})))
        return run(tgt[1], env, st, fx, after)
    if tgt[0] == "var":
        key = tgt[1] if tgt[1] in st and tgt[1] != "σ" else "L:" + tgt[1]
        if key not in st:
            raise Untranslatable("assignment to %s" % tgt[1])

        def after(v, st1):
            if op == "=":
                new = v.lean
            elif op in ("+=", "-=", "*="):
                new = "%s %s %s" % (paren(st1[key]), op[0], paren(v.lean))
            else:
                raise Untranslatable("assignment operator " + op)
            return let_(fx, tgt[1], new, lambda name: cont(dict(st1, **{key: name})))
        return run(rhs, env, st, fx, after)
    raise Untranslatable("assignment target")


PV_PURE = {"low": "low", "high": "high", "low_raw": "lowRaw", "high_raw": "highRaw"}
REF_PURE = {"neg": "neg", "is_neg": "isNeg", "is_const": "isConst"}
DDNNF_CTOR = {"Or": "or", "And": "and", "Lit": "lit", "True": "tru", "False": "fls"}


def same_param(v, name, fx):
    return v.lean == fx.params.get(name, name)


def call_callee(name, ptr_e, arg_es, env, st, fx, K):
    """a call of one of the state-passing functions of the callee table"""
    spec = fx.callees[name]

    def with_ptr(pv_, st1):
        def with_args(avs, st2):
            extra = spec["extra"]
            comps = spec["comps"]
            rest = list(avs)
            if len(rest) != len(extra) + len(comps) - 1:
                raise Untranslatable("arguments of %s" % name)
            for nm, v in zip(extra, rest[:len(extra)]):
                if not same_param(v, nm, fx):
                    raise Untranslatable("%s is called with a changed argument %s" % (name, nm))
            keys = ["σ"]
            for c, a in zip(comps[1:], arg_es[len(extra):]):
                a = strip_ref(a)
                if a[0] != "var":
                    raise Untranslatable("&mut argument of %s" % name)
                key = a[1] if (a[1] in st2 and a[1] != "σ") else "L:" + a[1]
                if key not in st2:
                    raise Untranslatable("&mut argument %s is not a mutable local" % a[1])
                keys.append(key)
            state = pack([st2[k] for k in keys])
            if fx.mode == "step" and name == fx.name:
                if pv_.kind in ("pv", "node", "top"):
                    raise Untranslatable("recursive call on the same pointer")
                callee = "rec_ %s %s" % (paren(pv_.lean), paren(state))
            elif fx.mode == "top":
                callee = "%s %s %s %s" % (spec["lean"] + "".join(" " + fx.params.get(x, x) for x in extra),
                                          paren(st2["s"]), paren(pv_.lean), paren(state))
            else:
                raise Untranslatable("call of %s from %s" % (name, fx.name))

            def body(a):
                ps = projs(a, (1 if spec["val"] else 0) + len(keys))
                st3 = dict(st2)
                for k, p in zip(keys, ps[1:] if spec["val"] else ps):
                    st3[k] = p
                return K(V(ps[0]) if spec["val"] else UNIT, st3)
            return let_(fx, "a", callee, body)
        # the trailing &mut arguments are not evaluated as values
        n_val = len(spec["extra"])
        return run_list(arg_es[:n_val], env, st1, fx,
                        lambda avs, st2: with_args(avs + [None] * (len(arg_es) - n_val), st2))
    return run(ptr_e, env, st, fx, with_ptr)


def call_closure(cv, arg_es, env, st, fx, K, tail):
    params, body, cenv = cv.extra
    if len(params) != len(arg_es):
        raise Untranslatable("closure arity")
    base = dict(cenv) if cenv is not None else {k: v for k, v in env.items() if k == RET or v.kind in ("closure", "fn")}

    def with_args(avs, st1):
        def go(i, env1):
            if i == len(params):
                env2 = dict(env1)
                env2[RET] = K
                return run(body, env2, st1, fx, K, tail=True)
            return bind_pat(params[i], avs[i], env1, st1, fx, lambda e2, _s: go(i + 1, e2))
        return go(0, base)
    return run_list(arg_es, env, st, fx, with_args)


def run(e, env, st, fx, K, discard=False, tail=False):
    k = e[0]
    if k == "num":
        return K(V(e[1]), st)
    if k == "bool":
        return K(V("true" if e[1] else "false"), st)
    if k == "var":
        n = e[1]
        if n == "None":
            return K(V("none"), st)
        if n in ("PtrTrue", "PtrFalse") and n not in env:
            return K(V("Scratch.Ref.tru" if n == "PtrTrue" else "Scratch.Ref.fls", "ref"), st)
        if "L:" + n in st:
            return K(V(st["L:" + n]), st)
        if n in st and n not in ("σ", "s"):
            return K(V(st[n]), st)
        if n in env:
            return K(env[n], st)
        raise Untranslatable("unknown name %r" % n)
    if k == "path":
        if e[1][-1] in ("True", "False") and (e[1][0] == "DDNNF" or len(e[1]) == 1):
            return K(V("Scratch.DDNNF." + DDNNF_CTOR[e[1][-1]]), st)
        if e[1] in (["BddPtr", "PtrTrue"], ["PtrTrue"]):
            return K(V("Scratch.Ref.tru", "ref"), st)
        if e[1] in (["BddPtr", "PtrFalse"], ["PtrFalse"]):
            return K(V("Scratch.Ref.fls", "ref"), st)
        raise Untranslatable("path %s" % "::".join(e[1]))
    if k == "un":
        if e[1] in ("*", "&"):
            return run(e[2], env, st, fx, K, discard, tail)
        if e[1] == "!":
            return run(e[2], env, st, fx, lambda v, st1: K(V("!" + paren(v.lean)), st1))
        raise Untranslatable("unary " + e[1])
    if k == "cast":
        if e[2].strip() in ("usize", "u64", "u32"):
            return run(e[1], env, st, fx, K)
        raise Untranslatable("cast to " + e[2])
    if k == "tuple":
        return run_list(e[1], env, st, fx,
                        lambda vs, st1: K(V("(" + ", ".join(v.lean for v in vs) + ")", "val", vs), st1))
    if k == "macro":
        if e[1] in ("debug_assert", "debug_assert_eq", "println"):
            return K(UNIT, st)
        if e[1] in ("panic", "unreachable"):
            # the Rust aborts here: the value is `default`, the state is kept (outside every theorem's hypotheses)
            return K(V("default", "unit" if discard else "val"), st)
        raise Untranslatable("macro %s!" % e[1])
    if k == "ret":
        if e[1] is None:
            return env[RET](UNIT, st)
        return run(e[1], env, st, fx, env[RET], tail=True)
    if k == "block":
        return run_block(e, env, st, fx, K, discard, tail)
    if k == "try":
        # `cell?` : an empty cell returns None from the function
        def with_cell(cv, st1):
            if cv.kind != "cell":
                raise Untranslatable("`?` on a %s" % cv.kind)
            return if_text("Scratch.Cell.isSome %s" % paren(cv.lean), K(cv, st1), env[RET](V("none"), st1))
        return run(e[1], env, st, fx, with_cell)
    if k == "if":
        def with_c(cv, st1):
            els = e[3] if e[3] is not None else ("block", [], None)

            def branches(Kb):
                return if_text(cv.lean, run(e[2], env, st1, fx, Kb, discard, True), run(els, env, st1, fx, Kb, discard, True))
            return join(branches, env, st1, fx, K, discard, tail, contains_ret(e[2]) or contains_ret(els))
        return run(e[1], env, st, fx, with_c)
    if k == "iflet":
        els = e[4] if e[4] is not None else ("block", [], None)
        arms = [(norm_pat(e[1]), None, body_fn_of(e[3], fx, discard))]
        return run(e[2], env, st, fx,
                   lambda sv, st1: let_scrut(sv, fx, lambda sv2: compile_match(sv2, arms, env, st1, fx, K, discard, tail,
                                                                               default=body_fn_of(els, fx, discard))))
    if k == "match":
        arms = [(norm_pat(p), g, body_fn_of(b, fx, discard)) for p, g, b in e[2]]
        return run(e[1], env, st, fx,
                   lambda sv, st1: let_scrut(sv, fx, lambda sv2: compile_match(sv2, arms, env, st1, fx, K, discard, tail)))
    if k == "field":
        def with_r(rv, st1):
            f = e[2]
            if rv.kind == "node":
                if f == "var":
                    return K(V(rv.lean + ".var"), st1)
                if f in ("low", "high"):
                    return K(V(rv.lean + (".lo" if f == "low" else ".hi"), "ref"), st1)
                if f == "data":
                    return K(V(rv.lean + "_i", "data"), st1)
            if rv.kind == "params" and f in ("one", "zero"):
                return K(V("S." + f), st1)
            if rv.kind == "wrapped" and f == "0":
                return K(V(rv.lean), st1)
            raise Untranslatable("field .%s of a %s" % (f, rv.kind))
        return run(e[1], env, st, fx, with_r)
    if k == "bin":
        op = e[1]

        def with_ab(vs, st1):
            a, b = vs[0].lean, vs[1].lean
            if op in ("+", "*") and fx.arith:
                return K(V("%s.%s %s %s" % (fx.arith, "add" if op == "+" else "mul", paren(a), paren(b))), st1)
            if op in ("+", "-", "*"):
                return K(V("%s %s %s" % (paren(a), op, paren(b))), st1)
            if op in ("==", "!="):
                return K(V("(%s %s %s)" % (paren(a), op, paren(b))), st1)
            if op in ("<", "<=", ">", ">="):
                lop = {"<": "<", "<=": "≤", ">": ">", ">=": "≥"}[op]
                return K(V("decide (%s %s %s)" % (paren(a), lop, paren(b))), st1)
            if op in ("&&", "||"):
                return K(V("(%s %s %s)" % (paren(a), op, paren(b))), st1)
            raise Untranslatable("operator " + op)
        if op in ("&&", "||") and (contains_effect(e[3], fx, env)):
            raise Untranslatable("effect under a short-circuit operator")
        return run_list([e[2], e[3]], env, st, fx, with_ab)
    if k == "call":
        f, args = e[1], e[2]
        if f[0] == "var" and f[1] in fx.callees and f[1] not in env:
            if not args:
                raise Untranslatable("call of %s without pointer" % f[1])
            return call_callee(f[1], args[0], args[1:], env, st, fx, K)
        if f[0] == "var" and f[1] in env and env[f[1]].kind == "closure":
            return call_closure(env[f[1]], args, env, st, fx, K, tail)
        if f[0] == "var" and f[1] in env and env[f[1]].kind == "fn":
            return run_list(args, env, st, fx,
                            lambda vs, st1: K(V("%s %s" % (env[f[1]].lean, " ".join(paren(v.lean) for v in vs))), st1))
        if f[0] in ("var", "path") and (f[1] if f[0] == "var" else f[1][-1]) in ("Reg", "Compl") and len(args) == 1:
            c = (f[1] if f[0] == "var" else f[1][-1])

            def mkptr(v, st1):
                if v.kind == "node":
                    return K(V("Scratch.Ref.%s %s_i" % ("reg" if c == "Reg" else "compl", v.lean), "ref"), st1)
                if v.kind == "val" and is_atom(v.lean):
                    return K(V("Scratch.Ref.%s %s" % ("reg" if c == "Reg" else "compl", v.lean), "ref"), st1)
                raise Untranslatable("pointer built from a %s" % v.kind)
            return run(args[0], env, st, fx, mkptr)
        if f == ("var", "Some") and len(args) == 1:
            return run(args[0], env, st, fx, lambda v, st1: K(V("some " + paren(v.lean)), st1))
        if f[0] == "path" and f[1][-1] in ("Or", "And", "Lit") and (f[1][0] == "DDNNF" or len(f[1]) == 1):
            def mk(vs, st1):
                ls = [paren(v.lean) for v in vs]
                c = f[1][-1]
                if c == "Or":
                    if len(ls) != 3:
                        raise Untranslatable("arity of Or")
                    ls[2] = "(Scratch.Tr.theVar %s)" % ls[2]
                elif len(ls) != 2:
                    raise Untranslatable("arity of " + c)
                return K(V("Scratch.DDNNF.%s %s" % (DDNNF_CTOR[c], " ".join(ls))), st1)
            return run_list(args, env, st, fx, mk)
        if f == ("path", ["VarSet", "new"]) and not args:
            return K(V("([] : List Nat)"), st)
        if f[0] == "path" and f[1] in (["VarLabel", "new"], ["VarLabel", "new_usize"]) and len(args) == 1:
            return run(args[0], env, st, fx, K)
        if f == ("var", "BooleanSemiring") and len(args) == 1 and fx.mode == "query":
            return run(args[0], env, st, fx, K)
        raise Untranslatable("call of %s" % (f[1] if f[0] == "var" else "::".join(f[1]) if f[0] == "path" else f[0]))
    if k == "mcall":
        return run_mcall(e, env, st, fx, K, discard, tail)
    raise Untranslatable("expression kind " + k)


def let_scrut(sv, fx, cont):
    if sv.kind in ("pv", "ref", "node") or is_atom(sv.lean):
        return cont(sv)
    return let_(fx, "m", sv.lean, lambda name: cont(V(name, sv.kind)))


def contains_effect(a, fx, env):
    if isinstance(a, tuple):
        if a and a[0] == "mcall" and (a[2] in fx.callees or a[2] in ("set_scratch", "insert", "push")):
            return True
        if a and a[0] == "call" and a[1][0] == "var" and (a[1][1] in fx.callees or (a[1][1] in env and env[a[1][1]].kind == "closure")):
            return True
        if a and a[0] in ("ret", "return", "assign"):
            return True
        return any(contains_effect(x, fx, env) for x in a)
    if isinstance(a, list):
        return any(contains_effect(x, fx, env) for x in a)
    return False


def run_mcall(e, env, st, fx, K, discard, tail):
    recv, name, args, tf = e[1], e[2], e[3], e[4]
    # state-passing callees in method style: ptr.F(args)
    if name in fx.callees and fx.callees[name].get("style") == "method":
        return call_callee(name, recv, args, env, st, fx, K)
    if fx.mode == "query":
        return run_query_mcall(e, env, st, fx, K)

    def with_r(rv, st1):
        kd = rv.kind
        if kd == "pv":
            if name in REF_PURE and not args:
                return K(V("%s %s.ref" % (REF_PURE[name], rv.lean), "ref" if name == "neg" else "val"), st1)
            if name in PV_PURE and not args:
                return K(V("%s %s" % (PV_PURE[name], rv.lean), "ref"), st1)
            if name == "is_scratch_cleared" and not args:
                return K(V("isScratchCleared %s %s" % (paren(st1["σ"]), rv.lean)), st1)
            if name == "scratch" and not args:
                if tf is None:
                    raise Untranslatable("scratch without a type")
                return K(V("scratch %s %s %s" % (cast_box(tf, fx)[0], paren(st1["σ"]), rv.lean)), st1)
            if name == "set_scratch" and len(args) == 1:
                if tf is None:
                    raise Untranslatable("set_scratch without a type")

                def with_v(v, st2):
                    return let_(fx, "s", "setScratch %s %s %s %s" % (cast_box(tf, fx)[1], paren(st2["σ"]), rv.lean, paren(v.lean)),
                                lambda nm: K(UNIT, dict(st2, **{"σ": nm})))
                return run(args[0], env, st1, fx, with_v)
        if kd in ("ref", "val") and name in REF_PURE and not args:
            return K(V("%s %s" % (REF_PURE[name], paren(rv.lean)), "ref" if name == "neg" else "val"), st1)
        if kd == "data" and name == "borrow" and not args:
            return K(V("(%s %s)" % (paren(st1["σ"]), rv.lean), "cell"), st1)
        if kd == "data" and name == "borrow_mut" and not args:
            return K(rv, st1)
        if kd == "cell":
            if name == "is_some" and not args:
                return K(V("Scratch.Cell.isSome %s" % paren(rv.lean)), st1)
            if name == "is_none" and not args:
                return K(V("!(Scratch.Cell.isSome %s)" % paren(rv.lean)), st1)
            if name in ("as_ref", "unwrap", "cloned") and not args:
                return K(rv, st1)
            if name == "downcast_ref" and not args:
                if "cast" not in env or tf is None or tf.strip() != "T":
                    raise Untranslatable("downcast outside scratch::<T>")
                return K(V("cast %s" % paren(rv.lean)), st1)
        if kd == "val":
            if name in ("cloned", "clone", "copied") and not args:
                return K(rv, st1)
            if name == "unwrap_or" and len(args) == 1:
                return run(args[0], env, st1, fx, lambda d, st2: K(V("Option.getD %s %s" % (paren(rv.lean), paren(d.lean))), st2))
            if name == "is_some" and not args:
                return K(V("Option.isSome %s" % paren(rv.lean)), st1)
            if name == "is_none" and not args:
                return K(V("Option.isNone %s" % paren(rv.lean)), st1)
            if name == "insert" and len(args) == 1 and strip_ref(recv)[0] == "var" and "L:" + strip_ref(recv)[1] in st1:
                key = "L:" + strip_ref(recv)[1]
                return run(args[0], env, st1, fx,
                           lambda x, st2: let_(fx, strip_ref(recv)[1], "%s ++ [%s]" % (paren(st2[key]), x.lean),
                                               lambda nm: K(UNIT, dict(st2, **{key: nm}))))
        if kd == "params" and name == "var_weight" and len(args) == 1:
            return run(args[0], env, st1, fx, lambda x, st2: K(V("w %s" % paren(x.lean)), st2))
        if kd == "builder" and name == "cond_helper" and len(args) == 3:
            return run_list(args, env, st1, fx, lambda vs, st2: fx.cond_helper(vs, st2, K))
        raise Untranslatable("method .%s on a %s" % (name, kd))
    return run(recv, env, st, fx, with_r)


def run_query_mcall(e, env, st, fx, K):
    raise Untranslatable("method .%s in a weight expression" % e[2])


# ---------------------------------------------------------------------------------------------
# per-function drivers
# ---------------------------------------------------------------------------------------------
SCR = "Scratch.Scr U"
STEP_T = "Scratch.Ref → %s → %s"

CALLEES_BDD = {
    "clear_scratch": dict(lean="clearScratch", extra=[], comps=["σ"], val=False, style="method"),
    "bdd_fold_h": dict(lean="bddFoldDag t", extra=["f", "low_v", "high_v"], comps=["σ"], val=True, style="method"),
    "bottomup_pass_h": dict(lean="foldDag t", extra=["f"], comps=["σ"], val=True, style="fn"),
    "count_h": dict(lean="countH", extra=[], comps=["σ", "count"], val=False, style="fn"),
}


def final_state(st, comps, with_store=False):
    return ([st["s"]] if with_store else []) + [st[c] for c in comps]


def make_ret(kind, comps, with_store=False):
    def ret(v, st):
        if kind == "val":
            return v.lean
        if kind == "state":
            return pack(final_state(st, comps, with_store))
        if v.kind == "unit":
            raise Untranslatable("a value is expected")
        return pack([v.lean] + final_state(st, comps, with_store))
    return ret


def translate_body(ast, env, st, fx, retkind, comps, with_store=False):
    ret = make_ret(retkind, comps, with_store)
    env = dict(env)
    env[RET] = ret
    return run(ast, env, st, fx, ret, discard=(retkind == "state"), tail=True)


def get_fn(srcs, file, name, hint, nested=None):
    """-> (param names, body AST, sibling nested fns)"""
    ps, body = find_fn(srcs[file], name, hint)
    ast = parse_body(body)
    if nested is None:
        return parse_params(ps), ast
    sib = [s for s in ast[1] if s[0] == "fn"]
    mine = [s for s in sib if s[1] == nested]
    if len(mine) != 1:
        raise Untranslatable("nested fn %s not found in %s" % (nested, name))
    return [p for p, _ in mine[0][2]], mine[0][3], [s for s in sib if s[1] != nested]


def check_params(params, expected):
    if list(params) != list(expected):
        raise Untranslatable("parameters are %s, expected %s" % (params, expected))


def tr_simple(srcs, spec, aliases):
    """non-recursive functions of a pointer ('ref' / 'pv' modes) and wrappers ('top')"""
    params, ast = get_fn(srcs, spec["file"], spec["rust"], spec.get("hint"))
    check_params(params, spec["params"])
    fx = Fx(spec["mode"], spec["rust"], CALLEES_BDD if spec["mode"] == "top" else {}, aliases=aliases)
    env = {k: V(*v) for k, v in spec["env"].items()}
    if spec["mode"] == "top":
        ast = ("block", [s for s in ast[1] if s[0] != "fn"], ast[2])
    return translate_body(ast, env, dict(spec.get("st", {})), fx, spec["ret"], spec.get("comps", []))


def tr_step(srcs, spec, aliases):
    """the body of a recursive traversal, recursive calls abstracted"""
    if spec.get("nested"):
        params, ast, sibs = get_fn(srcs, spec["file"], spec["outer"], spec.get("hint"), spec["nested"])
    else:
        params, ast = get_fn(srcs, spec["file"], spec["rust"], spec.get("hint"))
        sibs = []
    check_params(params, spec["params"])
    fx = Fx("step", spec["rust"], {spec["rust"]: CALLEES_BDD[spec["rust"]]}, aliases=aliases)
    env = {k: V(*v) for k, v in spec["env"].items()}
    for s in sibs:
        if s[1] in CALLEES_BDD:
            continue
        env[s[1]] = V(None, "closure", ([("pvar", p) for p, _ in s[2]], s[3], None))
    return translate_body(ast, env, dict(spec["st"]), fx, spec["ret"], spec["comps"])


PVT = "Scratch.Tr.PV"
SPECS = [
    # ---- pointers
    dict(key="BddPtr::neg", lean="neg", file="bdd", rust="neg", hint=IMPL_DDNNF_BDD, mode="ref", params=["self"],
         header="(self_ : Scratch.Ref) : Scratch.Ref", env={"self": ("self_", "ref")}, ret="val", model="Scratch.Ref.neg self_"),
    dict(key="BddPtr::is_neg", lean="isNeg", file="bdd", rust="is_neg", hint=IMPL_DDNNF_BDD, mode="ref", params=["self"],
         header="(self_ : Scratch.Ref) : Bool", env={"self": ("self_", "ref")}, ret="val", model="Scratch.Ref.isNeg self_"),
    dict(key="BddPtr::is_const", lean="isConst", file="bdd", rust="is_const", hint=IMPL_BDD, mode="ref", params=["self"],
         header="(self_ : Scratch.Ref) : Bool", env={"self": ("self_", "ref")}, ret="val", model="Scratch.Tr.isConst self_"),
] + [
    dict(key="BddPtr::" + r, lean=l, file="bdd", rust=r, hint=IMPL_BDD, mode="pv", params=["self"],
         header="(self_ : %s) : Scratch.Ref" % PVT, env={"self": ("self_", "pv")}, ret="val", model="Scratch.Tr.%s self_" % l)
    for r, l in [("low", "low"), ("high", "high"), ("low_raw", "lowRaw"), ("high_raw", "highRaw")]
] + [
    # ---- the scratch cell
    dict(key="BddPtr::is_scratch_cleared", lean="isScratchCleared", file="bdd", rust="is_scratch_cleared", hint=IMPL_BDD,
         mode="pv", params=["self"], header="(σ : %s) (self_ : %s) : Bool" % (SCR, PVT),
         env={"self": ("self_", "pv")}, st={"σ": "σ"}, ret="val", model="Scratch.Tr.isScratchCleared σ self_"),
    dict(key="BddPtr::scratch", lean="scratch", file="bdd", rust="scratch", hint=IMPL_BDD, mode="pv", params=["self"],
         header="{X : Type} (cast : Scratch.Cell U → Option X) (σ : %s) (self_ : %s) : Option X" % (SCR, PVT),
         env={"self": ("self_", "pv"), "cast": ("cast", "fn")}, st={"σ": "σ"}, ret="val",
         model="Scratch.Tr.scratch cast σ self_"),
    dict(key="BddPtr::set_scratch", lean="setScratch", file="bdd", rust="set_scratch", hint=IMPL_BDD, mode="pv",
         params=["self", "v"],
         header="{X : Type} (box : X → Scratch.Cell U) (σ : %s) (self_ : %s) (v : X) : %s" % (SCR, PVT, SCR),
         env={"self": ("self_", "pv"), "box": ("box", "fn"), "v": ("v", "val")}, st={"σ": "σ"}, ret="state", comps=["σ"],
         model="Scratch.Tr.setScratch box σ self_ v"),
    # ---- clear_scratch
    dict(key="BddPtr::clear_scratch", lean="clearStep", knot="clearScratch", file="bdd", rust="clear_scratch", hint=IMPL_BDD,
         mode="step", params=["self"],
         header="(rec_ : %s) (self_ : %s) (σ : %s) : %s" % (STEP_T % (SCR, SCR), PVT, SCR, SCR),
         env={"self": ("self_", "pv")}, st={"σ": "σ"}, ret="state", comps=["σ"],
         knot_header=": Scratch.Store → Scratch.Ref → %s → %s" % (SCR, SCR),
         knot_body="Scratch.Tr.knot clearStep (fun _ σ => σ)", model="Scratch.clearScratch"),
    # ---- bdd_fold
    dict(key="BddPtr::bdd_fold_h", lean="bddFoldStep", knot="bddFoldDag", file="bdd", rust="bdd_fold_h", hint=IMPL_BDD,
         mode="step", params=["self", "f", "low_v", "high_v"],
         header="(t : Tag) (f : Nat → U t → U t → U t) (low_v high_v : U t) (rec_ : %s) (self_ : %s) (σ : %s) : U t × %s"
                % (STEP_T % (SCR, "U t × " + SCR), PVT, SCR, SCR),
         env={"self": ("self_", "pv"), "f": ("f", "fn"), "low_v": ("low_v", "val"), "high_v": ("high_v", "val")},
         st={"σ": "σ"}, ret="valstate", comps=["σ"],
         knot_header="(t : Tag) (f : Nat → U t → U t → U t) (low_v high_v : U t) : Scratch.Store → Scratch.Ref → %s → U t × %s" % (SCR, SCR),
         knot_body="Scratch.Tr.knot (bddFoldStep t f low_v high_v) (fun _ σ => (low_v, σ))",
         model="Scratch.bddFoldDag t f low_v high_v"),
    dict(key="BddPtr::bdd_fold", lean="bddFold", file="bdd", rust="bdd_fold", hint=IMPL_BDD, mode="top",
         params=["self", "f", "low_v", "high_v"],
         header="(t : Tag) (f : Nat → U t → U t → U t) (low_v high_v : U t) (s : Scratch.Store) (r : Scratch.Ref) (σ : %s) : U t × %s" % (SCR, SCR),
         env={"self": ("r", "ref"), "f": ("f", "fn"), "low_v": ("low_v", "val"), "high_v": ("high_v", "val")},
         st={"s": "s", "σ": "σ"}, ret="valstate", comps=["σ"], model="Scratch.bddFold t f low_v high_v s r σ"),
    # ---- fold
    dict(key="BddPtr::fold::bottomup_pass_h", lean="foldStep", knot="foldDag", file="bdd", rust="bottomup_pass_h", outer="fold",
         nested="bottomup_pass_h", hint=IMPL_DDNNF_BDD, mode="step", params=["ptr", "f"],
         header="(t : Tag) (f : Scratch.DDNNF (U t) → U t) (rec_ : %s) (self_ : %s) (σ : %s) : U t × %s"
                % (STEP_T % (SCR, "U t × " + SCR), PVT, SCR, SCR),
         env={"ptr": ("self_", "pv"), "f": ("f", "fn")}, st={"σ": "σ"}, ret="valstate", comps=["σ"],
         knot_header="(t : Tag) (f : Scratch.DDNNF (U t) → U t) : Scratch.Store → Scratch.Ref → %s → U t × %s" % (SCR, SCR),
         knot_body="Scratch.Tr.knot (foldStep t f) (fun _ σ => (f Scratch.DDNNF.tru, σ))",
         model="Scratch.foldDag t (Scratch.Alg.ofF f)"),
    dict(key="BddPtr::fold", lean="fold", file="bdd", rust="fold", hint=IMPL_DDNNF_BDD, mode="top", params=["self", "f"],
         header="(t : Tag) (f : Scratch.DDNNF (U t) → U t) (s : Scratch.Store) (r : Scratch.Ref) (σ : %s) : U t × %s" % (SCR, SCR),
         env={"self": ("r", "ref"), "f": ("f", "fn")}, st={"s": "s", "σ": "σ"}, ret="valstate", comps=["σ"],
         model="Scratch.fold t (Scratch.Alg.ofF f) s r σ"),
    # ---- count_nodes
    dict(key="BddPtr::count_nodes::count_h", lean="countStep", knot="countH", file="bdd", rust="count_h", outer="count_nodes",
         nested="count_h", hint=IMPL_DDNNF_BDD, mode="step", params=["ptr", "count"],
         header="(rec_ : %s) (self_ : %s) (st_ : %s × Nat) : %s × Nat" % (STEP_T % (SCR + " × Nat", SCR + " × Nat"), PVT, SCR, SCR),
         env={"ptr": ("self_", "pv")}, st={"σ": "st_.1", "count": "st_.2"}, ret="state", comps=["σ", "count"],
         knot_header=": Scratch.Store → Scratch.Ref → %s × Nat → %s × Nat" % (SCR, SCR),
         knot_body="Scratch.Tr.knot countStep (fun _ st => st)", model="Scratch.countH"),
    dict(key="BddPtr::count_nodes", lean="countNodes", file="bdd", rust="count_nodes", hint=IMPL_DDNNF_BDD, mode="top",
         params=["self"], header="(s : Scratch.Store) (r : Scratch.Ref) (σ : %s) : Nat × %s" % (SCR, SCR),
         env={"self": ("r", "ref")}, st={"s": "s", "σ": "σ"}, ret="valstate", comps=["σ"],
         model="Scratch.countNodes s r σ"),
]


# ---------------------------------------------------------------------------------------------
# src/repr/ddnnf.rs: the default methods (one `fold` each)
# ---------------------------------------------------------------------------------------------
def single_tail(ast):
    stmts = [s for s in ast[1] if s[0] != "use"]
    if stmts or ast[2] is None:
        raise Untranslatable("body is not a single expression")
    return ast[2]


def tr_wmc_closure(srcs):
    """the closure that `unsmoothed_wmc` hands to `fold`  ->  body of `wmcF S w ddnnf`"""
    params, ast = get_fn(srcs, "ddnnf", "unsmoothed_wmc", TRAIT_DDNNF)
    check_params(params, ["self", "params"])
    e = single_tail(ast)
    if not (e[0] == "mcall" and e[1] == ("var", "self") and e[2] == "fold" and len(e[3]) == 1 and e[3][0][0] == "closure"):
        raise Untranslatable("unsmoothed_wmc is not `self.fold(closure)`")
    cl = e[3][0]
    if len(cl[1]) != 1 or cl[1][0][0] != "pvar":
        raise Untranslatable("closure parameters")
    fx = Fx("closure", "unsmoothed_wmc", {}, arith="S")
    env = {cl[1][0][1]: V("ddnnf", "val"), "params": V("params", "params")}
    return translate_body(cl[2] if cl[2][0] == "block" else ("block", [], cl[2]), env, {}, fx, "val", [])


def tr_semantic_hash(srcs):
    params, ast = get_fn(srcs, "ddnnf", "semantic_hash", TRAIT_DDNNF)
    check_params(params, ["self", "map"])
    e = single_tail(ast)
    if not (e[0] == "mcall" and e[1] == ("var", "self") and e[2] == "unsmoothed_wmc" and len(e[3]) == 1
            and strip_ref(e[3][0]) == ("var", "map")):
        raise Untranslatable("semantic_hash is not `self.unsmoothed_wmc(map)`")
    return "unsmoothedWmcAlg (Sem.ffOps P) w"


def tr_evaluate(srcs):
    params, ast = get_fn(srcs, "ddnnf", "evaluate", TRAIT_DDNNF)
    check_params(params, ["self", "instantations"])
    e = single_tail(ast)
    if not (e[0] == "field" and e[2] == "0"):
        raise Untranslatable("evaluate does not project `.0`")
    e = e[1]
    if not (e[0] == "mcall" and e[1] == ("var", "self") and e[2] == "unsmoothed_wmc" and len(e[3]) == 1):
        raise Untranslatable("evaluate is not `self.unsmoothed_wmc(..).0`")
    a = strip_ref(e[3][0])
    if not (a[0] == "call" and a[1] == ("path", ["WmcParams", "new"]) and len(a[2]) == 1):
        raise Untranslatable("weights are not WmcParams::new(..)")
    a = a[2][0]
    if not (a[0] == "call" and a[1] == ("path", ["HashMap", "from_iter"]) and len(a[2]) == 1):
        raise Untranslatable("weights are not built by HashMap::from_iter")
    a = a[2][0]
    ok = (a[0] == "mcall" and a[2] == "map" and len(a[3]) == 1 and a[3][0][0] == "closure"
          and a[1][0] == "mcall" and a[1][2] == "enumerate" and not a[1][3]
          and a[1][1][0] == "mcall" and a[1][1][2] == "iter" and a[1][1][1] == ("var", "instantations"))
    if not ok:
        raise Untranslatable("weights are not instantations.iter().enumerate().map(..)")
    cl = a[3][0]
    if not (len(cl[1]) == 1 and cl[1][0][0] == "ptuple" and len(cl[1][0][1]) == 2 and all(p[0] == "pvar" for p in cl[1][0][1])):
        raise Untranslatable("closure pattern of the weight map")
    iname, pname = cl[1][0][1][0][1], cl[1][0][1][1][1]
    body = cl[2]
    if body[0] == "block" and not body[1]:
        body = body[2]
    if not (body[0] == "tuple" and len(body[1]) == 2 and body[1][1][0] == "tuple" and len(body[1][1][1]) == 2):
        raise Untranslatable("entry of the weight map")
    fx = Fx("query", "evaluate", {})
    env = {iname: V("index"), pname: V("inst index"), RET: None}
    key = run(body[1][0], env, {}, fx, lambda v, _s: v.lean)
    if key != "index":
        raise Untranslatable("the weight of position i is not stored under label i")
    lo = run(body[1][1][1][0], env, {}, fx, lambda v, _s: v.lean)
    hi = run(body[1][1][1][1], env, {}, fx, lambda v, _s: v.lean)
    return "unsmoothedWmcAlg Bdd.boolOps (fun index => (%s, %s))" % (lo, hi)


# ---------------------------------------------------------------------------------------------
# the builders' `condition`
# ---------------------------------------------------------------------------------------------
def tr_condition(srcs, file, hint, kind):
    params, ast = get_fn(srcs, file, "condition", hint)
    check_params(params, ["self", "bdd", "lbl", "value"])
    fx = Fx("top", "condition", {"clear_scratch": CALLEES_BDD["clear_scratch"]})

    def cond_helper(vs, st, K):
        p_, x_, b_ = [paren(v.lean) for v in vs]
        if kind == "bdd":
            return let_(fx, "c", "Scratch.condAlloc lt %s %s %s %s (%s, [])" % (x_, b_, paren(st["s"]), p_, paren(st["s"])),
                        lambda a: K(V(a + ".1", "ref"), dict(st, s=a + ".2.1")))
        return let_(fx, "c", "Scratch.dnnfCondH %s %s %s %s %s %s" % (x_, b_, paren(st["σ"]), paren(st["s"]), p_, paren(st["s"])),
                    lambda a: K(V(a + ".1", "ref"), dict(st, s=a + ".2")))
    fx.cond_helper = cond_helper
    env = {"self": V("", "builder"), "bdd": V("r", "ref"), "lbl": V("x"), "value": V("b")}
    return translate_body(ast, env, {"s": "s", "σ": "σ"}, fx, "valstate", ["σ"], with_store=True)


# ---------------------------------------------------------------------------------------------
# census of scratch uses
# ---------------------------------------------------------------------------------------------
SCRATCH_API = ("scratch", "set_scratch", "clear_scratch", "is_scratch_cleared")

CENSUS = [  # (lean suffix, file, fn name, impl hint, what the model assumes)
    ("marginal_map_eval", "bdd", "marginal_map_eval", IMPL_BDD, []),
    ("marginal_map_h", "bdd", "marginal_map_h", IMPL_BDD, []),
    ("marginal_map", "bdd", "marginal_map", IMPL_BDD, []),
        ("meu_h", "bdd", "meu_h", IMPL_BDD, []),
    ("meu", "bdd", "meu", IMPL_BDD, []),
    ("bb_ub", "bdd", "bb_ub", IMPL_BDD, []),
    ("bb_h", "bdd", "bb_h", IMPL_BDD, []),
    ("bb", "bdd", "bb", IMPL_BDD, []),
    ("cond_with_alloc", "robdd", "cond_with_alloc", None, []),
    ("cond_helper", "robdd", "cond_helper", None, []),
    ("cond_model_h", "robdd", "cond_model_h", None, []),
    ("condition_model", "robdd", "condition_model", None, ["clear_scratch"]),
    ("smooth_helper", "robdd", "smooth_helper", None, []),
    ("dnnf_cond_helper", "dnnf", "cond_helper", None, ["scratch"]),
    ("serialize_helper", "ser", "serialize_helper", None, []),
    ("from_bdd", "ser", "from_bdd", None, []),
]


def census_of(srcs, file, name, hint):
    """the direct uses of the scratch API in a function body, in source order (token scan; `debug_assert!(..)`
    statements are removed first: they are preconditions, see the mapping table)"""
    _, body = find_fn(srcs[file], name, hint)
    body = re.sub(r"debug_assert!\s*\([^;]*\)\s*;", "", body)
    out = []
    for m in re.finditer(r"\.\s*([A-Za-z_][A-Za-z0-9_]*)\s*(::\s*<|\()", body):
        if m.group(1) in SCRATCH_API:
            out.append(m.group(1))
    return out


def lean_str_list(xs):
    return "[" + ", ".join('"%s"' % x for x in xs) + "]"


# ---------------------------------------------------------------------------------------------
# emission
# ---------------------------------------------------------------------------------------------
HEADER = """import RsddModel.Model.Scratch
import RsddModel.Lemmas.TieScratchAux
/-!
# Generated by tools/gen_scratch.py from src/repr/bdd.rs, src/repr/ddnnf.rs, src/builder/bdd/builder.rs,
src/builder/decision_nnf/builder.rs (+ a census of src/builder/bdd/robdd.rs, src/serialize/ser_bdd.rs) — do not edit

Compared with the hand-written model (`Scratch.*`, Model/Scratch.lean) in `Props/TieScratch.lean`.
-/
set_option linter.unusedVariables false
namespace Gen.Scr
section
variable {Tag : Type} [DecidableEq Tag] {U : Tag → Type}

"""
FOOTER = "\nend\nend Gen.Scr\n"

UNTR = "UNTRANSLATED (translator route not available, tied by correspondence only): %s"
ERRS = (Exception,)   # never crash: a function that cannot be read falls back, alone


def write_if_changed(path, text):
    old = open(path).read() if os.path.exists(path) else None
    if old != text:
        open(path, "w").write(text)


FILES = {"bdd": "src/repr/bdd.rs", "ddnnf": "src/repr/ddnnf.rs", "robdd": "src/builder/bdd/robdd.rs",
         "dnnf": "src/builder/decision_nnf/builder.rs", "ser": "src/serialize/ser_bdd.rs",
         "bbuilder": "src/builder/bdd/builder.rs"}


def defn(name, header, body):
    return "def %s %s :=\n%s\n" % (name, header, ind(body, 2))


def main():
    status, defs = {}, []
    srcs, errs = {}, {}
    for k, rel in FILES.items():
        try:
            srcs[k] = open(os.path.join(REPO, rel)).read()
        except OSError as e:
            errs[k] = str(e)

    def need(k):
        if k not in srcs:
            raise Untranslatable(errs.get(k, "source not available"))

    aliases = {}
    try:
        need("bdd")
        gen, rhs = find_type_alias(srcs["bdd"], "DDNNFCache")
        if gen.replace(" ", "") == "<T>":
            aliases["DDNNFCache"] = rhs.replace(" ", "")
    except ERRS:
        pass

    def fallback(key, e, text):
        defs.append("-- TRANSLATOR ROUTE NOT AVAILABLE for %s: %s\n%s" % (key, str(e).replace("\n", " "), text))
        status[key] = UNTR % str(e).replace("\n", " ")

    for spec in SPECS:
        key = spec["key"]
        try:
            need(spec["file"])
            body = tr_step(srcs, spec, aliases) if spec["mode"] == "step" else tr_simple(srcs, spec, aliases)
            text = defn(spec["lean"], spec["header"], body)
            if spec["mode"] == "step":
                text += "\n" + defn(spec["knot"], spec["knot_header"], spec["knot_body"])
            defs.append(text)
            status[key] = "translated"
        except ERRS as e:
            if spec["mode"] == "step":
                fallback(key, e, "def %s : Unit := ()\n\n" % spec["lean"] + defn(spec["knot"], spec["knot_header"], spec["model"]))
            else:
                fallback(key, e, defn(spec["lean"], spec["header"], spec["model"]))

    # ddnnf.rs
    WH = "{α : Type} (S : SROps α) (w : Spec.Weights α) (ddnnf : Scratch.DDNNF α) : α"
    try:
        need("ddnnf")
        body = tr_wmc_closure(srcs)
        defs.append(defn("wmcF", WH, body))
        status["DDNNFPtr::unsmoothed_wmc (closure)"] = "translated"
        defs.append(defn("unsmoothedWmcAlg", "{α : Type} (S : SROps α) (w : Spec.Weights α) : Scratch.Alg α", "Scratch.Alg.ofF (wmcF S w)"))
        defs.append(defn("unsmoothedWmc", "(t : Tag) (S : SROps (U t)) (w : Spec.Weights (U t)) : Scratch.Query U",
                         "Scratch.Query.fold t (unsmoothedWmcAlg S w)"))
        status["DDNNFPtr::unsmoothed_wmc"] = "translated"
    except ERRS as e:
        fallback("DDNNFPtr::unsmoothed_wmc (closure)", e, defn("wmcF", WH, "Scratch.wmcF S w ddnnf"))
        defs.append(defn("unsmoothedWmcAlg", "{α : Type} (S : SROps α) (w : Spec.Weights α) : Scratch.Alg α", "Scratch.wmcAlg S w"))
        defs.append(defn("unsmoothedWmc", "(t : Tag) (S : SROps (U t)) (w : Spec.Weights (U t)) : Scratch.Query U",
                         "Scratch.Query.wmc t S w"))
        status["DDNNFPtr::unsmoothed_wmc"] = UNTR % str(e)
    for key, lean, hdr, fn, model in [
            ("DDNNFPtr::evaluate", "evaluateAlg", "(inst : Spec.Assign) : Scratch.Alg Bool", tr_evaluate, "Scratch.evalAlg inst"),
            ("DDNNFPtr::semantic_hash", "semanticHashAlg", "(P : Nat) (w : Spec.Weights Nat) : Scratch.Alg Nat", tr_semantic_hash,
             "Scratch.wmcAlg (Sem.ffOps P) w")]:
        try:
            need("ddnnf")
            defs.append(defn(lean, hdr, fn(srcs)))
            status[key] = "translated"
        except ERRS as e:
            fallback(key, e, defn(lean, hdr, model))
    defs.append(defn("evaluate", "(t : Tag) (h : U t = Bool) (inst : Spec.Assign) : Scratch.Query U",
                     "Scratch.Query.fold t (h ▸ evaluateAlg inst)"))
    defs.append(defn("semanticHash", "(t : Tag) (h : U t = Nat) (P : Nat) (w : Spec.Weights Nat) : Scratch.Query U",
                     "Scratch.Query.fold t (h ▸ semanticHashAlg P w)"))
    # the default methods must not be overridden for BddPtr
    key = "impl DDNNFPtr for BddPtr (overrides)"
    try:
        need("bdd")
        names = fn_names_in(srcs["bdd"], IMPL_DDNNF_BDD)
        ov = [n for n in names if n in ("unsmoothed_wmc", "evaluate", "semantic_hash")]
        defs.append(defn("bddOverrides", ": List String", lean_str_list(ov)))
        status[key] = "translated"
    except ERRS as e:
        fallback(key, e, defn("bddOverrides", ": List String", "[]"))

    # builders
    CH = "(lt : Nat → Nat → Bool) (x : Nat) (b : Bool) (s : Scratch.Store) (r : Scratch.Ref) (σ : %s) : Scratch.Ref × Scratch.Store × %s" % (SCR, SCR)
    DH = "(x : Nat) (b : Bool) (s : Scratch.Store) (r : Scratch.Ref) (σ : %s) : Scratch.Ref × Scratch.Store × %s" % (SCR, SCR)
    for key, lean, hdr, file, hint, kind, model in [
            ("BddBuilder::condition", "condition", CH, "bbuilder", None, "bdd", "Scratch.condition lt x b s r σ"),
            ("DecisionNNFBuilder::condition", "dnnfCondition", DH, "dnnf", None, "dnnf", "Scratch.dnnfCondition x b s r σ")]:
        try:
            need(file)
            defs.append(defn(lean, hdr, tr_condition(srcs, file, hint, kind)))
            status[key] = "translated"
        except ERRS as e:
            fallback(key, e, defn(lean, hdr, model))

    # census
    for suffix, file, name, hint, model in CENSUS:
        key = "census " + FILES[file].split("/")[-1] + "::" + name
        try:
            need(file)
            defs.append(defn("census_" + suffix, ": List String", lean_str_list(census_of(srcs, file, name, hint))))
            status[key] = "translated"
        except ERRS as e:
            fallback(key, e, defn("census_" + suffix, ": List String", lean_str_list(model)))

    write_if_changed(OUT, HEADER + "\n".join(defs) + FOOTER)
    return status


if __name__ == "__main__":
    for k, v in main().items():
        print(k, "->", v)
