R=$(dirname $0)/sddq_runmut.sh
$R "ref: is_neg alternatives reordered" src/repr/sdd.rs 'matches!(self, Compl(_) | ComplBDD(_))' 'matches!(self, ComplBDD(_) | Compl(_))'
$R "ref: low arms reordered + wildcard first-class" src/repr/sdd.rs 'BDD(bdd) => bdd.low(),
            ComplBDD(bdd) => bdd.low().neg(),' 'ComplBDD(node) => node.low().neg(),
            BDD(node) => node.low(),'
$R "ref: count_h c += 1 first" src/repr/sdd.rs 'c += count_h(a.sub());
                        c += count_h(a.prime());
                        c += 1;' 'c += 1;
                        c += count_h(a.sub());
                        c += count_h(a.prime());'
$R "ref: fold probe arms reordered / split" src/repr/sdd.rs 'Some((Some(v), None)) if ptr.is_neg() => v,
                        Some((None, Some(v))) if !ptr.is_neg() => v,' 'Some((None, Some(w))) if !ptr.is_neg() => w,
                        Some((Some(w), None)) if ptr.is_neg() => w,'
$R "ref: fold set_scratch via if-expression of the pair" src/repr/sdd.rs 'let s = if ptr.is_neg() {
                                and.sub().neg()
                            } else {
                                and.sub()
                            };' 'let s = if !ptr.is_neg() {
                                and.sub()
                            } else {
                                and.sub().neg()
                            };'
$R "ref: BinarySDD::cached if-let to match" src/repr/sdd/binary_sdd.rs 'if let Some(h) = *(self.semantic_hash.borrow()) {
            return FiniteField::new(h);
        }

        let h = self.semantic_hash(vtree, map);
        *(self.semantic_hash.borrow_mut()) = Some(h.value());

        h
    }

    pub fn scratch' 'match *(self.semantic_hash.borrow()) {
            Some(cached) => FiniteField::new(cached),
            None => {
                let fresh = self.semantic_hash(vtree, map);
                *(self.semantic_hash.borrow_mut()) = Some(fresh.value());
                fresh
            }
        }
    }

    pub fn scratch'
$R "ref: BinarySDD::clear_scratch through accessors" src/repr/sdd/binary_sdd.rs 'self.low.clear_scratch();
        self.high.clear_scratch();' 'self.low().clear_scratch();
        self.high().clear_scratch();'
$R "ref: SddOr::cmp with then_with" src/repr/sdd/sdd_or.rs 'match self.index.cmp(&other.index) {
            core::cmp::Ordering::Equal => {}
            ord => return ord,
        }
        match self.nodes.cmp(&other.nodes) {
            core::cmp::Ordering::Equal => {}
            ord => return ord,
        }
        core::cmp::Ordering::Equal' 'self.index.cmp(&other.index).then_with(|| self.nodes.cmp(&other.nodes))'
$R "ref: sdd_eq commuted" src/builder/sdd/semantic.rs '        h1 == h2' '        h2 == h1'
$R "ref: wmc closure arms reordered" src/repr/ddnnf.rs 'Or(l, r, _) => l + r,
                And(l, r) => l * r,' 'And(a, b) => a * b,
                Or(a, b, _) => a + b,'
