#!/usr/bin/env python3
"""Translator route for `VarOrder` (src/repr/var_order.rs): regenerates
`lean/RsddModel/Model/GenOrders.lean` from the Rust text on every run; `Props/TieOrders.lean`
proves the regenerated definitions equal to `Orders.VarOrder.*` (Model/Orders.lean), which the
theorems of C14 (and, through the level map, C01/C02/C08) are about.

Translated: `num_vars`, `get`, `var_at_level`, `lt`, `lte`, `above`, `below`, `last_var`, `new_last`,
`in_order_iter`, `new` (its `for` loop), `linear_order`.

Mapping table (trusted, kept small):
  VarLabel                      ↦ Nat      (`x.value()`, `VarLabel::new(e)`, `VarLabel::new_usize(e)`, `as usize/u64` are identities)
  self.var_to_pos / pos_to_var  ↦ o.varToPos / o.posToVar : List Nat
  v[i] (read)                   ↦ v.getD i 0        (the Rust panics out of range; outside every theorem's hypotheses)
  v[i] = e (write)              ↦ v.set i e
  v.push(e)                     ↦ v ++ [e]
  v.len()                       ↦ v.length
  vec![c; n]                    ↦ List.replicate n c         Vec::new() ↦ []
  v.last().unwrap()             ↦ v.getD (v.length - 1) 0
  for i in a..b { body }        ↦ forRange a b (fun i s => body) s   (fold over List.range', state = the mutable locals)
  (a..b).map(|i| e).collect()   ↦ (List.range' a (b - a)).map (fun i => e)
  it.iter().map(|x| e)          ↦ it.map (fun x => e)
  a < b, a <= b, a == b, a >= b ↦ decide (…)
  Some(e) / None                ↦ some e / none
"""
import os, re, sys

sys.path.insert(0, os.path.dirname(os.path.abspath(__file__)))
from rustmini import Untranslatable, find_fn, parse_body, parse_params  # noqa: E402

ROOT = os.path.dirname(os.path.dirname(os.path.abspath(__file__)))
REPO = os.environ.get("VERIF_REPO", "/repo")
OUT = os.path.join(ROOT, "lean", "RsddModel", "Model", "GenOrders.lean")
IMPL = r"impl\s+VarOrder\s*\{"

FIELDS = {"var_to_pos": "varToPos", "pos_to_var": "posToVar"}


class Ctx:
    """symbolic state: Rust local / field -> Lean expression; `mut_locals` are threaded through loops"""

    def __init__(self, env, order=None):
        self.env = dict(env)
        self.order = order if order is not None else []   # declaration order of the locals (shared)


def paren(e):
    return e if re.match(r"^[A-Za-z0-9_.']+$", e) or (e.startswith("(") and e.endswith(")") and balanced(e[1:-1])) else "(" + e + ")"


def balanced(s):
    d = 0
    for ch in s:
        if ch == "(":
            d += 1
        elif ch == ")":
            d -= 1
            if d < 0:
                return False
    return d == 0


def E(a, cx):
    """expression -> Lean term (Nat / Bool / List Nat / Option Nat valued)"""
    k = a[0]
    if k == "num":
        return a[1]
    if k == "bool":
        return "true" if a[1] else "false"
    if k == "var" and a[1] == "None":
        return "none"
    if k == "var":
        if a[1] in cx.env:
            return cx.env[a[1]]
        raise Untranslatable("unknown local %r" % a[1])
    if k == "un" and a[1] in ("*", "&"):
        return E(a[2], cx)
    if k == "un" and a[1] == "!":
        return "!" + paren(E(a[2], cx))
    if k == "cast":
        if a[2].strip() in ("usize", "u64", "u32"):
            return E(a[1], cx)
        raise Untranslatable("cast to " + a[2])
    if k == "field":
        if a[1] == ("var", "self") and a[2] in FIELDS:
            return cx.env["self." + a[2]]
        raise Untranslatable("field ." + a[2])
    if k == "index":
        return "%s.getD %s 0" % (paren(E(a[1], cx)), paren(E(a[2], cx)))
    if k == "bin":
        op = a[1]
        if op in ("+", "-", "*"):
            return "%s %s %s" % (paren(E(a[2], cx)), op, paren(E(a[3], cx)))
        if op in ("<", "<=", ">", ">=", "==", "!="):
            lop = {"<": "<", "<=": "≤", ">": ">", ">=": "≥", "==": "=", "!=": "≠"}[op]
            return "decide (%s %s %s)" % (paren(E(a[2], cx)), lop, paren(E(a[3], cx)))
        if op in ("&&", "||"):
            return "%s %s %s" % (paren(E(a[2], cx)), op, paren(E(a[3], cx)))
        raise Untranslatable("operator " + op)
    if k == "call":
        f = a[1]
        if f[0] == "path" and f[1] in (["VarLabel", "new"], ["VarLabel", "new_usize"]) and len(a[2]) == 1:
            return E(a[2][0], cx)
        if f[0] == "path" and f[1] == ["Vec", "new"] and not a[2]:
            return "([] : List Nat)"
        if f[0] == "path" and f[1] == ["VarOrder", "new"] and len(a[2]) == 1:
            return "new %s" % paren(E(a[2][0], cx))
        if f[0] == "var" and f[1] == "Some" and len(a[2]) == 1:
            return "some %s" % paren(E(a[2][0], cx))
        raise Untranslatable("call of %r" % (f,))
    if k == "macro" and a[1] == "vec":
        raw = a[2]
        if ";" in raw:
            from rustmini import Parser
            i = raw.index(";")
            c = Parser(raw[:i]).expr()
            n = Parser(raw[i + 1:]).expr()
            return "List.replicate %s %s" % (paren(E(n, cx)), paren(E(c, cx)))
        raise Untranslatable("vec! literal")
    if k == "mcall":
        recv, name, args = a[1], a[2], a[3]
        if name == "value" and not args:
            return E(recv, cx)
        if name == "len" and not args:
            return "%s.length" % paren(E(recv, cx))
        if name in ("iter", "into_iter", "copied", "cloned") and not args:
            return E(recv, cx)
        if name == "collect" and not args:
            return E(recv, cx)
        if name == "unwrap" and not args and recv[0] == "mcall" and recv[2] == "last" and not recv[3]:
            v = paren(E(recv[1], cx))
            return "%s.getD (%s.length - 1) 0" % (v, v)
        if name == "map_or" and len(args) == 2 and args[1][0] == "closure" and len(args[1][1]) == 1 \
                and recv[0] == "mcall" and recv[2] == "last" and not recv[3]:
            pat = args[1][1][0]
            while pat[0] == "pref":
                pat = pat[1]
            if pat[0] != "pvar":
                raise Untranslatable("closure pattern")
            sub = Ctx(cx.env)
            sub.env[pat[1]] = pat[1]
            return "((%s.getLast?.map (fun %s => %s)).getD %s)" % (paren(E(recv[1], cx)), pat[1], E(args[1][2], sub), paren(E(args[0], cx)))
        if name == "map" and len(args) == 1 and args[0][0] == "closure" and len(args[0][1]) == 1:
            cl = args[0]
            pat = cl[1][0]
            if pat[0] != "pvar":
                raise Untranslatable("closure pattern")
            x = pat[1]
            sub = Ctx(cx.env)
            sub.env[x] = x
            body = E(cl[2], sub)
            if recv[0] == "bin" and recv[1] == ".." and recv[3] is not None:
                lo, hi = E(recv[2], cx), E(recv[3], cx)
                return "(List.range' %s (%s - %s)).map (fun %s => %s)" % (paren(lo), paren(hi), paren(lo), x, body)
            return "%s.map (fun %s => %s)" % (paren(E(recv, cx)), x, body)
        if recv == ("var", "self") and name in ("get", "var_at_level", "num_vars") and "self" in cx.env:
            lean = {"get": "get", "var_at_level": "varAtLevel", "num_vars": "numVars"}[name]
            return "%s %s%s" % (lean, cx.env["self"], "".join(" " + paren(E(x, cx)) for x in args))
        raise Untranslatable("method ." + name)
    if k == "if":
        c = E(a[1], cx)
        t = B(a[2], cx)
        if a[3] is None:
            raise Untranslatable("if without else in expression position")
        e = B(a[3], cx) if a[3][0] == "block" else E(a[3], cx)
        return "if %s then %s else %s" % (c, t, e)
    if k == "block":
        return B(a, cx)
    if k == "struct" and a[1] == "VarOrder":
        fs = dict(a[2])
        if set(fs) != set(FIELDS):
            raise Untranslatable("VarOrder literal fields")
        return "{ varToPos := %s, posToVar := %s : Orders.VarOrder }" % (E(fs["var_to_pos"], cx), E(fs["pos_to_var"], cx))
    raise Untranslatable("expression kind " + k)


def assigned_in(stmts):
    """names of locals / fields mutated by a statement list (for loop state)"""
    out = []
    for s in stmts:
        if s[0] == "assign":
            out.append(lhs_root(s[2]))
        elif s[0] == "expr" and s[1][0] == "mcall" and s[1][2] == "push":
            out.append(lhs_root(s[1][1]))
    res = []
    for n in out:
        if n not in res:
            res.append(n)
    return res


def lhs_root(e):
    if e[0] == "var":
        return e[1]
    if e[0] == "field" and e[1] == ("var", "self"):
        return "self." + e[2]
    if e[0] == "index":
        return lhs_root(e[1])
    raise Untranslatable("assignment target")


def S(stmts, cx):
    """run statements symbolically, updating cx.env (straight-line code and `for` over a range)"""
    for s in stmts:
        k = s[0]
        if k == "let":
            if s[1][0] != "pvar":
                raise Untranslatable("let pattern")
            cx.env[s[1][1]] = paren(E(s[3], cx))
            if s[1][1] not in cx.order:
                cx.order.append(s[1][1])
        elif k == "assign" and s[1] == "=":
            tgt = s[2]
            if tgt[0] == "index":
                root = lhs_root(tgt[1])
                cx.env[root] = "(%s.set %s %s)" % (paren(cx.env[root]), paren(E(tgt[2], cx)), paren(E(s[3], cx)))
            else:
                cx.env[lhs_root(tgt)] = paren(E(s[3], cx))
        elif k == "expr" and s[1][0] == "mcall" and s[1][2] == "push" and len(s[1][3]) == 1:
            root = lhs_root(s[1][1])
            cx.env[root] = "(%s ++ [%s])" % (paren(cx.env[root]), E(s[1][3][0], cx))
        elif k == "for":
            pat, it, body = s[1], s[2], s[3]
            if body[2] is not None:
                raise Untranslatable("for body with tail expression")
            sub = Ctx(cx.env, cx.order)
            if pat[0] == "pvar" and it[0] == "bin" and it[1] == ".." and it[3] is not None:
                lo, hi = E(it[2], cx), E(it[3], cx)
                i = pat[1]
            elif pat[0] == "ptuple" and len(pat[1]) == 2 and pat[1][0][0] == "pvar" and pat[1][1][0] in ("pvar", "pref") \
                    and it[0] == "mcall" and it[2] == "enumerate" and not it[3]:
                # for (i, x) in xs.iter().enumerate()  ==  for i in 0..xs.len() with x = xs[i]
                xs = paren(E(it[1], cx))
                lo, hi = "0", xs + ".length"
                i = pat[1][0][1]
                xp = pat[1][1]
                while xp[0] == "pref":
                    xp = xp[1]
                if xp[0] != "pvar":
                    raise Untranslatable("for loop pattern")
                sub.env[xp[1]] = "(%s.getD %s 0)" % (xs, i)
            else:
                raise Untranslatable("for loop shape")
            muts = assigned_in(body[1])
            if not muts:
                raise Untranslatable("for loop without effect")
            # canonical state order: fields first, then locals in declaration order (so that the
            # order of the statements inside the loop body does not matter)
            key = lambda m: (0, list(FIELDS).index(m[5:])) if m.startswith("self.") else (1, cx.order.index(m) if m in cx.order else 999)
            muts = sorted(muts, key=key)
            sub.env[i] = i
            names = ["s%d" % n for n in range(len(muts))]
            for m, nm in zip(muts, names):
                sub.env[m] = nm
            S(body[1], sub)
            st_pat = names[0] if len(names) == 1 else "(" + ", ".join(names) + ")"
            st_new = sub.env[muts[0]] if len(muts) == 1 else "(" + ", ".join(sub.env[m] for m in muts) + ")"
            st_init = cx.env[muts[0]] if len(muts) == 1 else "(" + ", ".join(cx.env[m] for m in muts) + ")"
            loop = "(forRange %s %s (fun %s %s => %s) %s)" % (paren(lo), paren(hi), i, st_pat, st_new, st_init)
            if len(muts) == 1:
                cx.env[muts[0]] = loop
            else:
                for n, m in enumerate(muts):
                    proj = ".1" if n == 0 else (".2" * n + (".1" if n < len(muts) - 1 else ""))
                    cx.env[m] = "%s%s" % (loop, proj)
        else:
            raise Untranslatable("statement kind " + k)


def B(block, cx):
    sub = Ctx(cx.env, cx.order)
    S(block[1], sub)
    if block[2] is None:
        raise Untranslatable("block without value")
    return E(block[2], sub)


def self_env():
    return {"self": "o", "self.var_to_pos": "o.varToPos", "self.pos_to_var": "o.posToVar"}


def translate_fn(src, name, kind):
    ps, body = find_fn(src, name, IMPL)
    params = parse_params(ps)
    ast = parse_body(body)
    env = self_env() if "self" in params else {}
    args = [p for p in params if p != "self"]
    for p in args:
        env[p] = p
    cx = Ctx(env)
    binder = ("(o : Orders.VarOrder) " if "self" in params else "") + "".join(
        "(%s : %s) " % (p, "List Nat" if p == "order" else "Nat") for p in args)
    if kind == "mut":      # &mut self: returns (new self, value)
        S(ast[1], cx)
        val = E(ast[2], cx)
        new_self = "{ varToPos := %s, posToVar := %s : Orders.VarOrder }" % (cx.env["self.var_to_pos"], cx.env["self.pos_to_var"])
        return binder, "Orders.VarOrder × Nat", "(%s, %s)" % (new_self, val)
    ty = {"nat": "Nat", "bool": "Bool", "opt": "Option Nat", "list": "List Nat", "order": "Orders.VarOrder"}[kind]
    return binder, ty, B(ast, cx)


FUNS = [  # rust name, lean name, kind, model counterpart (for the alias fallback)
    ("num_vars", "numVars", "nat", "Orders.VarOrder.numVars"),
    ("get", "get", "nat", "Orders.VarOrder.get"),
    ("var_at_level", "varAtLevel", "nat", "Orders.VarOrder.varAtLevel"),
    ("lt", "lt", "bool", "Orders.VarOrder.lt"),
    ("lte", "lte", "bool", "Orders.VarOrder.lte"),
    ("above", "above", "opt", "Orders.VarOrder.above"),
    ("below", "below", "opt", "Orders.VarOrder.below"),
    ("last_var", "lastVar", "nat", "Orders.VarOrder.lastVar"),
    ("new_last", "newLast", "mut", "Orders.VarOrder.newLast"),
    ("in_order_iter", "inOrder", "list", "Orders.VarOrder.inOrder"),
    ("new", "new", "order", "Orders.VarOrder.new"),
    ("linear_order", "linear", "order", "Orders.VarOrder.linear"),
]

HEADER = """import RsddModel.Model.Orders
import RsddModel.Model.OrdersExtra
/-!
# Generated by tools/gen_orders.py from src/repr/var_order.rs — do not edit

Compared with the hand-written model (`Orders.VarOrder.*`) in `Props/TieOrders.lean`.
-/
namespace Gen.Orders
open _root_.Orders (forRange)

"""


def write_if_changed(path, text):
    old = open(path).read() if os.path.exists(path) else None
    if old != text:
        open(path, "w").write(text)


def main():
    from elab_guard import guard
    status, items = {}, []
    try:
        src = open(os.path.join(REPO, "src/repr/var_order.rs")).read()
    except OSError as e:
        src = None
        err = str(e)
    for rust, lean, kind, model in FUNS:
        key = "VarOrder::" + rust
        alias = "-- TRANSLATOR ROUTE NOT AVAILABLE for %s\nabbrev %s := @_root_.%s\n" % (rust, lean, model)
        try:
            if src is None:
                raise Untranslatable(err)
            binder, ty, body = translate_fn(src, rust, kind)
            items.append({"key": key, "text": "def %s %s: %s :=\n  %s\n" % (lean, binder, ty, body), "alias": alias})
            status[key] = "translated"
        except (Untranslatable, KeyError, IndexError, ValueError, TypeError) as e:
            items.append({"key": key, "text": alias, "alias": alias})
            status[key] = "UNTRANSLATED (translator route not available, tied by correspondence only): %s" % str(e).replace("\n", " ")
    fell = guard(OUT, HEADER, items, "end Gen.Orders\n")
    for k, why in fell.items():
        status[k] = "UNTRANSLATED (translator route not available, tied by correspondence only): %s" % why
    return status


if __name__ == "__main__":
    for k, v in main().items():
        print(k, "->", v)
