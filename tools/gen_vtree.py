#!/usr/bin/env python3
"""Translator route for vtrees, the vtree manager, the binary-tree utilities and dtrees
(src/repr/vtree.rs, src/util/btree.rs, src/repr/dtree.rs): regenerates
`lean/RsddModel/Model/GenVTree.lean` from the Rust text on every run; `Props/TieVTree.lean` proves
the regenerated definitions equal to the hand-written model (`Model/VTree.lean`, namespace `VT`).

The Rust is parsed by tools/rustmini_vtree.py (tokenizer + recursive descent parser); every function
of the table `FUNS` is located by name inside its `impl` block and its body is translated statement
by statement / arm by arm.  A function outside the grammar falls back (that function only) to an
alias of the model definition and is reported UNTRANSLATED.

Elaboration guard: when the generated text is new it is elaborated once (`lake env lean`); a definition with an
error (e.g. Lean cannot show that a changed recursion terminates) falls back to its alias, status `… does not elaborate`.

Conventions
  * a function that can panic (`panic!`, `assert!`, `unwrap`, indexing a `Vec` of trees) is *partial*:
    its Lean type is `… → Option T`, `none` = panic (as in the model); calls of partial functions are
    sequenced with `Option.bind`.  A Rust `Option<T>` result of a partial function is `Option (Option T)`.
  * `&mut self` / `&mut v` become state passing: the function returns the new value of the mutated
    object; fields bound by a `match self` arm are places, the arm ends by rebuilding the constructor.
  * recursion: on the sub-trees / tail of the matched value = Lean structural recursion; otherwise
    (`left_linear` peels from the back, `even_split`, `balanced` split) recursion with fuel:
    `fooF : Nat → …` with `fooF 0 = none`, `foo x = fooF (fuel x) x`  (fuel column of `FUNS`).
  * `let x = e;` is substituted; `let (a, b) = e;` with a non-tuple `e` becomes a Lean `match`.
  * `if c { return e; } rest` ↦ `if c then e else rest`; `if c { continue; } rest` ↦ `if c then state else rest`;
    `if c { assignments }` ↦ every assigned local becomes `if c then new else old`.
  * `for x in it { body }` ↦ `Tr.forIn' it state (fun state x => body)` (= `it.foldl`), `for (i, x) in it.enumerate()` ↦
    `Tr.forEnum it state (fun i x state => body)`, a partial body ↦ `List.foldlM` in `Option`;
    the state is the tuple of the mutable locals assigned in the body (in order of first assignment).

Mapping table (trusted, kept small)
  VarLabel, VTreeIndex, usize          ↦ Nat   (`x.value_usize()`, `x.value()`, `VTreeIndex(e)`, `x.0`, `*x`, `&x`,
                                               `.clone()`, `Box::new`, `.iter()`, `.into_iter()`, `.as_slice()`, `.collect()` are identities)
  BTree::Leaf(v) / BTree::Node((), l, r) ↦ VT.VTree.leaf v / VT.VTree.node l r
  DTree::Leaf{clause,cutset,vars} / DTree::Node{l,r,cutset,vars} ↦ VT.DTree.leaf clause cutset vars / VT.DTree.node l r cutset vars
  Vec / slice / VecDeque / HashSet<usize> / VarSet ↦ List (VarSet: strictly ascending list, `VT.VarSet.*`)
  slice patterns `[]`, `[x]`, `[a, rest @ ..]` ↦ `[]`, `[x]`, `a :: rest`;  `[rest @ .., last]` ↦ `Tr.sliceBack s = some (rest, last)`
  v[i] on a Vec<usize> ↦ v.getD i 0  (panic out of range: outside the hypotheses, as in gen_orders.py)
  v[i] on a Vec of trees ↦ v[i]?   (partial)
  v[i] = e ↦ v.set i e      v.push(e) / v.push_back(e) ↦ v ++ [e]     v.len(), it.count() ↦ v.length
  v.is_empty() ↦ v.isEmpty      o.is_none() ↦ o.isNone     a.or(b) ↦ a.or b     vec![c; n] ↦ List.replicate n c
  s.split_at(n) ↦ (s.take n, s.drop n)      it.partition(p) ↦ (it.filter p, it.filter (!p ·))
  o.map(f) / o.and_then(f) / o.map_or(d, f) / o.unwrap_or(d) ↦ Option.map / Option.bind / Option.elim / Option.getD
  it.filter(p) / any(p) / all(p) / rev() / take(n) / skip(n) ↦ List.filter / any / all / reverse / take / drop   (closures `|x| e`, total bodies)
  usize::max(a, b) ↦ max a b      it.max() ↦ Tr.listMax? it      o.unwrap() ↦ bind (partial)
  HashSet::from([x]) ↦ [x]      &a | &b (HashSet union) ↦ a ++ b      [a, b].concat() ↦ a ++ b     vec![x] ↦ [x]
  VarSet::new() ↦ []   s.insert(x) ↦ VarSet.insert x s   a.union(b) ↦ VarSet.union a b
  a.intersect_varset(b) ↦ VarSet.inter a b    a.minus(b) ↦ VarSet.minus a b    s.contains(x) ↦ s.contains x
  lit.label() ↦ lit.var      cnf.clauses() ↦ cnf      elim_order.in_order_iter() ↦ elim_order (the `pos_to_var` list, see gen_orders.py)
  x.extract_leaf() ↦ Tr.leafD x   (the label of a leaf, 0 on an inner node where the Rust panics)
  InOrderDepthFirstIter { v } ↦ v   (its `next` is `pop_front`)
  VTreeManager fields ↦ VT.VTreeManager fields; the field `lca: LeastCommonAncestor` is the pair
    (`euler` = contents of `seg_tree`, `indexMap`); `self.seg_tree.query(l, r)` ↦ `VT.rangeMin m.euler l r` (half-open minimum)
  a field of `VTreeManager` that the model does not have is accepted when `new` initialises it with `SegmentPoint::build(v, Min)` and
    `v` is the vector of a model field (`tree.dfs_to_bfs_mapping()` ↦ `dfsToBfs`, …): `self.f.query(l, r)` ↦ `rangeMin m.<that field> l r`;
    model fields the Rust literal no longer mentions keep the model's content (sound for managers built by `new`, the only constructor)
  tree.dfs_to_bfs_mapping() / bfs_to_dfs_mapping() ↦ VT.VTree.dfsToBfs / bfsToDfs;  LeastCommonAncestor::new(&t) ↦ Tr.lcaNew t
    (node identity by address ↦ root path: not translated, tied by differential testing only)
  panic!(..) ↦ none     assert!(c); rest ↦ if c then rest else none     debug_assert!(..) ↦ skipped (release build)
"""
import os, re, sys

sys.path.insert(0, os.path.dirname(os.path.abspath(__file__)))
from rustmini_vtree import Untranslatable, Parser, find_fn, parse_body, parse_params  # noqa: E402

ROOT = os.path.dirname(os.path.dirname(os.path.abspath(__file__)))
REPO = os.environ.get("VERIF_REPO", "/repo")
OUT = os.path.join(ROOT, "lean", "RsddModel", "Model", "GenVTree.lean")

VTREE_RS, BTREE_RS, DTREE_RS = "src/repr/vtree.rs", "src/util/btree.rs", "src/repr/dtree.rs"

# Lean types by tag
LT = {"order": "Orders.VarOrder", "lldtree": "List (List DTree)", "nat": "Nat", "bool": "Bool", "vtree": "VTree", "dtree": "DTree", "lnat": "List Nat", "lvtree": "List VTree",
      "ldtree": "List DTree", "ovtree": "Option VTree", "mgr": "VTreeManager", "cnf": "Spec.Cnf", "onat": "Option Nat",
      "clause": "Spec.Clause", "lonat": "List (Option Nat)", "lit": "Spec.Lit"}
ELEM = {"lldtree": "ldtree", "lnat": "nat", "lvtree": "vtree", "ldtree": "dtree", "cnf": "clause", "clause": "lit", "lonat": "onat"}


class Fn:
    def __init__(self, owner, rust, lean, ptys, ret, model, file, partial=False, rec="none", fuel=None, mut=None,
                 modelF=None):
        self.owner, self.rust, self.lean, self.ptys, self.ret = owner, rust, lean, ptys, ret
        self.model, self.file, self.partial, self.rec, self.fuel, self.mut = model, file, partial, rec, fuel, mut
        self.modelF = modelF
        self.key = owner + "::" + rust

    def lean_ret(self):
        t = LT[self.ret]
        return "Option %s" % paren(t) if self.partial else t


# owner, rust name, lean name, parameter type tags (`self` included), result tag, model definition (alias fallback)
FUNS = [
    Fn("VTree", "new_node", "newNode", ["vtree", "vtree"], "vtree", "VT.VTree.node", VTREE_RS),
    Fn("VTree", "new_leaf", "newLeaf", ["nat"], "vtree", "VT.VTree.leaf", VTREE_RS),
    Fn("VTree", "num_vars", "numVarsTree", ["vtree"], "nat", "VT.VTree.numVarsTree", VTREE_RS, rec="struct"),
    Fn("VTree", "all_vars", "allVars", ["vtree"], "lnat", "VT.Tr.allVars", VTREE_RS, rec="struct"),
    Fn("VTree", "flatten_vtree", "flattenVtree", ["vtree"], "lnat", "VT.VTree.leaves", VTREE_RS, rec="struct"),
    Fn("VTree", "right_linear", "rightLinear", ["lnat"], "vtree", "VT.VTree.rightLinear", VTREE_RS, partial=True,
       rec="struct"),
    Fn("VTree", "left_linear", "leftLinear", ["lnat"], "vtree", "VT.VTree.leftLinear", VTREE_RS, partial=True,
       rec="fuel", fuel="{0}.length + 1", modelF="fun (_ : Nat) => VT.VTree.leftLinear"),
    Fn("VTree", "right_linear_c", "rightLinearC", ["lnat", "ovtree"], "vtree", "VT.VTree.rightLinearC", VTREE_RS,
       partial=True, rec="struct"),
    Fn("VTree", "even_split", "evenSplit", ["lnat", "nat"], "vtree", "VT.VTree.evenSplit", VTREE_RS, partial=True,
       rec="fuel", fuel="{1} + 1", modelF="fun (_ : Nat) => VT.VTree.evenSplit"),
    Fn("BTree", "is_leaf", "isLeaf", ["vtree"], "bool", "VT.VTree.isLeaf", BTREE_RS),
    Fn("BTree", "dfs_recurse", "dfsRecurse", ["vtree", "lvtree"], "lvtree", "fun t v => v ++ VT.VTree.inorder t",
       BTREE_RS, rec="struct", mut=1),
    Fn("BTree", "inorder_dfs_iter", "inorderDfsIter", ["vtree"], "lvtree", "VT.VTree.inorder", BTREE_RS),
    Fn("LeastCommonAncestor", "lca", "lcaBfs", ["mgr", "nat", "nat"], "nat", "VT.VTreeManager.lcaBfs", BTREE_RS),
    Fn("VTreeManager", "new", "mgrNew", ["vtree"], "mgr", "VT.VTreeManager.new", VTREE_RS),
    Fn("VTreeManager", "vtree_root", "vtreeRoot", ["mgr"], "vtree", "VT.VTreeManager.tree", VTREE_RS),
    Fn("VTreeManager", "lca", "mgrLca", ["mgr", "nat", "nat"], "nat", "VT.VTreeManager.lca", VTREE_RS),
    Fn("VTreeManager", "vtree", "mgrVtree", ["mgr", "nat"], "vtree", "VT.VTreeManager.vtree", VTREE_RS, partial=True),
    Fn("VTreeManager", "var_index", "varIndex", ["mgr", "nat"], "nat", "VT.VTreeManager.getVarlabelIdx", VTREE_RS),
    Fn("VTreeManager", "is_prime_index", "isPrimeIndex", ["mgr", "nat", "nat"], "bool", "VT.VTreeManager.isPrimeIndex",
       VTREE_RS),
    Fn("VTreeManager", "is_prime_var", "isPrimeVar", ["mgr", "nat", "nat"], "bool", "VT.VTreeManager.isPrimeVar",
       VTREE_RS),
    Fn("VTreeManager", "num_vars", "mgrNumVars", ["mgr"], "nat", "fun m => some (VT.VTreeManager.numVars m)", VTREE_RS,
       partial=True),
    Fn("DTree", "get_vars", "getVars", ["dtree"], "lnat", "VT.DTree.vars", DTREE_RS),
    Fn("DTree", "init_vars", "initVars", ["dtree"], "dtree", "VT.DTree.initVars", DTREE_RS, rec="struct", mut=0),
    Fn("DTree", "gen_cutset", "genCutset", ["dtree", "lnat"], "dtree", "fun d a => VT.DTree.genCutset a d", DTREE_RS,
       rec="struct", mut=0),
    Fn("DTree", "balanced", "balanced", ["ldtree"], "dtree", "VT.DTree.balanced", DTREE_RS, partial=True, rec="fuel",
       fuel="{0}.length", modelF="VT.DTree.balancedAux"),
    Fn("DTree", "cutwidth", "cutwidth", ["dtree"], "nat", "VT.DTree.cutwidth", DTREE_RS, rec="struct"),
    Fn("DTree", "from_cnf", "fromCnf", ["cnf", "order"], "dtree",
       "fun (cs : Spec.Cnf) (o : Orders.VarOrder) => VT.DTree.fromCnf cs o.inOrder", DTREE_RS, partial=True),
    Fn("VTree", "from_dtree", "fromDtree", ["dtree"], "ovtree", "fun d => some (VT.VTree.fromDtree d)", VTREE_RS,
       partial=True, rec="struct"),
]
IMPLS = {"VTree": r"impl\s+VTree\s*\{", "VTreeManager": r"impl\s+VTreeManager\s*\{",
         "BTree": r"impl\s*<\s*N\s*,\s*L\s*>\s*BTree\s*<\s*N\s*,\s*L\s*>", "LeastCommonAncestor": r"impl\s+LeastCommonAncestor\s*\{",
         "DTree": r"impl\s+DTree\s*\{"}
OWNER_OF_TY = {"vtree": ["VTree", "BTree"], "dtree": ["DTree"], "mgr": ["VTreeManager"]}
PATH_OWNER = {"VTree": ["VTree", "BTree"], "BTree": ["BTree", "VTree"], "DTree": ["DTree"],
              "LeastCommonAncestor": ["LeastCommonAncestor"], "VTreeManager": ["VTreeManager"]}

MGR_FIELDS = {"tree": ("tree", "vtree"), "dfs_to_bfs": ("dfsToBfs", "lnat"), "bfs_to_dfs": ("bfsToDfs", "lnat"),
              "vtree_index": ("vtreeIndex", "lnat"), "index_lookup": ("indexLookup", "lvtree")}
LCA_FIELDS = {"index_map": ("indexMap", "lnat")}
NEWSTATE = []   # state the model has no counterpart for, met while translating the current function (-> status DIFFERS)
HELPERS = {}    # (owner, rust name) -> Fn: helper functions that are not in FUNS (nested `fn` items, private associated functions)
HELPER_DEFS = []  # their generated definitions, emitted in front of the function that uses them
FILE_OF_OWNER = {}


class Differs(Exception):
    pass


def newstate_term(name):
    return "(newState_%s)" % name


def is_newstate(t):
    return "newState_" in t


def rust_ty_tag(text, owner):
    """Rust type text (tokens joined by blanks) -> type tag of this translator; None if unknown"""
    t = re.sub(r"\s+", "", text)
    t = re.sub(r"^&('[a-z]+)?(mut)?", "", t)
    if t in ("Self",):
        t = {"VTree": "VTree", "BTree": "VTree", "DTree": "DTree", "VTreeManager": "VTreeManager"}.get(owner, t)
    table = {"usize": "nat", "VarLabel": "nat", "VTreeIndex": "nat", "u64": "nat", "bool": "bool", "VTree": "vtree",
             "BTree<N,L>": "vtree", "BTree<(),VarLabel>": "vtree", "DTree": "dtree", "VarSet": "lnat", "Vec<usize>": "lnat",
             "[usize]": "lnat", "[VarLabel]": "lnat", "Vec<VarLabel>": "lnat", "Vec<VTree>": "lvtree", "[DTree]": "ldtree",
             "Vec<DTree>": "ldtree", "Vec<Vec<DTree>>": "lldtree", "Option<usize>": "onat", "Option<VTree>": "ovtree",
             "VarOrder": "order", "Cnf": "cnf", "VTreeManager": "mgr", "Option<VarLabel>": "onat"}
    return table.get(t)


DERIVED = {}    # Rust field of VTreeManager that is not in the model -> model field holding the vector it is a range-minimum table of


def lookup_fn(owners, name):
    for o in owners:
        for f in FUNS:
            if f.owner == o and f.rust == name:
                return f
    return None


def balanced_parens(s):
    d = 0
    for ch in s:
        if ch in "([":
            d += 1
        elif ch in ")]":
            d -= 1
            if d < 0:
                return False
    return d == 0


def paren(e):
    if re.match(r"^[A-Za-z0-9_.'?]+$", e):
        return e
    if (e[0] == "(" and e[-1] == ")" and balanced_parens(e[1:-1])) or (e[0] == "[" and e[-1] == "]" and balanced_parens(e[1:-1])):
        return e
    return "(" + e + ")"


class NeedBind(Exception):
    pass


class Cx:
    def __init__(self, fn, env, ty):
        self.fn = fn
        self.env = dict(env)      # rust local / place -> Lean term
        self.ty = dict(ty)        # rust local -> type tag (when known)
        self.binds = None         # list of (lean var, Option-valued term) while an expression is being translated
        self.counter = [0]
        self.rebuild = None       # (ctor, [place names]) inside an arm of `match self` of a `&mut self` function
        self.loop_state = None    # names of the loop state inside a `for` body
        self.in_loop = False
        self.selfname = None
        self.fuel = None
        self.ret_fin = None
        self.loop_fin = None
        self.opt_tail = False     # the term being built in tail position is Option-valued (none = panic)

    def sub(self):
        c = Cx(self.fn, self.env, self.ty)
        c.counter = self.counter
        c.rebuild, c.loop_state, c.in_loop, c.selfname, c.fuel = self.rebuild, self.loop_state, self.in_loop, self.selfname, self.fuel
        c.ret_fin, c.loop_fin, c.opt_tail = self.ret_fin, self.loop_fin, self.opt_tail
        return c

    def fresh(self, base="w"):
        self.counter[0] += 1
        return "%s%d" % (base, self.counter[0])

    def bind(self, term, base="b"):
        if self.binds is None:
            raise NeedBind()
        v = self.fresh(base)
        self.binds.append((v, term))
        return v


def strip_refs(a):
    while a[0] == "un" and a[1] in ("&", "*"):
        a = a[2]
    return a


def tyof(a, cx):
    a = strip_refs(a)
    if a[0] == "var":
        return cx.ty.get(a[1])
    if a[0] == "field" and strip_refs(a[1]) == ("var", "self"):
        if cx.fn.owner == "VTreeManager" and a[2] in MGR_FIELDS:
            return MGR_FIELDS[a[2]][1]
        if cx.fn.owner == "LeastCommonAncestor" and a[2] in LCA_FIELDS:
            return LCA_FIELDS[a[2]][1]
    if a[0] == "mcall" and a[2] in ("clone", "iter", "into_iter", "as_slice", "collect", "copied", "cloned"):
        return tyof(a[1], cx)
    if a[0] == "mcall" and a[2] == "clauses":
        return "cnf"
    if a[0] == "mcall" and a[2] == "in_order_iter":
        return "lnat"
    if a[0] == "mcall" and tyof(a[1], cx) == "order" and a[2] in ("num_vars", "get"):
        return "nat"
    if a[0] == "mcall" and a[2] in ("filter", "rev", "take", "skip") and tyof(a[1], cx) in ELEM:
        return tyof(a[1], cx)
    if a[0] == "mcall" and a[2] in ("min", "max") and not a[3] and tyof(a[1], cx) == "lnat":
        return "onat"
    if a[0] == "mcall" and a[2] == "map" and tyof(a[1], cx) == "lnat" and len(a[3]) == 1 and a[3][0][0] == "closure":
        return "lnat"          # closures over usize collections are usize valued in this code base
    if a[0] == "call" and a[1][0] == "var" and ("local", a[1][1]) in HELPERS:
        g = HELPERS[("local", a[1][1])]
        return g.ret if g.mut is None else None
    if a[0] == "mcall":
        f = resolve_method(a, cx)
        if f is not None:
            return f.ret if not (f.mut is not None) else None
    if a[0] == "index":
        t = tyof(a[1], cx)
        return ELEM.get(t)
    if a[0] == "call" and a[1][0] == "path" and a[1][1][-2:] == ["mem", "take"] and len(a[2]) == 1:
        return tyof(a[2][0], cx)
    if a[0] == "struct" and a[1] in ("Leaf", "Node") and cx.fn.owner == "DTree":
        return "dtree"
    if a[0] == "call" and a[1][0] == "path" and len(a[1][1]) == 2:
        owner = cx.fn.owner if a[1][1][0] == "Self" else a[1][1][0]
        g = lookup_fn(PATH_OWNER.get(owner, [owner]), a[1][1][1])
        if g is not None and g.mut is None:
            return g.ret
    return None


def resolve_method(a, cx):
    recv, name = a[1], a[2]
    t = tyof(recv, cx)
    owners = None
    if t in OWNER_OF_TY:
        owners = OWNER_OF_TY[t]
    elif strip_refs(recv) == ("var", "self"):
        owners = PATH_OWNER.get(cx.fn.owner, [cx.fn.owner])
    if owners is None:
        if t is None:
            cands = [f for f in FUNS if f.rust == name]      # receiver of unknown type: only an unambiguous name
            if len(cands) == 1:
                return cands[0]
        return None
    return lookup_fn(owners, name)


def call_fn(f, args, cx):
    """Lean term for a call of the translated function `f` (binds when partial)"""
    if len(args) != len(f.ptys):
        raise Untranslatable("arity of call to " + f.rust)
    if f is cx.fn and f.rec == "fuel":
        t = "%sF fuel %s" % (f.lean, " ".join(paren(x) for x in args))
    else:
        t = "%s %s" % (f.lean, " ".join(paren(x) for x in args))
    if f.partial:
        return cx.bind(t)
    return paren(t)


def E(a, cx):
    """expression -> Lean term of the value (pure); partial sub-computations are bound through cx.bind"""
    k = a[0]
    if k == "num":
        return a[1]
    if k == "bool":
        return "true" if a[1] else "false"
    if k == "var":
        if a[1] == "None":
            return "none"
        if a[1] in cx.env:
            return cx.env[a[1]]
        raise Untranslatable("unknown local %r" % a[1])
    if k == "un" and a[1] in ("*", "&"):
        return E(a[2], cx)
    if k == "un" and a[1] == "!":
        return "!" + paren(E(a[2], cx))
    if k == "cast":
        if a[2].strip() in ("usize", "u64", "u32"):
            return E(a[1], cx)
        raise Untranslatable("cast to " + a[2])
    if k == "tuple":
        if not a[1]:
            return "()"
        return "(" + ", ".join(E(x, cx) for x in a[1]) + ")"
    if k == "array":
        return "[" + ", ".join(E(x, cx) for x in a[1]) + "]"
    if k == "field":
        base = strip_refs(a[1])
        if a[2] == "0" and tyof(base, cx) == "nat":          # VTreeIndex(usize)
            return E(base, cx)
        if base == ("var", "self") and cx.selfname:
            if cx.fn.owner == "VTreeManager" and a[2] in MGR_FIELDS:
                return "%s.%s" % (cx.selfname, MGR_FIELDS[a[2]][0])
            if cx.fn.owner == "LeastCommonAncestor" and a[2] in LCA_FIELDS:
                return "%s.%s" % (cx.selfname, LCA_FIELDS[a[2]][0])
            if cx.fn.owner in ("VTreeManager", "LeastCommonAncestor") and re.match(r"^[a-z_][a-z0-9_]*$", a[2]):
                if a[2] in DERIVED:
                    return "%s.%s" % (cx.selfname, DERIVED[a[2]])
                # a field the model's manager has no slot for: read the rest, report DIFFERS (new state)
                if a[2] not in NEWSTATE:
                    NEWSTATE.append(a[2])
                return newstate_term(a[2])
        raise Untranslatable("field ." + a[2])
    if k == "index":
        t = tyof(a[1], cx)
        v, i = paren(E(a[1], cx)), paren(E(a[2], cx))
        if t in ("lvtree", "ldtree"):
            return cx.bind("%s[%s]?" % (v, i))
        if t == "lldtree":
            return "%s.getD %s []" % (v, i)
        if t == "lonat":
            return "%s.getD %s none" % (v, i)
        if t in ("lnat", None):
            return "%s.getD %s 0" % (v, i)
        raise Untranslatable("indexing a " + str(t))
    if k == "bin":
        op = a[1]
        if op in ("+", "-", "*", "/", "%"):
            return "%s %s %s" % (paren(E(a[2], cx)), op, paren(E(a[3], cx)))
        if op in ("<", "<=", ">", ">=", "==", "!="):
            lop = {"<": "<", "<=": "≤", ">": ">", ">=": "≥", "==": "=", "!=": "≠"}[op]
            return "decide (%s %s %s)" % (paren(E(a[2], cx)), lop, paren(E(a[3], cx)))
        if op in ("&&", "||"):
            l = E(a[2], cx)
            sub = cx.sub()            # the right operand is evaluated conditionally: no binds there
            sub.binds = None
            try:
                r = E(a[3], sub)
            except NeedBind:
                raise Untranslatable("partial call under a short-circuit operator")
            return "%s %s %s" % (paren(l), op, paren(r))
        if op == "|":
            return "%s ++ %s" % (paren(E(a[2], cx)), paren(E(a[3], cx)))
        raise Untranslatable("operator " + op)
    if k == "macro":
        return E_macro(a, cx)
    if k == "call":
        return E_call(a, cx)
    if k == "mcall":
        return E_mcall(a, cx)
    if k == "struct":
        return E_struct(a, cx)
    if k in ("if", "iflet", "match", "block"):
        # a compound expression in value position: pure if possible, otherwise an Option term that is bound
        sub = cx.sub()
        try:
            sub.binds = None
            sub.opt_tail = False
            return paren(T(a, sub, lambda e, c: V(e, c), force_pure=True))
        except NeedBind:
            pass
        if not cx.fn.partial:
            raise Untranslatable("partial computation in a total function")
        sub = cx.sub()
        sub.opt_tail = True
        term = T(a, sub, lambda e, c: V_opt(e, c))
        return cx.bind(paren(term))
    if k == "closure":
        raise Untranslatable("closure in value position")
    raise Untranslatable("expression kind " + k)


def E_macro(a, cx):
    name, raw = a[1], a[2]
    if name == "vec":
        if ";" in raw:
            i = raw.index(";")
            c, n = Parser(raw[:i]).expr(), Parser(raw[i + 1:]).expr()
            cl = E(c, cx)
            if cl == "none":
                cl = "(none : Option Nat)"
            return "List.replicate %s %s" % (paren(E(n, cx)), paren(cl))
        p = Parser(raw)
        es = []
        while not p.at_end():
            es.append(p.expr())
            if p.peek() == ",":
                p.eat(",")
        return "[" + ", ".join(E(x, cx) for x in es) + "]"
    if name == "matches":
        p = Parser(raw)
        scrut = p.expr()
        p.eat(",")
        pat = p.pattern()
        if not p.at_end():
            raise Untranslatable("matches! with a guard")
        pats, _ = lean_pat(pat, cx.sub(), tyof(scrut, cx))
        return "(match %s with | %s => true | _ => false)" % (E(scrut, cx), pats)
    raise Untranslatable("macro %s!" % name)


def E_call(a, cx):
    f, args = a[1], a[2]
    if f[0] == "var" and f[1] == "Some" and len(args) == 1:
        return "some %s" % paren(E(args[0], cx))
    if f[0] == "var" and f[1] == "VTreeIndex" and len(args) == 1:
        return E(args[0], cx)
    if f[0] == "path":
        p = f[1]
        if p[-2:] in (["Box", "new"],) and len(args) == 1:
            return E(args[0], cx)
        if p in (["VarLabel", "new"], ["VarLabel", "new_usize"]) and len(args) == 1:
            return E(args[0], cx)
        if p in (["Vec", "new"], ["VecDeque", "new"], ["VarSet", "new"]) and not args:
            return "[]"
        if p in (["Vec", "with_capacity"], ["VecDeque", "with_capacity"]) and len(args) == 1:
            E(args[0], cx)
            return "[]"
        if p == ["HashSet", "from"] and len(args) == 1:
            return E(args[0], cx)
        if p == ["usize", "max"] and len(args) == 2:
            return "max %s %s" % (paren(E(args[0], cx)), paren(E(args[1], cx)))
        if p == ["usize", "min"] and len(args) == 2:
            return "min %s %s" % (paren(E(args[0], cx)), paren(E(args[1], cx)))
        if p[-1] == "Leaf" and p[0] in ("BTree", "VTree", "Self") and len(p) == 2 and len(args) == 1 and cx.fn.owner != "DTree":
            return "VTree.leaf %s" % paren(E(args[0], cx))
        if p[-1] == "Node" and p[0] in ("BTree", "VTree", "Self") and len(p) == 2 and len(args) == 3 and cx.fn.owner != "DTree":
            if args[0] != ("tuple", []):
                raise Untranslatable("node label")
            return "VTree.node %s %s" % (paren(E(args[1], cx)), paren(E(args[2], cx)))
        if p == ["LeastCommonAncestor", "new"] and len(args) == 1:
            return "Tr.lcaNew %s" % paren(E(args[0], cx))
        if len(p) == 2:
            owner = cx.fn.owner if p[0] == "Self" else p[0]
            g = lookup_fn(PATH_OWNER.get(owner, [owner]), p[1]) or assoc_helper(owner, p[1])
            if g is not None:
                if g.mut is not None:
                    raise Untranslatable("mutating function %s in value position" % g.rust)
                return call_fn(g, [E(x, cx) for x in args], cx)
        raise Untranslatable("call of %s" % "::".join(p))
    if f[0] == "var" and ("local", f[1]) in HELPERS:
        g = HELPERS[("local", f[1])]
        if g.mut is not None:
            raise Untranslatable("mutating function %s in value position" % g.rust)
        return call_fn(g, [E(x, cx) for x in args], cx)
    raise Untranslatable("call of %r" % (f,))


IDENT_METHODS = ("clone", "iter", "into_iter", "as_slice", "collect", "copied", "cloned", "value_usize", "value",
                 "to_vec", "as_ref")


def closure1(cl, cx, elem_ty=None):
    """`|x| body` -> (lean var, body term); pure"""
    if cl[0] != "closure" or len(cl[1]) != 1:
        raise Untranslatable("closure shape")
    pat = cl[1][0]
    while pat[0] == "pref":
        pat = pat[1]
    if pat[0] != "pvar":
        raise Untranslatable("closure pattern")
    x = lname(pat[1])
    sub = cx.sub()
    sub.binds = None
    sub.opt_tail = False
    sub.env[pat[1]] = x
    if elem_ty:
        sub.ty[pat[1]] = elem_ty
    try:
        body = T(cl[2], sub, lambda e, c: V(e, c), force_pure=True)
    except NeedBind:
        raise Untranslatable("partial call inside a closure")
    return x, body


def E_mcall(a, cx):
    recv, name, args = a[1], a[2], a[3]
    r0_ = strip_refs(recv)
    if r0_[0] == "field" and strip_refs(r0_[1]) == ("var", "self") and cx.selfname \
            and cx.fn.owner in ("VTreeManager", "LeastCommonAncestor") \
            and r0_[2] not in MGR_FIELDS and r0_[2] not in LCA_FIELDS and r0_[2] not in DERIVED \
            and r0_[2] not in ("seg_tree", "lca"):
        # a method of a field the model has no slot for: the arguments are still read
        t = E(recv, cx)
        for x in args:
            E(x, cx)
        return t
    if tyof(recv, cx) == "order":
        o = paren(E(recv, cx))
        if name == "num_vars" and not args:
            return "Orders.VarOrder.numVars %s" % o
        if name == "get" and len(args) == 1:
            return "Orders.VarOrder.get %s %s" % (o, paren(E(args[0], cx)))
        if name == "in_order_iter" and not args:
            return "Orders.VarOrder.inOrder %s" % o
        if name == "var_at_level" and len(args) == 1:
            return "Orders.VarOrder.varAtLevel %s %s" % (o, paren(E(args[0], cx)))
        raise Untranslatable("VarOrder method ." + name)
    if name == "min" and not args:
        return "Tr.listMin? %s" % paren(E(recv, cx))
    if name in IDENT_METHODS and not args:
        return E(recv, cx)
    if name in ("len", "count") and not args:
        return "%s.length" % paren(E(recv, cx))
    if name == "is_empty" and not args:
        return "%s.isEmpty" % paren(E(recv, cx))
    if name == "is_none" and not args:
        return "%s.isNone" % paren(E(recv, cx))
    if name == "is_some" and not args:
        return "%s.isSome" % paren(E(recv, cx))
    if name == "or" and len(args) == 1:
        return "%s.or %s" % (paren(E(recv, cx)), paren(E(args[0], cx)))
    if name == "unwrap" and not args:
        return cx.bind(E(recv, cx))
    if name == "max" and not args:
        return "Tr.listMax? %s" % paren(E(recv, cx))
    if name == "concat" and not args and strip_refs(recv)[0] == "array" and len(strip_refs(recv)[1]) == 2:
        es = strip_refs(recv)[1]
        return "%s ++ %s" % (paren(E(es[0], cx)), paren(E(es[1], cx)))
    if name == "label" and not args:
        return "%s.var" % paren(E(recv, cx))
    if name == "clauses" and not args:
        return E(recv, cx)
    if name == "in_order_iter" and not args:
        return E(recv, cx)
    if name == "extract_leaf" and not args:
        return "Tr.leafD %s" % paren(E(recv, cx))
    if name == "contains" and len(args) == 1:
        return "%s.contains %s" % (paren(E(recv, cx)), paren(E(args[0], cx)))
    if name == "union" and len(args) == 1:
        return "VarSet.union %s %s" % (paren(E(recv, cx)), paren(E(args[0], cx)))
    if name == "intersect_varset" and len(args) == 1:
        return "VarSet.inter %s %s" % (paren(E(recv, cx)), paren(E(args[0], cx)))
    if name == "minus" and len(args) == 1:
        return "VarSet.minus %s %s" % (paren(E(recv, cx)), paren(E(args[0], cx)))
    if name == "dfs_to_bfs_mapping" and not args:
        return "VTree.dfsToBfs %s" % paren(E(recv, cx))
    if name == "bfs_to_dfs_mapping" and not args:
        return "VTree.bfsToDfs %s" % paren(E(recv, cx))
    if name == "split_at" and len(args) == 1:
        v, n = paren(E(recv, cx)), paren(E(args[0], cx))
        return "(%s.take %s, %s.drop %s)" % (v, n, v, n)
    if name == "partition" and len(args) == 1:
        et = ELEM.get(tyof(recv, cx))
        x, body = closure1(args[0], cx, et)
        v = paren(E(recv, cx))
        return "(%s.filter (fun %s => %s), %s.filter (fun %s => !%s))" % (v, x, body, v, x, paren(body))
    if name == "map" and len(args) == 1 and tyof(recv, cx) in ("ovtree", "onat"):
        x, body = closure1(args[0], cx, {"ovtree": "vtree", "onat": "nat"}[tyof(recv, cx)])
        return "Option.map (fun %s => %s) %s" % (x, body, paren(E(recv, cx)))
    if name == "and_then" and len(args) == 1 and tyof(recv, cx) in ("ovtree", "onat"):
        x, body = closure1(args[0], cx, {"ovtree": "vtree", "onat": "nat"}[tyof(recv, cx)])
        return "Option.bind %s (fun %s => %s)" % (paren(E(recv, cx)), x, body)
    if name == "map_or" and len(args) == 2 and tyof(recv, cx) in ("ovtree", "onat"):
        x, body = closure1(args[1], cx, {"ovtree": "vtree", "onat": "nat"}[tyof(recv, cx)])
        return "Option.elim %s %s (fun %s => %s)" % (paren(E(recv, cx)), paren(E(args[0], cx)), x, body)
    if name == "unwrap_or" and len(args) == 1:
        return "Option.getD %s %s" % (paren(E(recv, cx)), paren(E(args[0], cx)))
    if name in ("filter", "any", "all") and len(args) == 1:
        et = ELEM.get(tyof(recv, cx))
        x, body = closure1(args[0], cx, et)
        return "List.%s (fun %s => %s) %s" % (name, x, body, paren(E(recv, cx))) if name == "filter" else \
            "List.%s %s (fun %s => %s)" % (name, paren(E(recv, cx)), x, body)
    if name == "rev" and not args:
        return "List.reverse %s" % paren(E(recv, cx))
    if name in ("take", "skip") and len(args) == 1:
        return "List.%s %s %s" % ("take" if name == "take" else "drop", paren(E(args[0], cx)), paren(E(recv, cx)))
    if name == "map" and len(args) == 1:
        et = ELEM.get(tyof(recv, cx))
        x, body = closure1(args[0], cx, et)
        return "%s.map (fun %s => %s)" % (paren(E(recv, cx)), x, body)
    if name == "query" and len(args) == 2 and strip_refs(recv)[0] == "field" and strip_refs(recv)[2] == "seg_tree" \
            and strip_refs(strip_refs(recv)[1]) == ("var", "self") and cx.fn.owner == "LeastCommonAncestor":
        return "rangeMin %s.euler %s %s" % (cx.selfname, paren(E(args[0], cx)), paren(E(args[1], cx)))
    if name == "query" and len(args) == 2 and strip_refs(recv)[0] == "field" and strip_refs(recv)[2] in DERIVED \
            and strip_refs(strip_refs(recv)[1]) == ("var", "self") and cx.fn.owner == "VTreeManager":
        return "rangeMin %s.%s %s %s" % (cx.selfname, DERIVED[strip_refs(recv)[2]], paren(E(args[0], cx)), paren(E(args[1], cx)))
    if name == "lca" and strip_refs(recv)[0] == "field" and strip_refs(recv)[2] == "lca" and cx.fn.owner == "VTreeManager" \
            and strip_refs(strip_refs(recv)[1]) == ("var", "self"):
        g = lookup_fn(["LeastCommonAncestor"], "lca")
        return call_fn(g, [cx.selfname] + [E(x, cx) for x in args], cx)
    g = resolve_method(a, cx)
    if g is not None:
        if g.mut is not None:
            raise Untranslatable("mutating method %s in value position" % name)
        return call_fn(g, [E(recv, cx)] + [E(x, cx) for x in args], cx)
    raise Untranslatable("method ." + name)


def E_struct(a, cx):
    name, fs = a[1], dict(a[2])
    if len(fs) != len(a[2]):
        raise Untranslatable("duplicate field")
    if name == "VTreeManager":
        known = set(MGR_FIELDS) | {"lca"}
        # evaluation order of the literal = textual order
        vals = {}
        for f, e in a[2]:
            if f in known:
                vals[f] = E(e, cx)
        if "tree" not in vals or "vtree_index" not in vals or "index_lookup" not in vals:
            raise Untranslatable("VTreeManager literal fields")
        tree_t = paren(vals["tree"])
        canon = {"dfs_to_bfs": "VTree.dfsToBfs %s" % tree_t, "bfs_to_dfs": "VTree.bfsToDfs %s" % tree_t,
                 "lca": "Tr.lcaNew %s" % tree_t}
        for f, e in a[2]:
            if f in known:
                continue
            # a field the model does not have: accepted when it is a range-minimum table over a vector the model stores
            e0 = strip_refs(e)
            sub = cx.sub()
            sub.binds = None
            if not (e0[0] == "call" and e0[1][0] == "path" and e0[1][1] == ["SegmentPoint", "build"] and len(e0[2]) == 2
                    and strip_refs(e0[2][1]) == ("var", "Min")):
                E(e0, sub)                 # read the initialiser (grammar), the model has no slot for it
                NEWSTATE.append(f)
                continue
            t = E(e0[2][0], sub)
            hit = [k for k in ("dfs_to_bfs", "bfs_to_dfs") if paren(canon[k]) == paren(t)]
            if not hit:
                # a table over a vector the model does not store
                NEWSTATE.append(f)
                continue
            DERIVED[f] = MGR_FIELDS[hit[0]][0]
        for f in ("dfs_to_bfs", "bfs_to_dfs", "lca"):
            # a model field the Rust no longer stores keeps the model's content (it is only reachable through DERIVED)
            vals.setdefault(f, canon[f])
        parts = ["%s := %s" % (MGR_FIELDS[f][0], vals[f]) for f in MGR_FIELDS]
        parts.append("euler := %s.1" % paren(vals["lca"]))
        parts.append("indexMap := %s.2" % paren(vals["lca"]))
        return "({ " + ", ".join(parts) + " } : VTreeManager)"
    if name == "Leaf" and cx.fn.owner == "DTree":
        if set(fs) != {"clause", "cutset", "vars"}:
            raise Untranslatable("DTree::Leaf literal fields")
        vals = {f: E(e, cx) for f, e in a[2]}
        return "DTree.leaf %s %s %s" % (paren(vals["clause"]), paren(vals["cutset"]), paren(vals["vars"]))
    if name == "Node" and cx.fn.owner == "DTree":
        if set(fs) != {"l", "r", "cutset", "vars"}:
            raise Untranslatable("DTree::Node literal fields")
        vals = {f: E(e, cx) for f, e in a[2]}
        return "DTree.node %s %s %s %s" % (paren(vals["l"]), paren(vals["r"]), paren(vals["cutset"]), paren(vals["vars"]))
    if name == "InOrderDepthFirstIter":
        if set(fs) != {"v"}:
            raise Untranslatable("iterator literal")
        return E(fs["v"], cx)
    raise Untranslatable("struct literal " + name)


# ---------------------------------------------------------------- patterns

DTREE_CTORS = {"Leaf": ("DTree.leaf", ["clause", "cutset", "vars"], ["clause", "lnat", "lnat"]),
               "Node": ("DTree.node", ["l", "r", "cutset", "vars"], ["dtree", "dtree", "lnat", "lnat"])}


def lean_pat(p, cx, ty=None, places=None):
    """Rust pattern -> (Lean pattern, extra) ; binds the pattern variables in cx.env / cx.ty.
    `places`: when a list, receives (field, lean var) for struct patterns (rebuild of `&mut self`)."""
    k = p[0]
    if k == "pref":
        return lean_pat(p[1], cx, ty, places)
    if k == "pwild":
        return "_", None
    if k == "pvar":
        cx.env[p[1]] = lname(p[1])
        if ty:
            cx.ty[p[1]] = ty
        else:
            cx.ty.pop(p[1], None)
        return lname(p[1]), None
    if k == "plit":
        if p[1][0] == "num":
            return p[1][1], None
        if p[1][0] == "bool":
            return ("true" if p[1][1] else "false"), None
        raise Untranslatable("literal pattern")
    if k == "ptuple":
        if not p[1]:
            return "()", None
        tys = ty if isinstance(ty, list) else [None] * len(p[1])
        return "(" + ", ".join(lean_pat(q, cx, t)[0] for q, t in zip(p[1], tys)) + ")", None
    if k == "pctor":
        path, ps = p[1], p[2]
        if path == ["None"] and not ps:
            return "none", None
        if path == ["Some"] and len(ps) == 1:
            inner = {"ovtree": "vtree", "onat": "nat"}.get(ty)
            return "some %s" % paren(lean_pat(ps[0], cx, inner)[0]), None
        if path[-1] == "Leaf" and len(ps) == 1 and (ty == "vtree" or path[0] in ("BTree", "VTree")):
            return ".leaf %s" % paren(lean_pat(ps[0], cx, "nat")[0]), None
        if path[-1] == "Node" and len(ps) == 3 and (ty == "vtree" or path[0] in ("BTree", "VTree")):
            if ps[0] not in (("ptuple", []), ("pwild",)):
                raise Untranslatable("node label pattern")
            return ".node %s %s" % (paren(lean_pat(ps[1], cx, "vtree")[0]), paren(lean_pat(ps[2], cx, "vtree")[0])), None
        raise Untranslatable("constructor pattern " + "::".join(path))
    if k == "pstruct":
        path, fs = p[1], dict(p[2])
        if path[-1] in DTREE_CTORS and (ty == "dtree" or path[0] in ("DTree", "Self")):
            ctor, fields, ftys = DTREE_CTORS[path[-1]]
            if not set(fs) <= set(fields):
                raise Untranslatable("unknown field in pattern")
            out = []
            for f, ft in zip(fields, ftys):
                q = fs.get(f, ("pwild",))
                while q[0] == "pref":
                    q = q[1]
                if q[0] == "pwild" and places is not None:
                    v = cx.fresh(f + "_")
                    out.append(v)
                    places.append((f, v, None))
                elif q[0] == "pvar" and places is not None:
                    out.append(lean_pat(q, cx, ft)[0])
                    places.append((f, q[1], q[1]))
                else:
                    out.append(paren(lean_pat(q, cx, ft)[0]))
            return "%s %s" % ("." + ctor.split(".")[1], " ".join(out)), ctor
        raise Untranslatable("struct pattern " + "::".join(path))
    if k == "pslice":
        ps = p[1]
        elt = ELEM.get(ty)
        rests = [i for i, q in enumerate(ps) if q[0] == "prest"]
        if not rests:
            return "[" + ", ".join(lean_pat(q, cx, elt)[0] for q in ps) + "]", None
        if len(rests) > 1:
            raise Untranslatable("two rest patterns")
        i = rests[0]
        if i == len(ps) - 1:                       # [a, b, rest @ ..]
            heads = [paren(lean_pat(q, cx, elt)[0]) for q in ps[:-1]]
            if ps[i][1]:
                cx.env[ps[i][1]] = ps[i][1]
                if ty:
                    cx.ty[ps[i][1]] = ty
            return " :: ".join(heads + [ps[i][1] or "_"]), None
        if i == 0 and len(ps) == 2:                 # [rest @ .., last]: through the view Tr.sliceBack
            if ps[0][1]:
                cx.env[ps[0][1]] = ps[0][1]
                if ty:
                    cx.ty[ps[0][1]] = ty
            last = lean_pat(ps[1], cx, elt)[0]
            return None, "some (%s, %s)" % (ps[0][1] or "_", last)
        raise Untranslatable("slice pattern shape")
    raise Untranslatable("pattern kind " + k)


# ---------------------------------------------------------------- statements / tail positions

def wrap_binds(binds, inner):
    for v, t in reversed(binds):
        inner = "%s.bind fun %s =>\n  %s" % (paren(t), v, inner)
    return inner


def V(e, cx):
    """value of a pure tail expression"""
    if e is None:
        return "()"
    return E(e, cx)


def V_opt(e, cx):
    """value of a tail expression of an Option-valued sub-computation"""
    cx.binds = []
    t = E(e, cx) if e is not None else "()"
    b, cx.binds = cx.binds, None
    return wrap_binds(b, "some %s" % paren(t))


def wrapb(cx, binds, inner):
    """sequence pending partial computations before `inner` (only where an Option term is being built)"""
    if binds and not cx.opt_tail:
        raise NeedBind()
    return wrap_binds(binds, inner)


def diverges(block):
    """the block always leaves by return / continue / panic"""
    if block[0] != "block":
        return block[0] == "macro" and block[1] in ("panic", "unreachable")
    if block[2] is not None:
        return diverges(block[2]) if block[2][0] in ("block", "macro") else False
    if not block[1]:
        return False
    last = block[1][-1]
    if last[0] in ("return", "continue"):
        return True
    if last[0] == "expr" and last[1][0] == "macro" and last[1][1] in ("panic", "unreachable"):
        return True
    return False


def assigned_in(stmts, tail=None):
    """places mutated by a statement list, in order of first mutation"""
    out = []

    def add(n):
        if n is not None and n not in out:
            out.append(n)

    def expr_effect(e):
        if e[0] == "mcall":
            r = strip_refs(e[1])
            if e[2] in ("push", "push_back", "insert") and r[0] == "var":
                add(r[1])
                return
            if e[2] in ("push", "push_back") and r[0] == "index" and strip_refs(r[1])[0] == "var":
                add(strip_refs(r[1])[1])
                return
            # user methods with &mut self / &mut argument are resolved at translation time; be conservative:
            for f in FUNS:
                if f.rust == e[2] and f.mut is not None:
                    if f.mut == 0 and r[0] == "var":
                        add(r[1])
                    elif f.mut > 0 and len(e[3]) >= f.mut:
                        t = strip_refs(e[3][f.mut - 1])
                        if t[0] == "var":
                            add(t[1])
        elif e[0] == "call" and e[1][0] in ("path", "var"):
            nm = e[1][1][-1] if e[1][0] == "path" else e[1][1]
            for f in list(FUNS) + list(HELPERS.values()):
                if f.rust == nm and f.mut is not None and len(e[2]) > f.mut:
                    t = strip_refs(e[2][f.mut])
                    if t[0] == "var":
                        add(t[1])
        elif e[0] == "iflet":
            walk(e[3][1], e[3][2])
            if e[4] is not None and e[4][0] == "block":
                walk(e[4][1], e[4][2])
        elif e[0] == "if":
            walk(e[2][1], e[2][2])
            if e[3] is not None and e[3][0] == "block":
                walk(e[3][1], e[3][2])
        elif e[0] == "block":
            walk(e[1], e[2])
        elif e[0] == "match":
            for _, _, b in e[2]:
                expr_effect(b)

    def walk(ss, tl):
        for s in ss:
            if s[0] == "assign":
                t = s[2]
                while t[0] in ("index", "un"):
                    t = t[1] if t[0] == "index" else t[2]
                if t[0] == "var":
                    add(t[1])
            elif s[0] == "expr":
                expr_effect(s[1])
            elif s[0] == "for":
                walk(s[3][1], s[3][2])
            elif s[0] == "let" and s[3] is not None:
                r = strip_refs(s[3])
                if r[0] == "call" and r[1][0] == "path" and r[1][1][-2:] == ["mem", "take"] and len(r[2]) == 1:
                    t = strip_refs(r[2][0])
                    while t[0] == "index":
                        t = strip_refs(t[1])
                    if t[0] == "var":
                        add(t[1])
        if tl is not None:
            expr_effect(tl)

    walk(stmts, tail)
    return out


def is_effect_expr(e, cx):
    """expression used for its effect (unit value)"""
    if e[0] == "mcall":
        r = strip_refs(e[1])
        if e[2] in ("push", "push_back", "insert") and r[0] == "var":
            return True
        if e[2] in ("push", "push_back") and r[0] == "index" and strip_refs(r[1])[0] == "var":
            return True
        g = resolve_method(e, cx)
        return g is not None and g.mut is not None
    if e[0] == "call" and e[1][0] == "path" and len(e[1][1]) == 2:
        owner = cx.fn.owner if e[1][1][0] == "Self" else e[1][1][0]
        g = lookup_fn(PATH_OWNER.get(owner, [owner]), e[1][1][1]) or assoc_helper(owner, e[1][1][1])
        return g is not None and g.mut is not None
    if e[0] == "call" and e[1][0] == "var" and ("local", e[1][1]) in HELPERS:
        return HELPERS[("local", e[1][1])].mut is not None
    return False


def do_effect(e, cx):
    """perform an effect expression on the symbolic state; returns binds produced"""
    cx.binds = []
    try:
        if e[0] == "mcall" and e[2] in ("push", "push_back") and len(e[3]) == 1 and strip_refs(e[1])[0] == "index":
            # `v[i].push(x)`: a place inside a vector of vectors
            r = strip_refs(e[1])
            root = strip_refs(r[1])[1]
            i = paren(E(r[2], cx))
            cur = paren(cx.env[root])
            cx.env[root] = "(%s.set %s (%s.getD %s [] ++ [%s]))" % (cur, i, cur, i, E(e[3][0], cx))
        elif e[0] == "mcall" and e[2] in ("push", "push_back") and len(e[3]) == 1:
            root = strip_refs(e[1])[1]
            cx.env[root] = "(%s ++ [%s])" % (paren(cx.env[root]), E(e[3][0], cx))
        elif e[0] == "mcall" and e[2] == "insert" and len(e[3]) == 1:
            root = strip_refs(e[1])[1]
            cx.env[root] = "(VarSet.insert %s %s)" % (paren(E(e[3][0], cx)), paren(cx.env[root]))
        else:
            if e[0] == "mcall":
                g = resolve_method(e, cx)
                args = [e[1]] + e[3]
            elif e[1][0] == "var":
                g = HELPERS[("local", e[1][1])]
                args = e[2]
            else:
                owner = cx.fn.owner if e[1][1][0] == "Self" else e[1][1][0]
                g = lookup_fn(PATH_OWNER.get(owner, [owner]), e[1][1][1]) or assoc_helper(owner, e[1][1][1])
                args = e[2]
            tgt = strip_refs(args[g.mut])
            if tgt[0] != "var" or tgt[1] not in cx.env:
                raise Untranslatable("mutated argument is not a local")
            vals = [E(x, cx) for x in args]
            saved = cx.binds
            if g.partial:
                raise Untranslatable("partial mutating function")
            cx.binds = saved
            cx.env[tgt[1]] = call_fn(g, vals, cx)
    finally:
        b, cx.binds = cx.binds, None
    return b


def T(e, cx, fin, force_pure=False):
    """term for `e` in tail position; `fin(tail_expr_or_None, cx)` gives the term at the end of a path"""
    k = e[0] if e is not None else None
    if k == "block":
        return seq(e[1], 0, e[2], cx.sub(), fin)
    if k == "if":
        c = cond(e[1], cx)
        t = T(e[2], cx.sub(), fin)
        if e[3] is None:
            el = fin(None, cx.sub())
        else:
            el = T(e[3], cx.sub(), fin)
        return "if %s then\n  %s\nelse\n  %s" % (c, t, el)
    if k == "match":
        return match_term(e, cx, fin)
    if k == "macro" and e[1] in ("panic", "unreachable"):
        if not cx.fn.partial:
            raise Untranslatable("panic in a total function")
        if force_pure or cx.binds is None and False:
            raise NeedBind()
        return "none"
    if k == "return":
        raise Untranslatable("return in expression position")
    if e is not None and is_effect_expr(e, cx):
        b = do_effect(e, cx)
        return wrapb(cx, b, fin(None, cx))
    return fin(e, cx)


def cond(c, cx):
    sub = cx.sub()
    sub.binds = None
    try:
        return E(c, sub)
    except NeedBind:
        raise Untranslatable("partial call in a condition")


def match_term(e, cx, fin):
    scrut = strip_refs(e[1])
    arms = e[2]
    mut_self = cx.fn.mut == 0 and scrut == ("var", "self")
    # scrutinee columns
    if scrut[0] == "tuple":
        cols = [strip_refs(x) for x in scrut[1]]
    else:
        cols = [scrut]
    ctys = [tyof(c, cx) for c in cols]
    cterms = []
    try:
        for c in cols:
            sub = cx.sub()
            sub.binds = None
            cterms.append(E(c, sub))
    except NeedBind:
        # a partial scrutinee: bind its parts first (left to right), then match on the values
        if not cx.opt_tail:
            raise
        cx2 = cx.sub()
        cx2.binds = []
        terms = [E(c, cx2) for c in cols]
        b = cx2.binds
        cx3 = cx.sub()
        names = []
        for j, (t, ty) in enumerate(zip(terms, ctys)):
            nm = "__scrut%d" % j
            cx3.env[nm] = t
            if ty:
                cx3.ty[nm] = ty
            names.append(("var", nm))
        e2 = ("match", names[0] if len(names) == 1 else ("tuple", names), arms)
        return wrapb(cx, b, match_term(e2, cx3, fin))
    view_cols = {}      # column index -> index of the extra `Tr.sliceBack` column
    rows = []
    for pat, guard, body in arms:
        acx = cx.sub()
        places = [] if mut_self else None
        pp = pat
        while pp[0] == "pref":
            pp = pp[1]
        if len(cols) > 1:
            if pp[0] == "pwild":
                pp = ("ptuple", [("pwild",)] * len(cols))
            if pp[0] != "ptuple" or len(pp[1]) != len(cols):
                raise Untranslatable("tuple pattern arity")
            subpats = pp[1]
        else:
            subpats = [pp]
        if pp[0] == "por":
            raise Untranslatable("or-pattern")
        main, extra = [], {}
        ctor = None
        for i, (q, t) in enumerate(zip(subpats, ctys)):
            lp, ex = lean_pat(q, acx, t, places)
            if lp is None:          # suffix slice pattern
                view_cols.setdefault(i, len(view_cols))
                extra[i] = ex
                main.append("_")
            else:
                main.append(lp)
                if isinstance(ex, str):
                    ctor = ex
        if mut_self:
            if ctor is None:
                raise Untranslatable("`match self` arm of a &mut self function without a constructor pattern")
            acx.rebuild = (ctor, places)
        rows.append((main, extra, guard, body, acx))
    ncol = len(cols) + len(view_cols)
    scr = list(cterms) + [None] * len(view_cols)
    for i, j in view_cols.items():
        scr[len(cols) + j] = "Tr.sliceBack %s" % paren(cterms[i])
    out = "match %s with" % ", ".join(scr)
    # guards: an arm with a guard becomes `| pat => if guard then body else <the following arms on the same scrutinee>`;
    # only supported when the next arm has the same pattern (the fall-through target)
    i = 0
    while i < len(rows):
        main, extra, guard, body, acx = rows[i]
        lp = list(main) + ["_"] * len(view_cols)
        for ci, ex in extra.items():
            lp[len(cols) + view_cols[ci]] = ex
        bt = T(body, acx, fin)
        if guard is not None:
            if i + 1 >= len(rows) or rows[i + 1][0] != main or rows[i + 1][1] != extra or rows[i + 1][2] is not None:
                raise Untranslatable("match guard without an unguarded arm of the same pattern after it")
            g = cond(guard, acx)
            bt2 = T(rows[i + 1][3], rows[i + 1][4], fin)
            bt = "if %s then\n  %s\nelse\n  %s" % (g, bt, bt2)
            i += 1
        out += "\n| %s => %s" % (", ".join(lp), bt.replace("\n", "\n    "))
        i += 1
    if view_cols:
        # the Rust match is exhaustive (checked by rustc); Lean cannot see that through the view column
        if not cx.fn.partial:
            raise Untranslatable("suffix slice pattern in a total function")
        out += "\n| %s => none" % ", ".join(["_"] * ncol)
    return "(" + out + ")"


def seq(stmts, i, tail, cx, fin):
    if i == len(stmts) and tail is not None and tail[0] in ("iflet", "if") and tail[-1] is None:
        # a trailing `if` / `if let` without `else` has the unit value: it is a statement
        return seq(list(stmts) + [("expr", tail)], i, None, cx, fin)
    if i == len(stmts):
        if tail is None:
            return fin(None, cx)
        return T(tail, cx, fin)
    s = stmts[i]
    k = s[0]
    rest = lambda: seq(stmts, i + 1, tail, cx, fin)   # noqa: E731
    if k == "fnitem":
        make_helper("local", s[1], s[2], s[3], s[4], cx.fn)
        return rest()
    if k == "let" and strip_refs(s[3])[0] == "call" and strip_refs(s[3])[1][0] == "path" \
            and strip_refs(s[3])[1][1][-2:] == ["mem", "take"] and len(strip_refs(s[3])[2]) == 1 and s[1][0] == "pvar":
        # `let x = std::mem::take(&mut place);`: x = the old value, the place becomes the default (empty vector)
        place = strip_refs(strip_refs(s[3])[2][0])
        cx.binds = []
        try:
            old = E(place, cx)
            ty = tyof(place, cx)
            if ty not in ("lnat", "lvtree", "ldtree", "lldtree"):
                raise Untranslatable("mem::take of a value that is not a vector")
            if place[0] == "var":
                cx.env[place[1]] = "[]"
            elif place[0] == "index" and strip_refs(place[1])[0] == "var":
                root = strip_refs(place[1])[1]
                cx.env[root] = "(%s.set %s [])" % (paren(cx.env[root]), paren(E(place[2], cx)))
            else:
                raise Untranslatable("mem::take place")
        finally:
            b, cx.binds = cx.binds, None
        cx.env[s[1][1]] = paren(old)
        cx.ty[s[1][1]] = ty
        return wrapb(cx, b, rest())
    if k == "let":
        pat, rhs = s[1], s[3]
        while pat[0] == "pref":
            pat = pat[1]
        if pat[0] == "pvar":
            cx.binds = []
            try:
                t = E(rhs, cx)
            finally:
                b, cx.binds = cx.binds, None
            ty = tyof(rhs, cx)
            if ty is None and strip_refs(rhs)[0] == "macro" and strip_refs(rhs)[1] == "vec" and "None" in strip_refs(rhs)[2]:
                ty = "lonat"
            if ty is None and rhs[0] == "call" and rhs[1][0] == "path":
                owner = cx.fn.owner if rhs[1][1][0] == "Self" else rhs[1][1][0]
                g = lookup_fn(PATH_OWNER.get(owner, [owner]), rhs[1][1][-1])
                if g is not None and g.mut is None:
                    ty = g.ret
            cx.env[pat[1]] = paren(t)
            if len(s) > 4 and s[4] and rust_ty_tag(s[4], cx.fn.owner):
                ty = rust_ty_tag(s[4], cx.fn.owner)          # the declared type wins
            if ty:
                cx.ty[pat[1]] = ty
            else:
                cx.ty.pop(pat[1], None)
            return wrapb(cx, b, rest())
        if pat[0] == "ptuple":
            r = strip_refs(rhs)
            cx.binds = []
            try:
                if r[0] == "tuple" and len(r[1]) == len(pat[1]):
                    vals = [paren(E(x, cx)) for x in r[1]]
                    tys = [tyof(x, cx) for x in r[1]]
                elif r[0] == "mcall" and r[2] in ("split_at", "partition") and len(pat[1]) == 2:
                    t = E(r, cx)
                    # "(A, B)" produced by the mapping table: split at the top-level comma
                    inner = t[1:-1]
                    d, cut = 0, None
                    for j, ch in enumerate(inner):
                        if ch in "([":
                            d += 1
                        elif ch in ")]":
                            d -= 1
                        elif ch == "," and d == 0:
                            cut = j
                            break
                    vals = [paren(inner[:cut].strip()), paren(inner[cut + 1:].strip())]
                    lt = tyof(r[1], cx)
                    tys = [lt, lt]
                else:
                    vals = None
                    t = E(rhs, cx)
            finally:
                b, cx.binds = cx.binds, None
            if vals is not None:
                for q, v, ty in zip(pat[1], vals, tys):
                    while q[0] == "pref":
                        q = q[1]
                    if q[0] == "pwild":
                        continue
                    if q[0] != "pvar":
                        raise Untranslatable("nested let pattern")
                    cx.env[q[1]] = v
                    if ty:
                        cx.ty[q[1]] = ty
                    else:
                        cx.ty.pop(q[1], None)
                return wrapb(cx, b, rest())
            lp, _ = lean_pat(pat, cx, None)
            return wrapb(cx, b, "(match %s with\n| %s => %s)" % (t, lp, rest().replace("\n", "\n    ")))
        raise Untranslatable("let pattern")
    if k == "assign":
        if s[1] != "=":
            raise Untranslatable("compound assignment")
        tgt = s[2]
        cx.binds = []
        try:
            if tgt[0] == "index":
                root = strip_refs(tgt[1])
                if root[0] != "var" or root[1] not in cx.env:
                    raise Untranslatable("assignment target")
                cx.env[root[1]] = "(%s.set %s %s)" % (paren(cx.env[root[1]]), paren(E(tgt[2], cx)), paren(E(s[3], cx)))
            else:
                t = strip_refs(tgt)
                if t[0] != "var" or t[1] not in cx.env:
                    raise Untranslatable("assignment target")
                cx.env[t[1]] = paren(E(s[3], cx))
        finally:
            b, cx.binds = cx.binds, None
        return wrapb(cx, b, rest())
    if k == "return":
        if cx.in_loop:
            raise Untranslatable("return inside a loop")
        if cx.fn.mut is not None:
            raise Untranslatable("return in a mutating function")
        return cx.ret_fin(s[1], cx)
    if k == "continue":
        if not cx.in_loop:
            raise Untranslatable("continue outside a loop")
        return cx.loop_fin(None, cx)
    if k == "for":
        b = do_for(s, cx)
        return wrapb(cx, b, rest())
    if k == "expr":
        e = s[1]
        if e[0] == "macro":
            if e[1] == "debug_assert":
                return rest()
            if e[1] == "assert":
                if not cx.fn.partial:
                    raise Untranslatable("assert! in a total function")
                c = cond(Parser(e[2]).expr(), cx)
                return "if %s then\n  %s\nelse\n  none" % (c, rest())
            if e[1] in ("panic", "unreachable"):
                if not cx.fn.partial:
                    raise Untranslatable("panic in a total function")
                return "none"
            if e[1] in ("println", "eprintln"):
                return rest()
            raise Untranslatable("macro statement " + e[1])
        if e[0] == "if" and e[3] is None:
            if diverges(e[2]):
                c = cond(e[1], cx)
                t = T(e[2], cx.sub(), fin)
                return "if %s then\n  %s\nelse\n  %s" % (c, t, rest())
            # conditional effect: merge the environments
            c = cond(e[1], cx)
            sub = cx.sub()
            muts = assigned_in(e[2][1], e[2][2])
            marker = "\0END"
            t = seq(e[2][1], 0, e[2][2], sub, lambda te, c2: (c2_capture(c2, sub), marker)[1])
            if t != marker:
                raise Untranslatable("conditional effect with binds or control flow")
            for m in muts:
                if m in cx.env and sub.env.get(m) != cx.env[m]:
                    cx.env[m] = "(if %s then %s else %s)" % (c, sub.env[m], cx.env[m])
            return rest()
        if is_effect_expr(e, cx):
            b = do_effect(e, cx)
            return wrapb(cx, b, rest())
        if e[0] == "iflet" and e[4] is None and not (
                strip_refs(e[2])[0] == "var" and cx.ty.get(strip_refs(e[2])[1]) == "dtree"
                and (e[1][1] if e[1][0] == "pref" else e[1])[0] == "pstruct" and e[2][0] == "un"):
            # `if let PAT = value { effects }`: every local assigned in the block becomes
            # `match value with | PAT => new | _ => old`
            sub0 = cx.sub()
            sub0.binds = None
            try:
                scr = E(strip_refs(e[2]), sub0)
            except NeedBind:
                raise Untranslatable("partial scrutinee of an if-let statement")
            sty = tyof(strip_refs(e[2]), cx)
            sub = cx.sub()
            sub.opt_tail = False
            lp, _ = lean_pat(e[1], sub, sty)
            if lp is None:
                raise Untranslatable("suffix slice pattern in if-let")
            muts = [m for m in assigned_in(e[3][1], e[3][2]) if m in cx.env]
            marker = "\0END"
            t = seq(e[3][1], 0, e[3][2], sub, lambda te, c2: (c2_capture(c2, sub), marker)[1])
            if t != marker:
                raise Untranslatable("if-let statement with binds or control flow")
            for m in muts:
                if sub.env.get(m) != cx.env[m]:
                    cx.env[m] = "(match %s with | %s => %s | _ => %s)" % (scr, lp, sub.env[m], cx.env[m])
            return rest()
        if e[0] == "iflet" and e[4] is None:
            # `if let Ctor { fields } = &mut local { assignments to the fields }`: the local is rebuilt
            tgt = strip_refs(e[2])
            if tgt[0] != "var" or tgt[1] not in cx.env or cx.ty.get(tgt[1]) != "dtree":
                raise Untranslatable("if let on something that is not a local dtree")
            sub = cx.sub()
            sub.opt_tail = False
            places = []
            pat = e[1]
            while pat[0] == "pref":
                pat = pat[1]
            lp, ctor = lean_pat(pat, sub, "dtree", places)
            if not isinstance(ctor, str):
                raise Untranslatable("if let pattern")

            def rebuilt(te, c):
                if te is not None:
                    raise Untranslatable("value of an if-let statement")
                return "%s %s" % (ctor, " ".join(paren(c.env[rn]) if lv is not None else rn for _, rn, lv in places))

            body = seq(e[3][1], 0, e[3][2], sub, rebuilt)
            w = cx.fresh("other")
            cx.env[tgt[1]] = "(match %s with | %s => %s | %s => %s)" % (cx.env[tgt[1]], lp, body, w, w)
            return rest()
        if e[0] in ("if", "match", "block"):
            # statement-level compound with effects in every branch: only when it is the last statement
            if i == len(stmts) - 1 and tail is None:
                return T(e, cx, fin)
            raise Untranslatable("compound statement followed by more statements")
        raise Untranslatable("expression statement " + e[0])
    raise Untranslatable("statement kind " + k)


def c2_capture(c2, sub):
    sub.env = c2.env
    return None


def do_for(s, cx):
    """`for pat in it { body }` -> fold; updates cx.env of the mutated locals; returns binds (partial body)"""
    pat, it, body = s[1], s[2], s[3]
    muts = [m for m in assigned_in(body[1], body[2]) if m in cx.env]
    if not muts:
        raise Untranslatable("for loop without effect on the locals")
    it_s = strip_refs(it)
    enum = it_s[0] == "mcall" and it_s[2] == "enumerate" and not it_s[3]
    src = it_s[1] if enum else it_s
    cx.binds = []
    try:
        if strip_refs(src)[0] == "bin" and strip_refs(src)[1] == ".." and strip_refs(src)[3] is not None:
            lo, hi = E(strip_refs(src)[2], cx), E(strip_refs(src)[3], cx)     # `for i in a..b`: the bounds are evaluated once
            src_t = "List.range' %s (%s - %s)" % (paren(lo), paren(hi), paren(lo))
            elt = "nat"
        else:
            src_t = E(src, cx)
            elt = ELEM.get(tyof(src, cx))
    finally:
        pre, cx.binds = cx.binds, None
    sub = cx.sub()
    sub.in_loop = True
    names = ["s%d" % n for n in range(len(muts))]
    for m, nm in zip(muts, names):
        sub.env[m] = nm
    st_pat = names[0] if len(names) == 1 else "(" + ", ".join(names) + ")"
    if enum:
        if pat[0] != "ptuple" or len(pat[1]) != 2 or pat[1][0][0] != "pvar" or pat[1][1][0] != "pvar":
            raise Untranslatable("enumerate pattern")
        iv, xv = pat[1][0][1], pat[1][1][1]
        sub.env[iv], sub.ty[iv] = lname(iv), "nat"
    else:
        if pat[0] == "pwild":
            pat = ("pvar", cx.fresh("i_"))
        if pat[0] != "pvar":
            raise Untranslatable("for pattern")
        xv = pat[1]
    sub.env[xv] = lname(xv)
    if elt:
        sub.ty[xv] = elt
    else:
        sub.ty.pop(xv, None)

    def state(c):
        return c.env[muts[0]] if len(muts) == 1 else "(" + ", ".join(c.env[m] for m in muts) + ")"

    used_bind = [False]

    def mk(partial):
        c = sub.sub()
        c.counter = sub.counter
        c.loop_fin = (lambda te, c2: "some %s" % paren(state(c2))) if partial else (lambda te, c2: state(c2))
        c.opt_tail = partial
        return c, seq(body[1], 0, body[2], c, c.loop_fin)

    try:
        c, bt = mk(False)
        if ".bind fun" in bt or re.search(r"\bnone\b", bt) and cx.fn.partial and "(none : Option Nat)" not in bt and False:
            raise NeedBind()
        partial = ".bind fun" in bt
    except NeedBind:
        partial = True
    if partial:
        if not cx.fn.partial:
            raise Untranslatable("partial loop body in a total function")
        c, bt = mk(True)
    init = state(cx)
    bt = bt.replace("\n", "\n    ")
    if partial:
        if enum:
            raise Untranslatable("partial enumerate loop")
        loop = "Tr.forInM %s %s (fun %s %s =>\n    %s)" % (paren(src_t), paren(init), st_pat, lname(xv), bt)
        v = cx.fresh("st")
        pre.append((v, loop))
        loop = v
    elif enum:
        loop = "(Tr.forEnum %s %s (fun %s %s %s =>\n    %s))" % (paren(src_t), paren(init), lname(iv), lname(xv), st_pat, bt)
    else:
        loop = "(Tr.forIn' %s %s (fun %s %s =>\n    %s))" % (paren(src_t), paren(init), st_pat, lname(xv), bt)
    if len(muts) == 1:
        cx.env[muts[0]] = loop
    else:
        for n, m in enumerate(muts):
            proj = ".1" if n == 0 else (".2" * n + (".1" if n < len(muts) - 1 else ""))
            cx.env[m] = "%s%s" % (loop, proj)
    return pre


# ---------------------------------------------------------------- functions

def fn_signature(src, name, impl_hint):
    """[(param, type text)], return type text (None for unit) of `fn name` (text level)"""
    from rustmini_vtree import strip_comments, matching, tokenize
    txt = strip_comments(src)
    start = 0
    if impl_hint:
        m = re.search(impl_hint, txt)
        if not m:
            return None
        start = m.end()
    m = re.compile(r"\bfn\s+%s\s*(?:<[^>{(]*>)?\s*\(" % re.escape(name)).search(txt, start)
    if not m:
        return None
    p0 = m.end() - 1
    p1 = matching(txt, p0, "(", ")")
    b0 = txt.index("{", p1)
    ret = txt[p1 + 1:b0].strip()
    ret = ret[2:].strip() if ret.startswith("->") else None
    if ret and "where" in ret:
        ret = ret.split("where")[0].strip()
    params, depth, cur = [], 0, ""
    for ch in txt[p0 + 1:p1] + ",":
        if ch in "<([":
            depth += 1
        elif ch in ">)]":
            depth -= 1
        if ch == "," and depth == 0:
            if cur.strip():
                if ":" in cur:
                    n, t = cur.split(":", 1)
                    params.append((re.sub(r"^mut\s+", "", n.strip()), t.strip()))
                else:
                    params.append(("self", cur.strip()))
            cur = ""
        else:
            cur += ch
    return params, ret


LEAN_RESERVED = {"from", "at", "fun", "then", "do", "end", "open", "show", "have", "with", "in", "local", "using", "where",
                 "by", "calc", "match", "if", "else", "let", "def", "theorem", "instance", "class", "structure", "namespace",
                 "section", "variable", "universe", "import", "export", "private", "protected", "mutual", "macro", "syntax",
                 "deriving", "extends", "for", "return", "try", "catch", "finally", "unless", "mut", "Type", "Prop", "Sort",
                 "some", "none", "fuel"}


def lname(n):
    """Rust identifier -> Lean binder name (Lean keywords get a trailing underscore)"""
    return n + "_" if n in LEAN_RESERVED else n


def camel(name):
    parts = name.split("_")
    return parts[0] + "".join(p.capitalize() for p in parts[1:])


def make_helper(owner, name, params, ret_text, ast, parent):
    """a function that is not in the table FUNS (nested `fn` item, private associated function): its types are read from
    the signature; translated on first use and emitted in front of the function that uses it"""
    key = (owner, name)
    if key in HELPERS:
        return HELPERS[key]
    real_owner = parent.owner
    ptys, mut = [], None
    for i, (pn, pt) in enumerate(params):
        if pn == "self":
            tag = {"VTree": "vtree", "BTree": "vtree", "DTree": "dtree", "VTreeManager": "mgr"}.get(real_owner)
        else:
            tag = rust_ty_tag(pt, real_owner)
        if tag is None:
            raise Untranslatable("helper %s: parameter type %s" % (name, pt))
        if re.match(r"^&\s*('[a-z]+\s*)?mut\b", pt.strip()):
            if mut is not None:
                raise Untranslatable("helper %s: two &mut parameters" % name)
            mut = i
        ptys.append(tag)
    if ret_text is None:
        if mut is None:
            raise Untranslatable("helper %s returns nothing and mutates nothing" % name)
        ret = ptys[mut]
    else:
        if mut is not None:
            raise Untranslatable("helper %s: value and &mut parameter" % name)
        ret = rust_ty_tag(ret_text, real_owner)
        if ret is None:
            raise Untranslatable("helper %s: return type %s" % (name, ret_text))
    body_txt = repr(ast)
    rec = "struct" if re.search(r"'%s'" % re.escape(name), body_txt) else "none"
    lean = camel(parent.rust) + "_" + camel(name) if owner == "local" else camel(name)
    last = None
    for partial in (False, True):
        g = Fn(real_owner, name, lean, ptys, ret, "default", parent.file, partial=partial, rec=rec, mut=mut)
        HELPERS[key] = g
        try:
            d = translate_ast(g, [pn for pn, _ in params], ast)
            HELPER_DEFS.append(d)
            return g
        except (NeedBind, Untranslatable) as e:
            last = e
            del HELPERS[key]
            if not (isinstance(e, NeedBind) or "total function" in str(e)):
                break
    raise Untranslatable("helper %s: %s" % (name, last))


def assoc_helper(owner, name):
    """a private associated function of the same impl block that is not in FUNS"""
    if (owner, name) in HELPERS:
        return HELPERS[(owner, name)]
    cur = CURRENT[0]
    if cur is None or owner not in IMPLS or owner not in PATH_OWNER.get(cur.owner, [cur.owner]) + [cur.owner]:
        return None
    src = CURRENT[1]
    sig = fn_signature(src, name, IMPLS[owner])
    if sig is None:
        return None
    params, ret = sig
    _, body = find_fn(src, name, IMPLS[owner])
    return make_helper(owner, name, params, ret, parse_body(body), cur)


CURRENT = [None, None]


def translate(f, src):
    ps, body = find_fn(src, f.rust, IMPLS[f.owner])
    params = parse_params(ps)
    if len(params) != len(f.ptys):
        raise Untranslatable("parameter list of %s changed: %r" % (f.rust, params))
    ast = parse_body(body)
    del NEWSTATE[:]
    del HELPER_DEFS[:]
    for k in [k for k in HELPERS if k[0] == "local"]:
        del HELPERS[k]
    CURRENT[0], CURRENT[1] = f, src
    d = translate_ast(f, params, ast)
    if NEWSTATE:
        raise Differs("field%s %s of %s (the model's manager has no slot for it)" % (
            "s" if len(NEWSTATE) > 1 else "", ", ".join("`%s`" % x for x in NEWSTATE), f.owner))
    return "\n".join(HELPER_DEFS + [d])


def translate_ast(f, params, ast):
    lean_names = []
    env, ty = {}, {}
    for p, t in zip(params, f.ptys):
        ln = {"self": "self_"}.get(p, lname(p))
        if f.owner in ("VTreeManager", "LeastCommonAncestor") and p == "self":
            ln = "m"
        lean_names.append(ln)
        env[p] = ln
        ty[p] = t
    cx = Cx(f, env, ty)
    if "self" in params:
        cx.selfname = env["self"]
    mutname = params[f.mut] if f.mut is not None else None

    def fin(te, c):
        if f.mut is not None:
            if te is not None and te != ("tuple", []):
                raise Untranslatable("value returned by a mutating function")
            if c.rebuild is not None and f.mut == 0 and params[0] == "self":
                ctor, places = c.rebuild
                args = []
                for fld, rust_name, lean_var in places:
                    args.append(paren(c.env[rust_name]) if lean_var is not None else rust_name)
                return "%s %s" % (ctor, " ".join(args))
            return c.env[mutname]
        if te is None:
            raise Untranslatable("function body without a value")
        if f.partial:
            return V_opt(te, c)
        c.binds = None
        try:
            return E(te, c)
        except NeedBind:
            raise Untranslatable("partial computation in a total function")

    cx.ret_fin = fin
    cx.opt_tail = f.partial and f.mut is None
    saved_cur = CURRENT[0]
    term = T(ast, cx, fin)
    binder = " ".join("(%s : %s)" % (n, LT[t]) for n, t in zip(lean_names, f.ptys))
    rt = f.lean_ret()
    term = term.replace("\n", "\n  ")
    if f.rec == "fuel":
        fuel = f.fuel.format(*lean_names)
        d = "def %sF (fuel : Nat) %s : %s :=\n  match fuel with\n  | 0 => none\n  | fuel + 1 =>\n  %s\n" % (
            f.lean, binder, rt, term.replace("\n", "\n  "))
        d += "\ndef %s %s : %s :=\n  %sF (%s) %s\n" % (f.lean, binder, rt, f.lean, fuel, " ".join(lean_names))
        return d
    return "def %s %s : %s :=\n  %s\n" % (f.lean, binder, rt, term)


def fallback(f, reason):
    d = "-- TRANSLATOR ROUTE NOT AVAILABLE for %s: %s\n" % (f.key, reason.replace("\n", " "))
    if f.rec == "fuel":
        d += "abbrev %sF := %s\n" % (f.lean, f.modelF if f.modelF.startswith("fun") else "@" + f.modelF)
    d += "abbrev %s := %s\n" % (f.lean, f.model if f.model.startswith("fun") else "@" + f.model)
    return d


HEADER = """import RsddModel.Model.VTree
import RsddModel.Model.Orders
import RsddModel.Lemmas.TieVTreeAux
/-!
# Generated by tools/gen_vtree.py from src/repr/vtree.rs, src/util/btree.rs, src/repr/dtree.rs — do not edit

Compared with the hand-written model (`VT.*`, Model/VTree.lean) in `Props/TieVTree.lean`.
`Option` results: `none` = the Rust panics.
-/
set_option linter.unusedVariables false
namespace Gen.VT
open _root_.VT

"""


def write_if_changed(path, text):
    old = open(path).read() if os.path.exists(path) else None
    if old != text:
        open(path, "w").write(text)


def elaboration_errors(text):
    """elaborate the candidate file once (`lake env lean`); returns [(line, message)] of the errors, None if lean cannot be run"""
    import subprocess
    lean_dir = os.path.join(ROOT, "lean")
    tmp = OUT[:-5] + "_check.lean"
    try:
        open(tmp, "w").write(text)
        subprocess.run(["lake", "build", "RsddModel.Lemmas.TieVTreeAux"], cwd=lean_dir, capture_output=True, text=True, timeout=900)   # imports up to date
        r = subprocess.run(["lake", "env", "lean", os.path.relpath(tmp, lean_dir)], cwd=lean_dir, capture_output=True,
                           text=True, timeout=900)
    except Exception:  # noqa: BLE001
        return None
    finally:
        try:
            os.remove(tmp)
        except OSError:
            pass
    errs = []
    for m in re.finditer(r"^[^\n:]*:(\d+):(\d+): error:? ?(.*)$", r.stdout + r.stderr, re.M):
        errs.append((int(m.group(1)), m.group(3).strip()))
    if r.returncode != 0 and not errs:
        return None
    return errs


def guarded_write(keys, blocks, status, fallback_of, footer):
    """assemble HEADER + blocks + footer; when the text is new, elaborate it; a definition on an error line falls
    back to its alias (status `… does not elaborate`), repeated until the file elaborates"""
    for _round in range(len(keys) + 1):
        text, ranges, line = HEADER, [], HEADER.count("\n") + 1
        for k, b in zip(keys, blocks):
            n = b.count("\n") + 1
            ranges.append((line, line + n - 1, k))
            text += b + "\n"
            line += n
        text += footer
        old = open(OUT).read() if os.path.exists(OUT) else None
        if old == text:
            return
        errs = elaboration_errors(text)
        if not errs:
            break
        bad = {}
        for ln, msg in errs:
            for lo, hi, k in ranges:
                if lo <= ln <= hi and k not in bad:
                    bad[k] = msg
        bad = {k: m for k, m in bad.items() if "UNTRANSLATED" not in status[k] and not status[k].startswith("DIFFERS")}
        if not bad:
            break
        for i, k in enumerate(keys):
            if k in bad:
                msg = "does not elaborate: " + bad[k][:160]
                blocks[i] = fallback_of(k, msg)
                status[k] = "UNTRANSLATED (translator route not available, tied by correspondence only): " + msg
    write_if_changed(OUT, text)


def main():
    status, defs, srcs = {}, [], {}
    DERIVED.clear()
    for f in FUNS:
        try:
            if f.file not in srcs:
                try:
                    srcs[f.file] = open(os.path.join(REPO, f.file)).read()
                except OSError as e:
                    srcs[f.file] = e
            if isinstance(srcs[f.file], Exception):
                raise Untranslatable(str(srcs[f.file]))
            defs.append(translate(f, srcs[f.file]))
            status[f.key] = "translated"
        except Differs as e:
            defs.append(fallback(f, "DIFFERS (new state): %s" % e))
            status[f.key] = "DIFFERS (new state): %s" % e
        except NeedBind:
            defs.append(fallback(f, "partial computation where a value is needed"))
            status[f.key] = "UNTRANSLATED (translator route not available, tied by correspondence only): partial computation where a value is needed"
        except Exception as e:  # noqa: BLE001  (never crash: per-function fallback)
            msg = "%s: %s" % (type(e).__name__, e) if not isinstance(e, Untranslatable) else str(e)
            defs.append(fallback(f, msg))
            status[f.key] = "UNTRANSLATED (translator route not available, tied by correspondence only): %s" % msg
    byk = {f.key: f for f in FUNS}
    guarded_write([f.key for f in FUNS], defs, status, lambda k, msg: fallback(byk[k], msg), "end Gen.VT\n")
    return status


if __name__ == "__main__":
    for k, v in main().items():
        print(k, "->", v)
